// K unit (C04 + C17): the step / ap bookkeeping of `CasmBuilder` - the numbers that
// `build_from_casm_builder_ex` compares with the declared libfunc cost and ap change.
// Injected as a child module of crates/cairo-lang-casm/src/builder.rs (private fields and private
// methods are reachable from a child module).
//
// Oracle (property statements): C04 "steps = number of instructions on the path, max over internal
// paths at a merge"; C17 "ap_change is the real movement of ap": an instruction moves ap by 1 iff it
// carries `ap++`, `ap += n` moves it by n, nothing else moves it; a variable may only be allocated at
// ap + k if ap really moves past it (`validate_finality`), and merging paths must agree on it.
//
// The private bookkeeping fields are set to symbolic values directly (probe: DESIGN 3). State
// invariant assumed on entry: `allocated >= 0` (established by Default, preserved by the only two
// writers `alloc_var` and `increase_ap_change` - both proved below) and counters < 2^48 (A3).
// Everything is loop-free and full-domain except `State::intersect`, whose var maps have concrete
// shapes with <= 2 vars (bounded) and symbolic contents.
#![allow(dead_code, unused_imports)]
use num_bigint::{BigInt, Sign};
use num_traits::ToPrimitive;

use super::{CasmBuilder, State, Var};
use crate::cell_expression::CellExpression;
use crate::hints::Hint;
use crate::instructions::{
    AddApInstruction, AssertEqInstruction, Instruction, InstructionBody, JnzInstruction, JumpInstruction, RetInstruction,
};
use crate::operand::{CellRef, DerefOrImmediate, Register, ResOperand};

const CNT: usize = 1 << 48;

fn any_cell() -> CellRef {
    CellRef { register: if kani::any() { Register::AP } else { Register::FP }, offset: kani::any() }
}

/// `h` IS the pending-hints vector handed out by `sym_builder`: same buffer, same length.
/// (Moving, cloning or comparing a `Hint` value - a 60-variant enum holding BigInts - stalls CBMC's
/// symbolic execution, measured > 15 min for a single `Vec<Hint>::push`. The pending vector therefore
/// has `n` elements of unspecified, i.e. arbitrary, content, and the contract is stated as identity.)
fn hints_are(h: &Vec<Hint>, p0: *const Hint, n: usize) -> bool { h.as_ptr() == p0 && h.len() == n }
/// A reachable builder whose bookkeeping is symbolic, with `nhints` pending hints of arbitrary content.
fn sym_builder(nhints: usize) -> (CasmBuilder, *const Hint) {
    let mut b = CasmBuilder::default();
    b.main_state.allocated = kani::any();
    b.main_state.ap_change = kani::any();
    b.main_state.steps = kani::any();
    b.next_instruction_offset = kani::any();
    kani::assume(b.main_state.allocated >= 0); // state invariant
    kani::assume(b.main_state.ap_change < CNT && b.main_state.steps < CNT && b.next_instruction_offset < CNT); // A3
    let mut pending: Vec<Hint> = Vec::with_capacity(nhints + 1);
    unsafe { pending.set_len(nhints) };
    let p0 = pending.as_ptr();
    core::mem::forget(core::mem::replace(&mut b.current_hints, pending));
    (b, p0)
}
struct Snap { allocated: i128, ap_change: i128, steps: i128, offset: i128, n_instructions: usize, var_count: usize }
fn snap(b: &CasmBuilder) -> Snap {
    Snap {
        allocated: b.main_state.allocated as i128,
        ap_change: b.main_state.ap_change as i128,
        steps: b.main_state.steps as i128,
        offset: b.next_instruction_offset as i128,
        n_instructions: b.instructions.len(),
        var_count: b.var_count,
    }
}
/// Size of an instruction in felts (C16): one word, plus one for an immediate.
fn spec_size(has_immediate: bool) -> i128 { if has_immediate { 2 } else { 1 } }

// ---------- CasmBuilder::next_instruction ----------
fn check_next_instruction(body: InstructionBody, has_immediate: bool, nhints: usize) {
    let (mut b, hints0) = sym_builder(nhints);
    kani::cover!(true, "reach:next_instruction");
    let s0 = snap(&b);
    let inc_ap_supported: bool = kani::any();
    let body0 = body.clone();
    let size = body.op_size() as i128;
    assert!(size == spec_size(has_immediate), "C04 next_instruction: op_size == 1 + has_immediate");
    let ins = b.next_instruction(body, inc_ap_supported);
    let expect_inc = inc_ap_supported && s0.allocated > s0.ap_change;
    assert!(b.main_state.steps as i128 == s0.steps + 1 && b.steps() as i128 == s0.steps + 1, "C04 next_instruction: steps' == steps + 1");
    assert!(ins.inc_ap == expect_inc, "C17 next_instruction: ap++ iff supported and an allocated cell is still ahead of ap");
    assert!(b.main_state.ap_change as i128 == s0.ap_change + expect_inc as i128 && b.curr_ap_change() == b.main_state.ap_change,
        "C17 next_instruction: ap_change' == ap_change + inc_ap");
    assert!(b.next_instruction_offset as i128 == s0.offset + size, "C04 next_instruction: next_instruction_offset' == offset + op_size");
    assert!(ins.body == body0, "C04 next_instruction: the instruction carries the given body");
    assert!(hints_are(&ins.hints, hints0, nhints) && b.current_hints.is_empty(), "C04 next_instruction: the instruction carries exactly the pending hints, none stay pending");
    assert!(b.main_state.allocated as i128 == s0.allocated && b.instructions.len() == s0.n_instructions && b.reachable
        && b.var_count == s0.var_count && b.main_state.vars.is_empty() && b.relocations.is_empty(),
        "C04 next_instruction: frame (allocated, instructions, vars, relocations, reachability untouched)");
    // the pending hints have unspecified content: they must not be dropped
    core::mem::forget(ins);
    core::mem::forget(b);
}
#[kani::proof]
#[kani::unwind(4)]
fn c04_next_instruction_ret() {
    check_next_instruction(InstructionBody::Ret(RetInstruction {}), false, 2);
}
#[kani::proof]
#[kani::unwind(4)]
fn c04_next_instruction_assert_eq() {
    check_next_instruction(InstructionBody::AssertEq(AssertEqInstruction { a: any_cell(), b: ResOperand::Deref(any_cell()) }), false, 1);
}
#[kani::proof]
#[kani::unwind(4)]
fn c04_next_instruction_jump_deref() {
    check_next_instruction(InstructionBody::Jump(JumpInstruction { target: DerefOrImmediate::Deref(any_cell()), relative: kani::any() }), false, 0);
}
// a body with an immediate: the body is compared field by field on the fresh BigInt (measured limit on BigInt ==)
#[kani::proof]
#[kani::unwind(10)]
fn c04_next_instruction_jnz_imm() {
    let nhints = 1;
    let (mut b, hints0) = sym_builder(nhints);
    kani::cover!(true, "reach:next_instruction imm");
    let s0 = snap(&b);
    let inc_ap_supported: bool = kani::any();
    let cond = any_cell();
    let body = InstructionBody::Jnz(JnzInstruction { jump_offset: DerefOrImmediate::Immediate(BigInt::from(7).into()), condition: cond });
    let size = body.op_size() as i128;
    assert!(size == spec_size(true), "C04 next_instruction: op_size == 1 + has_immediate");
    let ins = b.next_instruction(body, inc_ap_supported);
    let expect_inc = inc_ap_supported && s0.allocated > s0.ap_change;
    assert!(b.main_state.steps as i128 == s0.steps + 1, "C04 next_instruction: steps' == steps + 1");
    assert!(ins.inc_ap == expect_inc, "C17 next_instruction: ap++ iff supported and an allocated cell is still ahead of ap");
    assert!(b.main_state.ap_change as i128 == s0.ap_change + expect_inc as i128, "C17 next_instruction: ap_change' == ap_change + inc_ap");
    assert!(b.next_instruction_offset as i128 == s0.offset + 2, "C04 next_instruction: next_instruction_offset' == offset + op_size");
    let body_ok = match &ins.body {
        InstructionBody::Jnz(JnzInstruction { jump_offset: DerefOrImmediate::Immediate(v), condition }) =>
            *condition == cond && v.value.sign() == Sign::Plus && v.value.magnitude().to_u64() == Some(7),
        _ => false,
    };
    assert!(body_ok, "C04 next_instruction: the instruction carries the given body");
    assert!(hints_are(&ins.hints, hints0, nhints) && b.current_hints.is_empty(), "C04 next_instruction: the instruction carries exactly the pending hints, none stay pending");
    core::mem::forget(ins);
    core::mem::forget(b);
}
// stated precondition: the builder is at reachable code
#[kani::proof]
#[kani::unwind(4)]
#[kani::should_panic]
fn c04_pre_next_instruction_unreachable_panics() {
    let (mut b, _) = sym_builder(0);
    kani::cover!(true, "reach:unreachable");
    b.reachable = false;
    let _ = b.next_instruction(InstructionBody::Ret(RetInstruction {}), kani::any());
}

// ---------- CasmBuilder::add_ap ----------
#[kani::proof]
#[kani::unwind(10)]
fn c04_add_ap() {
    let (mut b, hints0) = sym_builder(1);
    let n: usize = kani::any();
    kani::assume(n < CNT);
    kani::cover!(true, "reach:add_ap");
    kani::cover!(b.main_state.allocated as usize > b.main_state.ap_change, "reach:add_ap with cells ahead of ap");
    let s0 = snap(&b);
    b.add_ap(n);
    assert!(b.main_state.ap_change as i128 == s0.ap_change + n as i128, "C17 add_ap: ap_change' == ap_change + n (and no ap++)");
    assert!(b.main_state.steps as i128 == s0.steps + 1, "C04 add_ap: one step");
    assert!(b.next_instruction_offset as i128 == s0.offset + 2, "C04 add_ap: two felts of code");
    assert!(b.instructions.len() == s0.n_instructions + 1, "C04 add_ap: exactly one instruction emitted");
    let ins = &b.instructions[s0.n_instructions];
    let body_ok = match &ins.body {
        InstructionBody::AddAp(AddApInstruction { operand: ResOperand::Immediate(v) }) =>
            v.value.sign() != Sign::Minus && v.value.magnitude().to_u64() == Some(n as u64) && (n == 0 || v.value.sign() == Sign::Plus),
        _ => false,
    };
    assert!(body_ok, "C17 add_ap: the emitted instruction is `ap += n`");
    assert!(!ins.inc_ap, "C17 add_ap: the emitted instruction has no ap++");
    assert!(hints_are(&ins.hints, hints0, 1) && b.current_hints.is_empty(), "C04 add_ap: pending hints attached");
    assert!(b.main_state.allocated as i128 == s0.allocated, "C17 add_ap: allocated unchanged");
    core::mem::forget(b);
}

// ---------- CasmBuilder::increase_ap_change ----------
fn increase_pre(allocated: i128, n: usize) -> bool {
    (n as u128) <= i16::MAX as u128 && allocated + n as i128 <= i16::MAX as i128
}
//@ props=C17
#[kani::proof]
#[kani::unwind(4)]
fn c17_increase_ap_change() {
    let (mut b, _) = sym_builder(0);
    let n: usize = kani::any();
    kani::assume(increase_pre(b.main_state.allocated as i128, n));
    kani::cover!(true, "reach:increase_ap_change");
    let s0 = snap(&b);
    b.increase_ap_change(n);
    assert!(b.main_state.ap_change as i128 == s0.ap_change + n as i128, "C17 increase_ap_change: ap_change' == ap_change + n");
    assert!(b.main_state.allocated as i128 == s0.allocated + n as i128 && b.main_state.allocated >= 0, "C17 increase_ap_change: allocated' == allocated + n, invariant allocated >= 0 kept");
    assert!(b.main_state.steps as i128 == s0.steps && b.next_instruction_offset as i128 == s0.offset && b.instructions.len() == s0.n_instructions,
        "C17 increase_ap_change: no instruction, no step");
}
//@ props=C17
#[kani::proof]
#[kani::unwind(4)]
#[kani::should_panic]
fn c17_pre_increase_ap_change_panics_outside() {
    let (mut b, _) = sym_builder(0);
    let n: usize = kani::any();
    kani::assume(!increase_pre(b.main_state.allocated as i128, n));
    kani::cover!(true, "reach:outside increase_pre");
    b.increase_ap_change(n);
}
// the other writer of `allocated`: keeps the invariant and hands out the cell at offset `allocated`
//@ props=C17
#[kani::proof]
#[kani::unwind(4)]
fn c17_alloc_var_keeps_invariant() {
    let (mut b, _) = sym_builder(0);
    kani::assume(b.main_state.allocated < i16::MAX);
    kani::cover!(true, "reach:alloc_var");
    let s0 = snap(&b);
    let local: bool = kani::any();
    let v = b.alloc_var(local);
    assert!(b.main_state.allocated as i128 == s0.allocated + 1 && b.main_state.allocated >= 0, "C17 alloc_var: allocated' == allocated + 1, invariant kept");
    let want = CellExpression::Deref(CellRef { register: if local { Register::FP } else { Register::AP }, offset: s0.allocated as i16 });
    assert!(*b.main_state.get_unadjusted(v) == want, "C17 alloc_var: the variable is the cell at offset `allocated`");
    assert!(b.main_state.ap_change as i128 == s0.ap_change && b.main_state.steps as i128 == s0.steps, "C17 alloc_var: no ap movement, no step");
}
//@ props=C17
#[kani::proof]
fn c17_default_builder_invariant() {
    let b = CasmBuilder::default();
    assert!(b.main_state.allocated == 0 && b.main_state.ap_change == 0 && b.main_state.steps == 0 && b.next_instruction_offset == 0 && b.reachable,
        "C17 default builder: all counters zero, reachable");
}

// ---------- State::validate_finality ----------
fn sym_state() -> State {
    let mut s = State::default();
    s.allocated = kani::any();
    s.ap_change = kani::any();
    s.steps = kani::any();
    kani::assume(s.allocated >= 0); // state invariant
    s
}
//@ props=C17
#[kani::proof]
fn c17_validate_finality_accepts() {
    let s = sym_state();
    kani::assume(s.ap_change as i128 >= s.allocated as i128);
    kani::cover!(true, "reach:finality ok");
    s.validate_finality(); // must not panic
}
//@ props=C17
#[kani::proof]
#[kani::should_panic]
fn c17_pre_validate_finality_panics_when_ap_behind() {
    let s = sym_state();
    kani::assume((s.ap_change as i128) < s.allocated as i128);
    kani::cover!(true, "reach:finality violated");
    s.validate_finality();
}

// ---------- State::intersect (bounded: concrete var-map shapes with <= 2 vars) ----------
struct Pair { a: State, b: State, acell: [CellRef; 2], bcell: [CellRef; 2] }
/// Two states whose var maps have the given concrete key lists (keys in {0, 1}); every value is
/// `Deref(cell)` with a symbolic cell; counters symbolic.
fn sym_pair(akeys: &[usize], bkeys: &[usize]) -> Pair {
    let (mut a, mut b) = (sym_state(), sym_state());
    let acell = [any_cell(), any_cell()];
    let bcell = [any_cell(), any_cell()];
    for k in akeys {
        a.vars.insert(Var(*k), CellExpression::Deref(acell[*k]));
    }
    for k in bkeys {
        b.vars.insert(Var(*k), CellExpression::Deref(bcell[*k]));
    }
    Pair { a, b, acell, bcell }
}
fn contains(keys: &[usize], k: usize) -> bool { keys.iter().any(|x| *x == k) }
/// Vars present on both sides hold the same value.
fn common_vars_agree(p: &Pair, akeys: &[usize], bkeys: &[usize]) -> bool {
    let mut ok = true;
    let mut k = 0;
    while k < 2 {
        if contains(akeys, k) && contains(bkeys, k) && p.acell[k] != p.bcell[k] {
            ok = false;
        }
        k += 1;
    }
    ok
}
fn check_intersect(akeys: &[usize], bkeys: &[usize]) {
    let mut p = sym_pair(akeys, bkeys);
    let read_only: bool = kani::any();
    // the merge is legal: same ap movement, same allocations, common vars agree, and a finalized
    // (read-only) label is not exceeded
    kani::assume(p.a.ap_change == p.b.ap_change && p.a.allocated == p.b.allocated);
    kani::assume(common_vars_agree(&p, akeys, bkeys));
    kani::assume(!read_only || p.a.steps >= p.b.steps);
    kani::cover!(true, "reach:intersect");
    kani::cover!(!read_only && p.a.steps < p.b.steps, "reach:intersect other path longer");
    let (steps_a, steps_b, ap0, alloc0) = (p.a.steps, p.b.steps, p.a.ap_change, p.a.allocated);
    p.a.intersect(&p.b, read_only);
    if read_only {
        assert!(p.a.steps == steps_a, "C04 intersect: a finalized label keeps its steps");
    } else {
        assert!(p.a.steps == if steps_a >= steps_b { steps_a } else { steps_b }, "C04 intersect: steps' == max(steps, other.steps)");
    }
    assert!(p.a.ap_change == ap0 && p.a.allocated == alloc0, "C17 intersect: ap_change and allocated unchanged");
    let mut k = 0;
    let mut n = 0;
    while k < 2 {
        let both = contains(akeys, k) && contains(bkeys, k);
        match p.a.vars.get(&Var(k)) {
            Some(v) => assert!(both && *v == CellExpression::Deref(p.acell[k]), "C17 intersect: a kept var is on both sides and keeps its value"),
            None => assert!(!both, "C17 intersect: a var on both sides is kept"),
        }
        if both { n += 1; }
        k += 1;
    }
    assert!(p.a.vars.len() == n, "C17 intersect: vars' == vars intersected with other.vars");
}
//@ bound="var maps with concrete shapes, <= 2 vars: {v0,v1} vs {v0}"
#[kani::proof]
#[kani::unwind(4)]
fn c04_intersect_vars_01_vs_0() {
    check_intersect(&[0, 1], &[0]);
}
//@ bound="var maps with concrete shapes, <= 2 vars: {v0} vs {v1,v0}"
#[kani::proof]
#[kani::unwind(4)]
fn c04_intersect_vars_0_vs_10() {
    check_intersect(&[0], &[1, 0]);
}
//@ bound="var maps with concrete shapes, <= 2 vars: {v0,v1} vs {v1,v0}"
#[kani::proof]
#[kani::unwind(4)]
fn c04_intersect_vars_01_vs_10() {
    check_intersect(&[0, 1], &[1, 0]);
}
//@ bound="var maps with concrete shapes, <= 2 vars: {v0,v1} vs {}"
#[kani::proof]
#[kani::unwind(4)]
fn c04_intersect_vars_01_vs_none() {
    check_intersect(&[0, 1], &[]);
}
// the stated preconditions of a legal merge: each violation panics
//@ props=C17 bound="var maps with concrete shapes, <= 2 vars"
#[kani::proof]
#[kani::unwind(4)]
#[kani::should_panic]
fn c17_pre_intersect_panics_on_different_ap_change() {
    let mut p = sym_pair(&[0], &[0]);
    kani::assume(p.a.ap_change != p.b.ap_change && p.a.allocated == p.b.allocated && p.acell[0] == p.bcell[0] && p.a.steps >= p.b.steps);
    kani::cover!(true, "reach:intersect ap differs");
    p.a.intersect(&p.b, kani::any());
}
//@ props=C17 bound="var maps with concrete shapes, <= 2 vars"
#[kani::proof]
#[kani::unwind(4)]
#[kani::should_panic]
fn c17_pre_intersect_panics_on_different_allocated() {
    let mut p = sym_pair(&[0], &[0]);
    kani::assume(p.a.ap_change == p.b.ap_change && p.a.allocated != p.b.allocated && p.acell[0] == p.bcell[0] && p.a.steps >= p.b.steps);
    kani::cover!(true, "reach:intersect allocated differs");
    p.a.intersect(&p.b, kani::any());
}
//@ props=C04 bound="var maps with concrete shapes, <= 2 vars"
#[kani::proof]
#[kani::unwind(4)]
#[kani::should_panic]
fn c04_pre_intersect_panics_when_finalized_label_exceeded() {
    let mut p = sym_pair(&[0], &[0]);
    kani::assume(p.a.ap_change == p.b.ap_change && p.a.allocated == p.b.allocated && p.acell[0] == p.bcell[0] && p.a.steps < p.b.steps);
    kani::cover!(true, "reach:intersect finalized label exceeded");
    p.a.intersect(&p.b, true);
}
//@ props=C17 bound="var maps with concrete shapes, <= 2 vars"
#[kani::proof]
#[kani::unwind(4)]
#[kani::should_panic]
fn c17_pre_intersect_panics_on_var_mismatch() {
    let mut p = sym_pair(&[0, 1], &[1]);
    kani::assume(p.a.ap_change == p.b.ap_change && p.a.allocated == p.b.allocated && p.acell[1] != p.bcell[1] && p.a.steps >= p.b.steps);
    kani::cover!(true, "reach:intersect var mismatch");
    p.a.intersect(&p.b, kani::any());
}
