// K unit (C16): `Instruction::assemble`, `*::to_res_description`, `InstructionRepr::encode`,
// every `op_size`. Injected as a child module of crates/cairo-lang-casm/src/assembler.rs.
//
// Oracle: `spec_decode` (instruction word layout) and `vm_step` (state transition) are written
// from the Cairo machine definition, `ref_step` from the meaning of the CASM text. Neither is
// derived from assembler.rs / encoder.rs. All functions under test are loop-free and every input
// is fully symbolic (both registers, all 2^16 offsets, inc_ap, symbolic machine state), so a
// SUCCESSFUL harness is a complete proof for its instruction shape, not a bounded check.
#![allow(dead_code, unused_imports)]
use num_bigint::BigInt;
use num_traits::ToPrimitive;

use super::*;
use crate::instructions::*;
use crate::operand::*;

// ---------- oracle 1: decoder written from the instruction layout ----------
#[derive(Clone, Copy, PartialEq, Eq, Debug)]
pub enum Reg { AP, FP }
#[derive(Clone, Copy, PartialEq, Eq, Debug)]
pub enum Op1 { Op0, Imm, FP, AP }
#[derive(Clone, Copy, PartialEq, Eq, Debug)]
pub enum ResL { Op1, Add, Mul, Unconstrained }
#[derive(Clone, Copy, PartialEq, Eq, Debug)]
pub enum PcU { Regular, Jump, JumpRel, Jnz }
#[derive(Clone, Copy, PartialEq, Eq, Debug)]
pub enum ApU { Regular, Add, Add1, Add2 }
#[derive(Clone, Copy, PartialEq, Eq, Debug)]
pub enum FpU { Regular, ApPlus2, Dst }
#[derive(Clone, Copy, PartialEq, Eq, Debug)]
pub enum Opc { Nop, AssertEq, Call, Ret }
#[derive(Clone, Copy, PartialEq, Eq, Debug)]
pub struct Dec {
    off0: i32, off1: i32, off2: i32,
    dst: Reg, op0: Reg, op1: Op1, res: ResL, pc: PcU, ap: ApU, fp: FpU, opc: Opc,
    ext: u128,
}

/// bits 0..47: three 16-bit offsets biased by 2^15; bits 48..62: flags
/// [dst_reg, op0_reg, op1_src(3), res_logic(2), pc_update(3), ap_update(2), opcode(3)];
/// bits 63..: opcode extension. Each multi-bit group is one-hot or zero.
pub fn spec_decode(w: u128) -> Option<Dec> {
    let off = |x: u128| -> i32 { (x & 0xffff) as i32 - 0x8000 };
    let f = (w >> 48) & 0x7fff;
    let bit = |i: u32| -> bool { (f >> i) & 1 == 1 };
    let op1 = match (bit(2), bit(3), bit(4)) {
        (false, false, false) => Op1::Op0,
        (true, false, false) => Op1::Imm,
        (false, true, false) => Op1::FP,
        (false, false, true) => Op1::AP,
        _ => return None,
    };
    let pc = match (bit(7), bit(8), bit(9)) {
        (false, false, false) => PcU::Regular,
        (true, false, false) => PcU::Jump,
        (false, true, false) => PcU::JumpRel,
        (false, false, true) => PcU::Jnz,
        _ => return None,
    };
    let res = match (bit(5), bit(6)) {
        (false, false) => if pc == PcU::Jnz { ResL::Unconstrained } else { ResL::Op1 },
        (true, false) => if pc == PcU::Jnz { return None } else { ResL::Add },
        (false, true) => if pc == PcU::Jnz { return None } else { ResL::Mul },
        _ => return None,
    };
    let opc = match (bit(12), bit(13), bit(14)) {
        (false, false, false) => Opc::Nop,
        (true, false, false) => Opc::Call,
        (false, true, false) => Opc::Ret,
        (false, false, true) => Opc::AssertEq,
        _ => return None,
    };
    let ap = match (bit(10), bit(11)) {
        (false, false) => if opc == Opc::Call { ApU::Add2 } else { ApU::Regular },
        (true, false) => if opc == Opc::Call { return None } else { ApU::Add },
        (false, true) => if opc == Opc::Call { return None } else { ApU::Add1 },
        _ => return None,
    };
    let fp = match opc { Opc::Call => FpU::ApPlus2, Opc::Ret => FpU::Dst, _ => FpU::Regular };
    let ext = w >> 63;
    if ext > 3 { return None; }
    Some(Dec {
        off0: off(w), off1: off(w >> 16), off2: off(w >> 32),
        dst: if bit(0) { Reg::FP } else { Reg::AP },
        op0: if bit(1) { Reg::FP } else { Reg::AP },
        op1, res, pc, ap, fp, opc, ext,
    })
}

// ---------- abstract machine ----------
// Memory contents and field operations stay uninterpreted: a value is named by the address(es)
// it is read from. Two steps are equal iff they read/write the same addresses in the same roles
// for the same symbolic (pc, ap, fp).
#[derive(Clone, Copy, PartialEq, Eq, Debug)]
pub enum Val {
    Cell(i64),            // [addr]
    Imm,                  // the word following the instruction
    Add(i64, i64, bool),  // [a] + ([b] | imm)
    Mul(i64, i64, bool),  // [a] * ([b] | imm)
    DD(i64, i32),         // [[addr] + off]
    None,
}
#[derive(Clone, Copy, PartialEq, Eq, Debug)]
pub enum Next { Seq(i64), Abs(Val), Rel(Val), JnzRel(i64, Val, i64) }
#[derive(Clone, Copy, PartialEq, Eq, Debug)]
pub enum ApNext { Same, Plus(i64), PlusRes(Val) }
#[derive(Clone, Copy, PartialEq, Eq, Debug)]
pub enum FpNext { Same, ApPlus2, FromCell(i64) }
#[derive(Clone, Copy, PartialEq, Eq, Debug)]
pub struct Step {
    assert_eq: Option<(i64, Val)>,
    call_writes: Option<(i64, i64, i64)>, // [a] := fp, [b] := pc + size
    blake: Option<(i64, i64, i64, bool)>, // state ptr cell, message ptr cell, byte count cell, finalize
    pc: Next,
    ap: ApNext,
    fp: FpNext,
    qm31: bool,
}
#[derive(Clone, Copy)]
pub struct St { pc: i64, ap: i64, fp: i64 }

fn base(st: St, r: Reg) -> i64 { match r { Reg::AP => st.ap, Reg::FP => st.fp } }

/// The VM's rule for one decoded instruction (state transition of the Cairo machine).
/// `None` = the VM rejects the instruction.
pub fn vm_step(d: Dec, st: St) -> Option<Step> {
    let dst = base(st, d.dst) + d.off0 as i64;
    let op0 = base(st, d.op0) + d.off1 as i64;
    let size: i64 = if d.op1 == Op1::Imm { 2 } else { 1 };
    if d.op1 == Op1::Imm && d.off2 != 1 { return None; }
    let op1v = match d.op1 {
        Op1::Imm => Val::Imm,
        Op1::AP => Val::Cell(st.ap + d.off2 as i64),
        Op1::FP => Val::Cell(st.fp + d.off2 as i64),
        Op1::Op0 => Val::DD(op0, d.off2),
    };
    let is_imm = d.op1 == Op1::Imm;
    let op1addr = match op1v { Val::Cell(a) => a, _ => 0 };
    let res = match d.res {
        ResL::Op1 => op1v,
        ResL::Add => match op1v { Val::DD(..) => return None, _ => Val::Add(op0, op1addr, is_imm) },
        ResL::Mul => match op1v { Val::DD(..) => return None, _ => Val::Mul(op0, op1addr, is_imm) },
        ResL::Unconstrained => Val::None,
    };
    // opcode extensions
    let mut blake = None;
    let mut qm31 = false;
    match d.ext {
        0 => {}
        1 | 2 => {
            let ok = d.opc == Opc::Nop && (d.op1 == Op1::FP || d.op1 == Op1::AP) && d.res == ResL::Op1
                && d.pc == PcU::Regular && (d.ap == ApU::Regular || d.ap == ApU::Add1);
            if !ok { return None; }
            blake = Some((op0, op1addr, dst, d.ext == 2));
        }
        3 => {
            let ok = (d.res == ResL::Add || d.res == ResL::Mul) && d.op1 != Op1::Op0
                && d.pc == PcU::Regular && d.opc == Opc::AssertEq
                && (d.ap == ApU::Regular || d.ap == ApU::Add1);
            if !ok { return None; }
            qm31 = true;
        }
        _ => return None,
    }
    let pc = match d.pc {
        PcU::Regular => Next::Seq(size),
        PcU::Jump => Next::Abs(res),
        PcU::JumpRel => Next::Rel(res),
        PcU::Jnz => Next::JnzRel(dst, op1v, size),
    };
    let ap = match d.ap {
        ApU::Regular => ApNext::Same,
        ApU::Add => ApNext::PlusRes(res),
        ApU::Add1 => ApNext::Plus(1),
        ApU::Add2 => ApNext::Plus(2),
    };
    let (fp, call_writes, assert_eq) = match d.opc {
        Opc::Nop => (FpNext::Same, None, None),
        Opc::AssertEq => (FpNext::Same, None, Some((dst, res))),
        Opc::Call => {
            if !(d.dst == Reg::AP && d.off0 == 0 && d.op0 == Reg::AP && d.off1 == 1) { return None; }
            (FpNext::ApPlus2, Some((dst, op0, size)), None)
        }
        Opc::Ret => {
            if !(d.dst == Reg::FP && d.off0 == -2 && d.op1 == Op1::FP && d.off2 == -1
                && d.res == ResL::Op1 && d.pc == PcU::Jump) { return None; }
            (FpNext::FromCell(dst), None, None)
        }
    };
    Some(Step { assert_eq, call_writes, blake, pc, ap, fp, qm31 })
}

// ---------- oracle 2: the meaning of the CASM text ----------
fn cell(st: St, c: CellRef) -> i64 {
    (match c.register { Register::AP => st.ap, Register::FP => st.fp }) + c.offset as i64
}
fn doi(st: St, x: &DerefOrImmediate) -> Val {
    match x { DerefOrImmediate::Deref(c) => Val::Cell(cell(st, *c)), DerefOrImmediate::Immediate(_) => Val::Imm }
}
fn resop(st: St, r: &ResOperand) -> Val {
    match r {
        ResOperand::Deref(c) => Val::Cell(cell(st, *c)),
        ResOperand::DoubleDeref(c, o) => Val::DD(cell(st, *c), *o as i32),
        ResOperand::Immediate(_) => Val::Imm,
        ResOperand::BinOp(b) => {
            let (a1, imm) = match &b.b {
                DerefOrImmediate::Deref(c) => (cell(st, *c), false),
                DerefOrImmediate::Immediate(_) => (0, true),
            };
            match b.op {
                Operation::Add => Val::Add(cell(st, b.a), a1, imm),
                Operation::Mul => Val::Mul(cell(st, b.a), a1, imm),
            }
        }
    }
}
fn imm_of_doi(x: &DerefOrImmediate) -> Option<&BigInt> {
    match x { DerefOrImmediate::Immediate(v) => Some(&v.value), _ => None }
}
fn imm_of_res(x: &ResOperand) -> Option<&BigInt> {
    match x {
        ResOperand::Immediate(v) => Some(&v.value),
        ResOperand::BinOp(b) => imm_of_doi(&b.b),
        _ => None,
    }
}
/// The immediate the CASM text mentions, if any.
pub fn imm_of(i: &Instruction) -> Option<&BigInt> {
    match &i.body {
        InstructionBody::AddAp(x) => imm_of_res(&x.operand),
        InstructionBody::AssertEq(x) | InstructionBody::QM31AssertEq(x) => imm_of_res(&x.b),
        InstructionBody::Call(x) => imm_of_doi(&x.target),
        InstructionBody::Jump(x) => imm_of_doi(&x.target),
        InstructionBody::Jnz(x) => imm_of_doi(&x.jump_offset),
        InstructionBody::Ret(_) | InstructionBody::Blake2sCompress(_) => None,
    }
}
/// `size` is 1 + [the text mentions an immediate] (never taken from `op_size`).
pub fn ref_step(i: &Instruction, st: St) -> Step {
    let size: i64 = if imm_of(i).is_some() { 2 } else { 1 };
    let inc = if i.inc_ap { ApNext::Plus(1) } else { ApNext::Same };
    let plain = Step {
        assert_eq: None, call_writes: None, blake: None,
        pc: Next::Seq(size), ap: inc, fp: FpNext::Same, qm31: false,
    };
    match &i.body {
        // `a = b`
        InstructionBody::AssertEq(x) => Step { assert_eq: Some((cell(st, x.a), resop(st, &x.b))), ..plain },
        InstructionBody::QM31AssertEq(x) => Step { assert_eq: Some((cell(st, x.a), resop(st, &x.b))), qm31: true, ..plain },
        // `ap += x`
        InstructionBody::AddAp(x) => Step { ap: ApNext::PlusRes(resop(st, &x.operand)), ..plain },
        // `jmp rel/abs x`
        InstructionBody::Jump(x) => Step {
            pc: if x.relative { Next::Rel(doi(st, &x.target)) } else { Next::Abs(doi(st, &x.target)) },
            ..plain
        },
        // `jmp rel x if c != 0`
        InstructionBody::Jnz(x) => Step { pc: Next::JnzRel(cell(st, x.condition), doi(st, &x.jump_offset), size), ..plain },
        // `call rel/abs x`: [ap] := fp, [ap+1] := pc + size, fp := ap + 2, ap += 2
        InstructionBody::Call(x) => Step {
            call_writes: Some((st.ap, st.ap + 1, size)),
            pc: if x.relative { Next::Rel(doi(st, &x.target)) } else { Next::Abs(doi(st, &x.target)) },
            ap: ApNext::Plus(2),
            fp: FpNext::ApPlus2,
            ..plain
        },
        // `ret`: pc := [fp-1], fp := [fp-2]
        InstructionBody::Ret(_) => Step { pc: Next::Abs(Val::Cell(st.fp - 1)), ap: ApNext::Same, fp: FpNext::FromCell(st.fp - 2), ..plain },
        // `blake2s[state, message, byte_count, finalize] => [ap + 0]`, ap++
        InstructionBody::Blake2sCompress(x) => Step {
            blake: Some((cell(st, x.state), cell(st, x.message), cell(st, x.byte_count), x.finalize)),
            ap: ApNext::Plus(1),
            ..plain
        },
    }
}

// ---------- symbolic inputs ----------
fn any_reg() -> Register { if kani::any() { Register::FP } else { Register::AP } }
fn any_cell() -> CellRef { CellRef { register: any_reg(), offset: kani::any() } }
fn any_imm() -> cairo_lang_utils::bigint::BigIntAsHex { BigInt::from(kani::any::<i64>()).into() }
fn any_doi() -> DerefOrImmediate {
    if kani::any() { DerefOrImmediate::Deref(any_cell()) } else { DerefOrImmediate::Immediate(any_imm()) }
}
fn any_op() -> Operation { if kani::any() { Operation::Add } else { Operation::Mul } }
fn any_binop() -> BinOpOperand { BinOpOperand { op: any_op(), a: any_cell(), b: any_doi() } }
fn any_st() -> St {
    let s = St { pc: kani::any(), ap: kani::any(), fp: kani::any() };
    let b = 1i64 << 40;
    kani::assume(s.pc > -b && s.pc < b && s.ap > -b && s.ap < b && s.fp > -b && s.fp < b);
    s
}

/// Obligations C16-1..4 for one instruction.
fn check(ins: Instruction) {
    let st = any_st();
    kani::cover!(true, "reach:check");
    let expect = ref_step(&ins, st);
    let has_imm = imm_of(&ins).is_some();
    // C16-2a: the size the toolchain assumes
    let size = ins.body.op_size();
    assert!(size == if has_imm { 2 } else { 1 }, "C16-2 op_size == 1 + has_immediate");
    // C16-1: assemble / encode do not trip their consistency assertions
    let words = ins.assemble().encode();
    // C16-2b: words occupy exactly that size
    assert!(words.len() == size, "C16-2 words.len() == op_size");
    // (that words[1] *equals* the immediate for every BigInt is the Verus unit `casm_imm`:
    // inspecting a BigInt that went through assemble/encode is out of CBMC's reach, measured.)
    // C16-3: the first word decodes (one-hot flag groups, offsets in range)
    let w = words[0].to_u128();
    assert!(w.is_some(), "C16-3 instruction word is non-negative and fits 128 bits");
    let d = spec_decode(w.unwrap());
    assert!(d.is_some(), "C16-3 flag groups are valid");
    // C16-4: executing the decoded word does what the text says, from any state
    assert!(vm_step(d.unwrap(), st) == Some(expect), "C16-4 vm_step(decode(encode(assemble(i)))) == meaning(i)");
}

fn ins(body: InstructionBody, inc_ap: bool) -> Instruction { Instruction::new(body, inc_ap) }

#[kani::proof]
#[kani::unwind(6)]
fn c16_assert_eq_deref() {
    check(ins(InstructionBody::AssertEq(AssertEqInstruction { a: any_cell(), b: ResOperand::Deref(any_cell()) }), kani::any()));
}
#[kani::proof]
#[kani::unwind(6)]
fn c16_assert_eq_double_deref() {
    check(ins(InstructionBody::AssertEq(AssertEqInstruction { a: any_cell(), b: ResOperand::DoubleDeref(any_cell(), kani::any()) }), kani::any()));
}
#[kani::proof]
#[kani::unwind(6)]
fn c16_assert_eq_imm() {
    check(ins(InstructionBody::AssertEq(AssertEqInstruction { a: any_cell(), b: ResOperand::Immediate(any_imm()) }), kani::any()));
}
#[kani::proof]
#[kani::unwind(6)]
fn c16_assert_eq_binop() {
    check(ins(InstructionBody::AssertEq(AssertEqInstruction { a: any_cell(), b: ResOperand::BinOp(any_binop()) }), kani::any()));
}
#[kani::proof]
#[kani::unwind(6)]
fn c16_add_ap_imm() {
    check(ins(InstructionBody::AddAp(AddApInstruction { operand: ResOperand::Immediate(any_imm()) }), false));
}
#[kani::proof]
#[kani::unwind(6)]
fn c16_add_ap_deref() {
    check(ins(InstructionBody::AddAp(AddApInstruction { operand: ResOperand::Deref(any_cell()) }), false));
}
#[kani::proof]
#[kani::unwind(6)]
fn c16_add_ap_double_deref() {
    check(ins(InstructionBody::AddAp(AddApInstruction { operand: ResOperand::DoubleDeref(any_cell(), kani::any()) }), false));
}
#[kani::proof]
#[kani::unwind(6)]
fn c16_add_ap_binop() {
    check(ins(InstructionBody::AddAp(AddApInstruction { operand: ResOperand::BinOp(any_binop()) }), false));
}
#[kani::proof]
#[kani::unwind(6)]
fn c16_call() {
    check(ins(InstructionBody::Call(CallInstruction { target: any_doi(), relative: kani::any() }), false));
}
#[kani::proof]
#[kani::unwind(6)]
fn c16_jump() {
    check(ins(InstructionBody::Jump(JumpInstruction { target: any_doi(), relative: kani::any() }), kani::any()));
}
#[kani::proof]
#[kani::unwind(6)]
fn c16_jnz() {
    check(ins(InstructionBody::Jnz(JnzInstruction { jump_offset: any_doi(), condition: any_cell() }), kani::any()));
}
#[kani::proof]
#[kani::unwind(6)]
fn c16_ret() {
    check(ins(InstructionBody::Ret(RetInstruction {}), false));
}
// ---------- modular route: `encode` and `assemble` each against its own contract ----------
// Needed for the two opcode-extension shapes (QM31, Blake2s): `encode` ORs `ext << 63` into a
// BigInt, and BigInt `|=`/`<<` on a symbolic word exhaust CBMC (measured: OOM / no result in
// 25 min even for a bare `encode`). So for them the end-to-end statement is split:
//   (a) c16_encode_contract_*: for EVERY InstructionRepr with extension Stone that satisfies
//       encode's own consistency assertions, decode(encode(r)) gives back every field of r;
//   (b) c16_assemble_*: for every instruction of the shape, executing the fields of assemble(i)
//       (before encoding) is the meaning of i;
//   (c) the extension bits of `encode` (word == stone_word + ext * 2^63) are a BOUNDED native
//       check (unit n_c16_ext), never counted as proved.
fn reg_of(r: Register) -> Reg { match r { Register::AP => Reg::AP, Register::FP => Reg::FP } }
/// Reads the fields of the low-level representation as a decoded instruction.
pub fn dec_of_repr(r: &InstructionRepr) -> Dec {
    Dec {
        off0: r.off0 as i32, off1: r.off1 as i32, off2: r.off2 as i32,
        dst: reg_of(r.dst_register), op0: reg_of(r.op0_register),
        op1: match r.op1_addr { Op1Addr::Imm => Op1::Imm, Op1Addr::AP => Op1::AP, Op1Addr::FP => Op1::FP, Op1Addr::Op0 => Op1::Op0 },
        res: match r.res { Res::Op1 => ResL::Op1, Res::Add => ResL::Add, Res::Mul => ResL::Mul, Res::Unconstrained => ResL::Unconstrained },
        pc: match r.pc_update { PcUpdate::Regular => PcU::Regular, PcUpdate::Jump => PcU::Jump, PcUpdate::JumpRel => PcU::JumpRel, PcUpdate::Jnz => PcU::Jnz },
        ap: match r.ap_update { ApUpdate::Regular => ApU::Regular, ApUpdate::Add => ApU::Add, ApUpdate::Add1 => ApU::Add1, ApUpdate::Add2 => ApU::Add2 },
        fp: match r.fp_update { FpUpdate::Regular => FpU::Regular, FpUpdate::ApPlus2 => FpU::ApPlus2, FpUpdate::Dst => FpU::Dst },
        opc: match r.opcode { Opcode::Nop => Opc::Nop, Opcode::AssertEq => Opc::AssertEq, Opcode::Call => Opc::Call, Opcode::Ret => Opc::Ret },
        ext: match r.opcode_extension { OpcodeExtension::Stone => 0, OpcodeExtension::Blake2s => 1, OpcodeExtension::Blake2sFinalize => 2, OpcodeExtension::QM31 => 3 },
    }
}
fn any_repr_stone(with_imm: bool) -> InstructionRepr {
    let op1_addr = match kani::any::<u8>() % 4 { 0 => Op1Addr::Imm, 1 => Op1Addr::AP, 2 => Op1Addr::FP, _ => Op1Addr::Op0 };
    let res = match kani::any::<u8>() % 4 { 0 => Res::Op1, 1 => Res::Add, 2 => Res::Mul, _ => Res::Unconstrained };
    let pc_update = match kani::any::<u8>() % 4 { 0 => PcUpdate::Regular, 1 => PcUpdate::Jump, 2 => PcUpdate::JumpRel, _ => PcUpdate::Jnz };
    let ap_update = match kani::any::<u8>() % 4 { 0 => ApUpdate::Regular, 1 => ApUpdate::Add, 2 => ApUpdate::Add1, _ => ApUpdate::Add2 };
    let fp_update = match kani::any::<u8>() % 3 { 0 => FpUpdate::Regular, 1 => FpUpdate::ApPlus2, _ => FpUpdate::Dst };
    let opcode = match kani::any::<u8>() % 4 { 0 => Opcode::Nop, 1 => Opcode::AssertEq, 2 => Opcode::Call, _ => Opcode::Ret };
    InstructionRepr {
        off0: kani::any(), off1: kani::any(), off2: kani::any(),
        imm: if with_imm { Some(BigInt::from(7)) } else { None },
        dst_register: any_reg(), op0_register: any_reg(),
        op1_addr, res, pc_update, ap_update, fp_update, opcode,
        opcode_extension: OpcodeExtension::Stone,
    }
}
/// encode's four `assert_eq!`s, as a predicate (its precondition).
fn encode_pre(r: &InstructionRepr) -> bool {
    (r.imm.is_some() == (r.op1_addr == Op1Addr::Imm))
        && ((r.res == Res::Unconstrained) == (r.pc_update == PcUpdate::Jnz))
        && ((r.ap_update == ApUpdate::Add2) == (r.opcode == Opcode::Call))
        && r.fp_update == match r.opcode {
            Opcode::Nop => FpUpdate::Regular, Opcode::Call => FpUpdate::ApPlus2,
            Opcode::Ret => FpUpdate::Dst, Opcode::AssertEq => FpUpdate::Regular,
        }
}
fn check_encode_contract(with_imm: bool) {
    let r = any_repr_stone(with_imm);
    kani::assume(encode_pre(&r));
    kani::cover!(true, "reach:encode_pre");
    let want = dec_of_repr(&r);
    let words = r.encode();
    assert!(words.len() == if with_imm { 2 } else { 1 }, "C16-2 encode: one word, plus one iff imm");
    let w = words[0].to_u128();
    assert!(w.is_some(), "C16-3 encode: word fits");
    assert!(spec_decode(w.unwrap()) == Some(want), "C16-3 encode: decode(encode(r)) == r, every field, all offsets");
}
#[kani::proof]
#[kani::unwind(6)]
fn c16_encode_contract_noimm() { check_encode_contract(false); }
#[kani::proof]
#[kani::unwind(6)]
fn c16_encode_contract_imm() { check_encode_contract(true); }
// encode's assertions are its exact precondition: a repr violating them panics.
#[kani::proof]
#[kani::unwind(6)]
#[kani::should_panic]
fn c16_pre_encode_inconsistent_panics() {
    let r = any_repr_stone(false);
    kani::assume(!encode_pre(&r));
    let _ = r.encode();
}

/// (b) executing the fields of assemble(i) is the meaning of i.
fn check_assemble(ins: Instruction, ext: u128) {
    let st = any_st();
    kani::cover!(true, "reach:check_assemble");
    let expect = ref_step(&ins, st);
    let r = ins.assemble();
    assert!(encode_pre(&r), "C16-1 assemble output satisfies encode's consistency assertions");
    assert!(r.imm.is_some() == imm_of(&ins).is_some(), "C16-2 imm present iff the text has an immediate");
    let d = dec_of_repr(&r);
    assert!(d.ext == ext, "C16-3 opcode extension");
    assert!(vm_step(d, st) == Some(expect), "C16-4 vm_step(fields of assemble(i)) == meaning(i)");
}
// QM31: the VM accepts the extension only on `a = b (+|*) c`, which is the only form the
// builder emits (CasmBuilder::assert_vars_eq with AssertEqKind::QM31 on a BinOp expression).
#[kani::proof]
#[kani::unwind(6)]
fn c16_assemble_qm31_assert_eq_binop() {
    check_assemble(ins(InstructionBody::QM31AssertEq(AssertEqInstruction { a: any_cell(), b: ResOperand::BinOp(any_binop()) }), kani::any()), 3);
}
#[kani::proof]
#[kani::unwind(6)]
fn c16_assemble_blake2s() {
    let finalize: bool = kani::any();
    check_assemble(
        ins(
            InstructionBody::Blake2sCompress(Blake2sCompressInstruction {
                state: any_cell(), byte_count: any_cell(), message: any_cell(), finalize,
            }),
            true,
        ),
        if finalize { 2 } else { 1 },
    );
}
// the same assemble-level contract for every Stone shape (so that (a)+(b) alone also give the
// end-to-end statement, independently of the end-to-end harnesses above)
#[kani::proof]
#[kani::unwind(6)]
fn c16_assemble_assert_eq_any() {
    let b = match kani::any::<u8>() % 4 {
        0 => ResOperand::Deref(any_cell()),
        1 => ResOperand::DoubleDeref(any_cell(), kani::any()),
        2 => ResOperand::Immediate(any_imm()),
        _ => ResOperand::BinOp(any_binop()),
    };
    check_assemble(ins(InstructionBody::AssertEq(AssertEqInstruction { a: any_cell(), b }), kani::any()), 0);
}
#[kani::proof]
#[kani::unwind(6)]
fn c16_assemble_add_ap_any() {
    let operand = match kani::any::<u8>() % 4 {
        0 => ResOperand::Deref(any_cell()),
        1 => ResOperand::DoubleDeref(any_cell(), kani::any()),
        2 => ResOperand::Immediate(any_imm()),
        _ => ResOperand::BinOp(any_binop()),
    };
    check_assemble(ins(InstructionBody::AddAp(AddApInstruction { operand }), false), 0);
}
#[kani::proof]
#[kani::unwind(6)]
fn c16_assemble_control_flow_any() {
    let body = match kani::any::<u8>() % 4 {
        0 => InstructionBody::Call(CallInstruction { target: any_doi(), relative: kani::any() }),
        1 => InstructionBody::Jump(JumpInstruction { target: any_doi(), relative: kani::any() }),
        2 => InstructionBody::Jnz(JnzInstruction { jump_offset: any_doi(), condition: any_cell() }),
        _ => InstructionBody::Ret(RetInstruction {}),
    };
    let inc = match &body { InstructionBody::Call(_) | InstructionBody::Ret(_) => false, _ => kani::any() };
    check_assemble(ins(body, inc), 0);
}

// The four `assert!`s of `assemble` are exactly the stated preconditions: the excluded
// combinations panic (so the harnesses above do not silently narrow the claim).
#[kani::proof]
#[kani::unwind(6)]
#[kani::should_panic]
fn c16_pre_add_ap_inc_ap_panics() {
    let _ = ins(InstructionBody::AddAp(AddApInstruction { operand: ResOperand::Deref(any_cell()) }), true).assemble();
}
#[kani::proof]
#[kani::unwind(6)]
#[kani::should_panic]
fn c16_pre_call_inc_ap_panics() {
    let _ = ins(InstructionBody::Call(CallInstruction { target: DerefOrImmediate::Deref(any_cell()), relative: kani::any() }), true).assemble();
}
#[kani::proof]
#[kani::unwind(6)]
#[kani::should_panic]
fn c16_pre_ret_inc_ap_panics() {
    let _ = ins(InstructionBody::Ret(RetInstruction {}), true).assemble();
}
#[kani::proof]
#[kani::unwind(6)]
#[kani::should_panic]
fn c16_pre_blake_no_inc_ap_panics() {
    let _ = ins(
        InstructionBody::Blake2sCompress(Blake2sCompressInstruction {
            state: any_cell(), byte_count: any_cell(), message: any_cell(), finalize: kani::any(),
        }),
        false,
    ).assemble();
}
