// K unit (C16): `Instruction::assemble`, `*::to_res_description`, `InstructionRepr::encode`,
// every `op_size`. Injected as a child module of crates/cairo-lang-casm/src/assembler.rs.
//
// Oracle: `spec_decode` (instruction word layout) and `vm_step` (state transition) are written
// from the Cairo machine definition, `ref_step` from the meaning of the CASM text. Neither is
// derived from assembler.rs / encoder.rs. All functions under test are loop-free and every input
// is fully symbolic (both registers, all 2^16 offsets, inc_ap, symbolic machine state), so a
// SUCCESSFUL harness is a complete proof for its instruction shape, not a bounded check.
#![allow(dead_code, unused_imports)]
use num_bigint::BigInt;
use num_traits::ToPrimitive;

use super::*;
use crate::instructions::*;
use crate::operand::*;

mod oracle_imports {
    pub use crate::assembler::*;
    pub use crate::instructions::*;
    pub use crate::operand::*;
}
#[path = "c16_oracle.rs"]
mod oracle;
use oracle::*;

// ---------- symbolic inputs ----------
fn any_reg() -> Register { if kani::any() { Register::FP } else { Register::AP } }
fn any_cell() -> CellRef { CellRef { register: any_reg(), offset: kani::any() } }
fn any_imm() -> cairo_lang_utils::bigint::BigIntAsHex { BigInt::from(kani::any::<i64>()).into() }
fn any_doi() -> DerefOrImmediate {
    if kani::any() { DerefOrImmediate::Deref(any_cell()) } else { DerefOrImmediate::Immediate(any_imm()) }
}
fn any_op() -> Operation { if kani::any() { Operation::Add } else { Operation::Mul } }
fn any_binop() -> BinOpOperand { BinOpOperand { op: any_op(), a: any_cell(), b: any_doi() } }
fn any_st() -> St {
    let s = St { pc: kani::any(), ap: kani::any(), fp: kani::any() };
    let b = 1i64 << 40;
    kani::assume(s.pc > -b && s.pc < b && s.ap > -b && s.ap < b && s.fp > -b && s.fp < b);
    s
}

/// Obligations C16-1..4 for one instruction.
fn check(ins: Instruction) {
    let st = any_st();
    kani::cover!(true, "reach:check");
    let expect = ref_step(&ins, st);
    let has_imm = imm_of(&ins).is_some();
    // C16-2a: the size the toolchain assumes
    let size = ins.body.op_size();
    assert!(size == if has_imm { 2 } else { 1 }, "C16-2 op_size == 1 + has_immediate");
    // C16-1: assemble / encode do not trip their consistency assertions
    let words = ins.assemble().encode();
    // C16-2b: words occupy exactly that size
    assert!(words.len() == size, "C16-2 words.len() == op_size");
    // (that words[1] *equals* the immediate for every BigInt is the Verus unit `casm_imm`:
    // inspecting a BigInt that went through assemble/encode is out of CBMC's reach, measured.)
    // C16-3: the first word decodes (one-hot flag groups, offsets in range)
    let w = words[0].to_u128();
    assert!(w.is_some(), "C16-3 instruction word is non-negative and fits 128 bits");
    let d = spec_decode(w.unwrap());
    assert!(d.is_some(), "C16-3 flag groups are valid");
    // C16-4: executing the decoded word does what the text says, from any state
    assert!(vm_step(d.unwrap(), st) == Some(expect), "C16-4 vm_step(decode(encode(assemble(i)))) == meaning(i)");
}

fn ins(body: InstructionBody, inc_ap: bool) -> Instruction { Instruction::new(body, inc_ap) }

#[kani::proof]
#[kani::unwind(6)]
fn c16_assert_eq_deref() {
    check(ins(InstructionBody::AssertEq(AssertEqInstruction { a: any_cell(), b: ResOperand::Deref(any_cell()) }), kani::any()));
}
#[kani::proof]
#[kani::unwind(6)]
fn c16_assert_eq_double_deref() {
    check(ins(InstructionBody::AssertEq(AssertEqInstruction { a: any_cell(), b: ResOperand::DoubleDeref(any_cell(), kani::any()) }), kani::any()));
}
#[kani::proof]
#[kani::unwind(6)]
fn c16_assert_eq_imm() {
    check(ins(InstructionBody::AssertEq(AssertEqInstruction { a: any_cell(), b: ResOperand::Immediate(any_imm()) }), kani::any()));
}
#[kani::proof]
#[kani::unwind(6)]
fn c16_assert_eq_binop() {
    check(ins(InstructionBody::AssertEq(AssertEqInstruction { a: any_cell(), b: ResOperand::BinOp(any_binop()) }), kani::any()));
}
#[kani::proof]
#[kani::unwind(6)]
fn c16_add_ap_imm() {
    check(ins(InstructionBody::AddAp(AddApInstruction { operand: ResOperand::Immediate(any_imm()) }), false));
}
#[kani::proof]
#[kani::unwind(6)]
fn c16_add_ap_deref() {
    check(ins(InstructionBody::AddAp(AddApInstruction { operand: ResOperand::Deref(any_cell()) }), false));
}
#[kani::proof]
#[kani::unwind(6)]
fn c16_add_ap_double_deref() {
    check(ins(InstructionBody::AddAp(AddApInstruction { operand: ResOperand::DoubleDeref(any_cell(), kani::any()) }), false));
}
#[kani::proof]
#[kani::unwind(6)]
fn c16_add_ap_binop() {
    check(ins(InstructionBody::AddAp(AddApInstruction { operand: ResOperand::BinOp(any_binop()) }), false));
}
#[kani::proof]
#[kani::unwind(6)]
fn c16_call() {
    check(ins(InstructionBody::Call(CallInstruction { target: any_doi(), relative: kani::any() }), false));
}
#[kani::proof]
#[kani::unwind(6)]
fn c16_jump() {
    check(ins(InstructionBody::Jump(JumpInstruction { target: any_doi(), relative: kani::any() }), kani::any()));
}
#[kani::proof]
#[kani::unwind(6)]
fn c16_jnz() {
    check(ins(InstructionBody::Jnz(JnzInstruction { jump_offset: any_doi(), condition: any_cell() }), kani::any()));
}
#[kani::proof]
#[kani::unwind(6)]
fn c16_ret() {
    check(ins(InstructionBody::Ret(RetInstruction {}), false));
}
// ---------- modular route: `encode` and `assemble` each against its own contract ----------
// Needed for the two opcode-extension shapes (QM31, Blake2s): `encode` ORs `ext << 63` into a
// BigInt, and BigInt `|=`/`<<` on a symbolic word exhaust CBMC (measured: OOM / no result in
// 25 min even for a bare `encode`). So for them the end-to-end statement is split:
//   (a) c16_encode_contract_*: for EVERY InstructionRepr with extension Stone that satisfies
//       encode's own consistency assertions, decode(encode(r)) gives back every field of r;
//   (b) c16_assemble_*: for every instruction of the shape, executing the fields of assemble(i)
//       (before encoding) is the meaning of i;
//   (c) the extension bits of `encode` (word == stone_word + ext * 2^63) are a BOUNDED native
//       check (unit n_c16_shapes), never counted as proved.
fn any_repr_stone(with_imm: bool) -> InstructionRepr {
    let op1_addr = match kani::any::<u8>() % 4 { 0 => Op1Addr::Imm, 1 => Op1Addr::AP, 2 => Op1Addr::FP, _ => Op1Addr::Op0 };
    let res = match kani::any::<u8>() % 4 { 0 => Res::Op1, 1 => Res::Add, 2 => Res::Mul, _ => Res::Unconstrained };
    let pc_update = match kani::any::<u8>() % 4 { 0 => PcUpdate::Regular, 1 => PcUpdate::Jump, 2 => PcUpdate::JumpRel, _ => PcUpdate::Jnz };
    let ap_update = match kani::any::<u8>() % 4 { 0 => ApUpdate::Regular, 1 => ApUpdate::Add, 2 => ApUpdate::Add1, _ => ApUpdate::Add2 };
    let fp_update = match kani::any::<u8>() % 3 { 0 => FpUpdate::Regular, 1 => FpUpdate::ApPlus2, _ => FpUpdate::Dst };
    let opcode = match kani::any::<u8>() % 4 { 0 => Opcode::Nop, 1 => Opcode::AssertEq, 2 => Opcode::Call, _ => Opcode::Ret };
    InstructionRepr {
        off0: kani::any(), off1: kani::any(), off2: kani::any(),
        imm: if with_imm { Some(BigInt::from(7)) } else { None },
        dst_register: any_reg(), op0_register: any_reg(),
        op1_addr, res, pc_update, ap_update, fp_update, opcode,
        opcode_extension: OpcodeExtension::Stone,
    }
}
fn check_encode_contract(with_imm: bool) {
    let r = any_repr_stone(with_imm);
    kani::assume(encode_pre(&r));
    kani::cover!(true, "reach:encode_pre");
    let want = dec_of_repr(&r);
    let words = r.encode();
    assert!(words.len() == if with_imm { 2 } else { 1 }, "C16-2 encode: one word, plus one iff imm");
    if with_imm {
        // the immediate (a fresh concrete 7 here; `encode` never inspects it) is moved unchanged
        assert!(words[1].sign() == num_bigint::Sign::Plus && words[1].magnitude().to_u64() == Some(7), "C16-2 encode: immediate word is the immediate");
    }
    let w = words[0].to_u128();
    assert!(w.is_some(), "C16-3 encode: word fits");
    assert!(spec_decode(w.unwrap()) == Some(want), "C16-3 encode: decode(encode(r)) == r, every field, all offsets");
}
#[kani::proof]
#[kani::unwind(6)]
fn c16_encode_contract_noimm() { check_encode_contract(false); }
#[kani::proof]
#[kani::unwind(6)]
fn c16_encode_contract_imm() { check_encode_contract(true); }
// encode's assertions are its exact precondition: a repr violating them panics.
#[kani::proof]
#[kani::unwind(6)]
#[kani::should_panic]
fn c16_pre_encode_inconsistent_panics() {
    let r = any_repr_stone(false);
    kani::assume(!encode_pre(&r));
    let _ = r.encode();
}

/// (b) executing the fields of assemble(i) is the meaning of i.
fn check_assemble(ins: Instruction, ext: u128) {
    let st = any_st();
    kani::cover!(true, "reach:check_assemble");
    let expect = ref_step(&ins, st);
    let r = ins.assemble();
    assert!(encode_pre(&r), "C16-1 assemble output satisfies encode's consistency assertions");
    assert!(r.imm.is_some() == imm_of(&ins).is_some(), "C16-2 imm present iff the text has an immediate");
    // the size the toolchain assumes when laying out code == the number of words encode emits for
    // this repr (1, plus 1 iff it carries an immediate: c16_encode_contract_*)
    assert!(ins.body.op_size() == if r.imm.is_some() { 2 } else { 1 }, "C16-2 op_size == number of encoded words (1 + has_immediate)");
    let d = dec_of_repr(&r);
    assert!(d.ext == ext, "C16-3 opcode extension");
    assert!(vm_step(d, st) == Some(expect), "C16-4 vm_step(fields of assemble(i)) == meaning(i)");
}
// QM31: the VM accepts the extension only on `a = b (+|*) c`, which is the only form the
// builder emits (CasmBuilder::assert_vars_eq with AssertEqKind::QM31 on a BinOp expression).
#[kani::proof]
#[kani::unwind(6)]
fn c16_assemble_qm31_assert_eq_binop() {
    check_assemble(ins(InstructionBody::QM31AssertEq(AssertEqInstruction { a: any_cell(), b: ResOperand::BinOp(any_binop()) }), kani::any()), 3);
}
#[kani::proof]
#[kani::unwind(6)]
fn c16_assemble_blake2s() {
    let finalize: bool = kani::any();
    check_assemble(
        ins(
            InstructionBody::Blake2sCompress(Blake2sCompressInstruction {
                state: any_cell(), byte_count: any_cell(), message: any_cell(), finalize,
            }),
            true,
        ),
        if finalize { 2 } else { 1 },
    );
}
// the same assemble-level contract for every Stone shape (so that (a)+(b) alone also give the
// end-to-end statement, independently of the end-to-end harnesses above)
#[kani::proof]
#[kani::unwind(6)]
fn c16_assemble_assert_eq_any() {
    let b = match kani::any::<u8>() % 4 {
        0 => ResOperand::Deref(any_cell()),
        1 => ResOperand::DoubleDeref(any_cell(), kani::any()),
        2 => ResOperand::Immediate(any_imm()),
        _ => ResOperand::BinOp(any_binop()),
    };
    check_assemble(ins(InstructionBody::AssertEq(AssertEqInstruction { a: any_cell(), b }), kani::any()), 0);
}
#[kani::proof]
#[kani::unwind(6)]
fn c16_assemble_add_ap_any() {
    let operand = match kani::any::<u8>() % 4 {
        0 => ResOperand::Deref(any_cell()),
        1 => ResOperand::DoubleDeref(any_cell(), kani::any()),
        2 => ResOperand::Immediate(any_imm()),
        _ => ResOperand::BinOp(any_binop()),
    };
    check_assemble(ins(InstructionBody::AddAp(AddApInstruction { operand }), false), 0);
}
#[kani::proof]
#[kani::unwind(6)]
fn c16_assemble_control_flow_any() {
    let body = match kani::any::<u8>() % 4 {
        0 => InstructionBody::Call(CallInstruction { target: any_doi(), relative: kani::any() }),
        1 => InstructionBody::Jump(JumpInstruction { target: any_doi(), relative: kani::any() }),
        2 => InstructionBody::Jnz(JnzInstruction { jump_offset: any_doi(), condition: any_cell() }),
        _ => InstructionBody::Ret(RetInstruction {}),
    };
    let inc = match &body { InstructionBody::Call(_) | InstructionBody::Ret(_) => false, _ => kani::any() };
    check_assemble(ins(body, inc), 0);
}

// The four `assert!`s of `assemble` are exactly the stated preconditions: the excluded
// combinations panic (so the harnesses above do not silently narrow the claim).
#[kani::proof]
#[kani::unwind(6)]
#[kani::should_panic]
fn c16_pre_add_ap_inc_ap_panics() {
    let _ = ins(InstructionBody::AddAp(AddApInstruction { operand: ResOperand::Deref(any_cell()) }), true).assemble();
}
#[kani::proof]
#[kani::unwind(6)]
#[kani::should_panic]
fn c16_pre_call_inc_ap_panics() {
    let _ = ins(InstructionBody::Call(CallInstruction { target: DerefOrImmediate::Deref(any_cell()), relative: kani::any() }), true).assemble();
}
#[kani::proof]
#[kani::unwind(6)]
#[kani::should_panic]
fn c16_pre_ret_inc_ap_panics() {
    let _ = ins(InstructionBody::Ret(RetInstruction {}), true).assemble();
}
#[kani::proof]
#[kani::unwind(6)]
#[kani::should_panic]
fn c16_pre_blake_no_inc_ap_panics() {
    let _ = ins(
        InstructionBody::Blake2sCompress(Blake2sCompressInstruction {
            state: any_cell(), byte_count: any_cell(), message: any_cell(), finalize: kani::any(),
        }),
        false,
    ).assemble();
}
