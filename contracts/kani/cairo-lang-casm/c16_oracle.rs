// Oracle for C16, shared by the Kani harness module (c16_encode.rs) and the native bounded
// check (n_c16_shapes.rs). Written from the Cairo machine definition (instruction word layout and
// state transition) and from the meaning of the CASM text; nothing here is derived from
// assembler.rs / encoder.rs.
#![allow(dead_code, unused_imports)]
use num_bigint::BigInt;

// the including module provides `oracle_imports` (casm's assembler/instructions/operand items),
// so that the same oracle text can be used from inside cairo-lang-casm and from other crates
use super::oracle_imports::*;

// ---------- oracle 1: decoder written from the instruction layout ----------
#[derive(Clone, Copy, PartialEq, Eq, Debug)]
pub enum Reg { AP, FP }
#[derive(Clone, Copy, PartialEq, Eq, Debug)]
pub enum Op1 { Op0, Imm, FP, AP }
#[derive(Clone, Copy, PartialEq, Eq, Debug)]
pub enum ResL { Op1, Add, Mul, Unconstrained }
#[derive(Clone, Copy, PartialEq, Eq, Debug)]
pub enum PcU { Regular, Jump, JumpRel, Jnz }
#[derive(Clone, Copy, PartialEq, Eq, Debug)]
pub enum ApU { Regular, Add, Add1, Add2 }
#[derive(Clone, Copy, PartialEq, Eq, Debug)]
pub enum FpU { Regular, ApPlus2, Dst }
#[derive(Clone, Copy, PartialEq, Eq, Debug)]
pub enum Opc { Nop, AssertEq, Call, Ret }
#[derive(Clone, Copy, PartialEq, Eq, Debug)]
pub struct Dec {
    pub off0: i32, pub off1: i32, pub off2: i32,
    pub dst: Reg, pub op0: Reg, pub op1: Op1, pub res: ResL, pub pc: PcU, pub ap: ApU, pub fp: FpU, pub opc: Opc,
    pub ext: u128,
}

/// bits 0..47: three 16-bit offsets biased by 2^15; bits 48..62: flags
/// [dst_reg, op0_reg, op1_src(3), res_logic(2), pc_update(3), ap_update(2), opcode(3)];
/// bits 63..: opcode extension. Each multi-bit group is one-hot or zero.
pub fn spec_decode(w: u128) -> Option<Dec> {
    let off = |x: u128| -> i32 { (x & 0xffff) as i32 - 0x8000 };
    let f = (w >> 48) & 0x7fff;
    let bit = |i: u32| -> bool { (f >> i) & 1 == 1 };
    let op1 = match (bit(2), bit(3), bit(4)) {
        (false, false, false) => Op1::Op0,
        (true, false, false) => Op1::Imm,
        (false, true, false) => Op1::FP,
        (false, false, true) => Op1::AP,
        _ => return None,
    };
    let pc = match (bit(7), bit(8), bit(9)) {
        (false, false, false) => PcU::Regular,
        (true, false, false) => PcU::Jump,
        (false, true, false) => PcU::JumpRel,
        (false, false, true) => PcU::Jnz,
        _ => return None,
    };
    let res = match (bit(5), bit(6)) {
        (false, false) => if pc == PcU::Jnz { ResL::Unconstrained } else { ResL::Op1 },
        (true, false) => if pc == PcU::Jnz { return None } else { ResL::Add },
        (false, true) => if pc == PcU::Jnz { return None } else { ResL::Mul },
        _ => return None,
    };
    let opc = match (bit(12), bit(13), bit(14)) {
        (false, false, false) => Opc::Nop,
        (true, false, false) => Opc::Call,
        (false, true, false) => Opc::Ret,
        (false, false, true) => Opc::AssertEq,
        _ => return None,
    };
    let ap = match (bit(10), bit(11)) {
        (false, false) => if opc == Opc::Call { ApU::Add2 } else { ApU::Regular },
        (true, false) => if opc == Opc::Call { return None } else { ApU::Add },
        (false, true) => if opc == Opc::Call { return None } else { ApU::Add1 },
        _ => return None,
    };
    let fp = match opc { Opc::Call => FpU::ApPlus2, Opc::Ret => FpU::Dst, _ => FpU::Regular };
    let ext = w >> 63;
    if ext > 3 { return None; }
    Some(Dec {
        off0: off(w), off1: off(w >> 16), off2: off(w >> 32),
        dst: if bit(0) { Reg::FP } else { Reg::AP },
        op0: if bit(1) { Reg::FP } else { Reg::AP },
        op1, res, pc, ap, fp, opc, ext,
    })
}

// ---------- abstract machine ----------
// Memory contents and field operations stay uninterpreted: a value is named by the address(es)
// it is read from. Two steps are equal iff they read/write the same addresses in the same roles
// for the same symbolic (pc, ap, fp).
#[derive(Clone, Copy, PartialEq, Eq, Debug)]
pub enum Val {
    Cell(i64),            // [addr]
    Imm,                  // the word following the instruction
    Add(i64, i64, bool),  // [a] + ([b] | imm)
    Mul(i64, i64, bool),  // [a] * ([b] | imm)
    DD(i64, i32),         // [[addr] + off]
    None,
}
#[derive(Clone, Copy, PartialEq, Eq, Debug)]
pub enum Next { Seq(i64), Abs(Val), Rel(Val), JnzRel(i64, Val, i64) }
#[derive(Clone, Copy, PartialEq, Eq, Debug)]
pub enum ApNext { Same, Plus(i64), PlusRes(Val) }
#[derive(Clone, Copy, PartialEq, Eq, Debug)]
pub enum FpNext { Same, ApPlus2, FromCell(i64) }
#[derive(Clone, Copy, PartialEq, Eq, Debug)]
pub struct Step {
    pub assert_eq: Option<(i64, Val)>,
    pub call_writes: Option<(i64, i64, i64)>, // [a] := fp, [b] := pc + size
    pub blake: Option<(i64, i64, i64, bool)>, // state ptr cell, message ptr cell, byte count cell, finalize
    pub pc: Next,
    pub ap: ApNext,
    pub fp: FpNext,
    pub qm31: bool,
}
#[derive(Clone, Copy)]
pub struct St { pub pc: i64, pub ap: i64, pub fp: i64 }

pub fn base(st: St, r: Reg) -> i64 { match r { Reg::AP => st.ap, Reg::FP => st.fp } }

/// The VM's rule for one decoded instruction (state transition of the Cairo machine).
/// `None` = the VM rejects the instruction.
pub fn vm_step(d: Dec, st: St) -> Option<Step> {
    let dst = base(st, d.dst) + d.off0 as i64;
    let op0 = base(st, d.op0) + d.off1 as i64;
    let size: i64 = if d.op1 == Op1::Imm { 2 } else { 1 };
    if d.op1 == Op1::Imm && d.off2 != 1 { return None; }
    let op1v = match d.op1 {
        Op1::Imm => Val::Imm,
        Op1::AP => Val::Cell(st.ap + d.off2 as i64),
        Op1::FP => Val::Cell(st.fp + d.off2 as i64),
        Op1::Op0 => Val::DD(op0, d.off2),
    };
    let is_imm = d.op1 == Op1::Imm;
    let op1addr = match op1v { Val::Cell(a) => a, _ => 0 };
    let res = match d.res {
        ResL::Op1 => op1v,
        ResL::Add => match op1v { Val::DD(..) => return None, _ => Val::Add(op0, op1addr, is_imm) },
        ResL::Mul => match op1v { Val::DD(..) => return None, _ => Val::Mul(op0, op1addr, is_imm) },
        ResL::Unconstrained => Val::None,
    };
    // The VM reads dst and op0 on every step and fails on an unknown cell. Where the instruction
    // does not use them, the word must therefore name a cell that is known in every frame from
    // any state: [fp - 1] (the return pc) - otherwise execution fails with an unknown value.
    let op0_used = d.op1 == Op1::Op0 || d.res == ResL::Add || d.res == ResL::Mul || d.opc == Opc::Call || d.ext == 1 || d.ext == 2;
    if !op0_used && !(d.op0 == Reg::FP && d.off1 == -1) { return None; }
    let dst_used = d.opc != Opc::Nop || d.pc == PcU::Jnz || d.ext == 1 || d.ext == 2;
    if !dst_used && !(d.dst == Reg::FP && d.off0 == -1) { return None; }
    // opcode extensions
    let mut blake = None;
    let mut qm31 = false;
    match d.ext {
        0 => {}
        1 | 2 => {
            let ok = d.opc == Opc::Nop && (d.op1 == Op1::FP || d.op1 == Op1::AP) && d.res == ResL::Op1
                && d.pc == PcU::Regular && (d.ap == ApU::Regular || d.ap == ApU::Add1);
            if !ok { return None; }
            blake = Some((op0, op1addr, dst, d.ext == 2));
        }
        3 => {
            let ok = (d.res == ResL::Add || d.res == ResL::Mul) && d.op1 != Op1::Op0
                && d.pc == PcU::Regular && d.opc == Opc::AssertEq
                && (d.ap == ApU::Regular || d.ap == ApU::Add1);
            if !ok { return None; }
            qm31 = true;
        }
        _ => return None,
    }
    let pc = match d.pc {
        PcU::Regular => Next::Seq(size),
        PcU::Jump => Next::Abs(res),
        PcU::JumpRel => Next::Rel(res),
        PcU::Jnz => Next::JnzRel(dst, op1v, size),
    };
    let ap = match d.ap {
        ApU::Regular => ApNext::Same,
        ApU::Add => ApNext::PlusRes(res),
        ApU::Add1 => ApNext::Plus(1),
        ApU::Add2 => ApNext::Plus(2),
    };
    let (fp, call_writes, assert_eq) = match d.opc {
        Opc::Nop => (FpNext::Same, None, None),
        Opc::AssertEq => (FpNext::Same, None, Some((dst, res))),
        Opc::Call => {
            if !(d.dst == Reg::AP && d.off0 == 0 && d.op0 == Reg::AP && d.off1 == 1) { return None; }
            (FpNext::ApPlus2, Some((dst, op0, size)), None)
        }
        Opc::Ret => {
            if !(d.dst == Reg::FP && d.off0 == -2 && d.op1 == Op1::FP && d.off2 == -1
                && d.res == ResL::Op1 && d.pc == PcU::Jump) { return None; }
            (FpNext::FromCell(dst), None, None)
        }
    };
    Some(Step { assert_eq, call_writes, blake, pc, ap, fp, qm31 })
}

// ---------- oracle 2: the meaning of the CASM text ----------
pub fn cell(st: St, c: CellRef) -> i64 {
    (match c.register { Register::AP => st.ap, Register::FP => st.fp }) + c.offset as i64
}
pub fn doi(st: St, x: &DerefOrImmediate) -> Val {
    match x { DerefOrImmediate::Deref(c) => Val::Cell(cell(st, *c)), DerefOrImmediate::Immediate(_) => Val::Imm }
}
pub fn resop(st: St, r: &ResOperand) -> Val {
    match r {
        ResOperand::Deref(c) => Val::Cell(cell(st, *c)),
        ResOperand::DoubleDeref(c, o) => Val::DD(cell(st, *c), *o as i32),
        ResOperand::Immediate(_) => Val::Imm,
        ResOperand::BinOp(b) => {
            let (a1, imm) = match &b.b {
                DerefOrImmediate::Deref(c) => (cell(st, *c), false),
                DerefOrImmediate::Immediate(_) => (0, true),
            };
            match b.op {
                Operation::Add => Val::Add(cell(st, b.a), a1, imm),
                Operation::Mul => Val::Mul(cell(st, b.a), a1, imm),
            }
        }
    }
}
pub fn imm_of_doi(x: &DerefOrImmediate) -> Option<&BigInt> {
    match x { DerefOrImmediate::Immediate(v) => Some(&v.value), _ => None }
}
pub fn imm_of_res(x: &ResOperand) -> Option<&BigInt> {
    match x {
        ResOperand::Immediate(v) => Some(&v.value),
        ResOperand::BinOp(b) => imm_of_doi(&b.b),
        _ => None,
    }
}
/// The immediate the CASM text mentions, if any.
pub fn imm_of(i: &Instruction) -> Option<&BigInt> {
    match &i.body {
        InstructionBody::AddAp(x) => imm_of_res(&x.operand),
        InstructionBody::AssertEq(x) | InstructionBody::QM31AssertEq(x) => imm_of_res(&x.b),
        InstructionBody::Call(x) => imm_of_doi(&x.target),
        InstructionBody::Jump(x) => imm_of_doi(&x.target),
        InstructionBody::Jnz(x) => imm_of_doi(&x.jump_offset),
        InstructionBody::Ret(_) | InstructionBody::Blake2sCompress(_) => None,
    }
}
/// `size` is 1 + [the text mentions an immediate] (never taken from `op_size`).
pub fn ref_step(i: &Instruction, st: St) -> Step {
    let size: i64 = if imm_of(i).is_some() { 2 } else { 1 };
    let inc = if i.inc_ap { ApNext::Plus(1) } else { ApNext::Same };
    let plain = Step {
        assert_eq: None, call_writes: None, blake: None,
        pc: Next::Seq(size), ap: inc, fp: FpNext::Same, qm31: false,
    };
    match &i.body {
        // `a = b`
        InstructionBody::AssertEq(x) => Step { assert_eq: Some((cell(st, x.a), resop(st, &x.b))), ..plain },
        InstructionBody::QM31AssertEq(x) => Step { assert_eq: Some((cell(st, x.a), resop(st, &x.b))), qm31: true, ..plain },
        // `ap += x`
        InstructionBody::AddAp(x) => Step { ap: ApNext::PlusRes(resop(st, &x.operand)), ..plain },
        // `jmp rel/abs x`
        InstructionBody::Jump(x) => Step {
            pc: if x.relative { Next::Rel(doi(st, &x.target)) } else { Next::Abs(doi(st, &x.target)) },
            ..plain
        },
        // `jmp rel x if c != 0`
        InstructionBody::Jnz(x) => Step { pc: Next::JnzRel(cell(st, x.condition), doi(st, &x.jump_offset), size), ..plain },
        // `call rel/abs x`: [ap] := fp, [ap+1] := pc + size, fp := ap + 2, ap += 2
        InstructionBody::Call(x) => Step {
            call_writes: Some((st.ap, st.ap + 1, size)),
            pc: if x.relative { Next::Rel(doi(st, &x.target)) } else { Next::Abs(doi(st, &x.target)) },
            ap: ApNext::Plus(2),
            fp: FpNext::ApPlus2,
            ..plain
        },
        // `ret`: pc := [fp-1], fp := [fp-2]
        InstructionBody::Ret(_) => Step { pc: Next::Abs(Val::Cell(st.fp - 1)), ap: ApNext::Same, fp: FpNext::FromCell(st.fp - 2), ..plain },
        // `blake2s[state, message, byte_count, finalize] => [ap + 0]`, ap++
        InstructionBody::Blake2sCompress(x) => Step {
            blake: Some((cell(st, x.state), cell(st, x.message), cell(st, x.byte_count), x.finalize)),
            ap: ApNext::Plus(1),
            ..plain
        },
    }
}

pub fn reg_of(r: Register) -> Reg { match r { Register::AP => Reg::AP, Register::FP => Reg::FP } }
/// Reads the fields of the low-level representation as a decoded instruction.
pub fn dec_of_repr(r: &InstructionRepr) -> Dec {
    Dec {
        off0: r.off0 as i32, off1: r.off1 as i32, off2: r.off2 as i32,
        dst: reg_of(r.dst_register), op0: reg_of(r.op0_register),
        op1: match r.op1_addr { Op1Addr::Imm => Op1::Imm, Op1Addr::AP => Op1::AP, Op1Addr::FP => Op1::FP, Op1Addr::Op0 => Op1::Op0 },
        res: match r.res { Res::Op1 => ResL::Op1, Res::Add => ResL::Add, Res::Mul => ResL::Mul, Res::Unconstrained => ResL::Unconstrained },
        pc: match r.pc_update { PcUpdate::Regular => PcU::Regular, PcUpdate::Jump => PcU::Jump, PcUpdate::JumpRel => PcU::JumpRel, PcUpdate::Jnz => PcU::Jnz },
        ap: match r.ap_update { ApUpdate::Regular => ApU::Regular, ApUpdate::Add => ApU::Add, ApUpdate::Add1 => ApU::Add1, ApUpdate::Add2 => ApU::Add2 },
        fp: match r.fp_update { FpUpdate::Regular => FpU::Regular, FpUpdate::ApPlus2 => FpU::ApPlus2, FpUpdate::Dst => FpU::Dst },
        opc: match r.opcode { Opcode::Nop => Opc::Nop, Opcode::AssertEq => Opc::AssertEq, Opcode::Call => Opc::Call, Opcode::Ret => Opc::Ret },
        ext: match r.opcode_extension { OpcodeExtension::Stone => 0, OpcodeExtension::Blake2s => 1, OpcodeExtension::Blake2sFinalize => 2, OpcodeExtension::QM31 => 3 },
    }
}
/// encode's four `assert_eq!`s, as a predicate (its precondition).
pub fn encode_pre(r: &InstructionRepr) -> bool {
    (r.imm.is_some() == (r.op1_addr == Op1Addr::Imm))
        && ((r.res == Res::Unconstrained) == (r.pc_update == PcUpdate::Jnz))
        && ((r.ap_update == ApUpdate::Add2) == (r.opcode == Opcode::Call))
        && r.fp_update == match r.opcode {
            Opcode::Nop => FpUpdate::Regular, Opcode::Call => FpUpdate::ApPlus2,
            Opcode::Ret => FpUpdate::Dst, Opcode::AssertEq => FpUpdate::Regular,
        }
}
