// K unit (C17): every `ApplyApChange` implementation of cairo-lang-casm and the default method
// `apply_ap_change`. Injected as a child module of crates/cairo-lang-casm/src/ap_change.rs.
//
// Oracle (from the property statement: "values addressed relative to the allocation pointer stay
// reachable"): a cell denotes the address resolve(c, ap, fp) = (AP ? ap : fp) + offset. After ap
// has moved by k, the shifted cell must denote the SAME address, and shifting must fail exactly
// when no i16 offset can express that address.
//
// `CellRef::apply_known_ap_change` carries an in-place function contract (inserted above the real
// method in the scratch copy, see contracts/units.py) proved by `proof_for_contract`; the callers
// (DerefOrImmediate, BinOpOperand, ResOperand, CellExpression) are verified against that contract,
// not the body, through `stub_verified`. All loop-free, full i16 x usize domain: complete proofs.
#![allow(dead_code, unused_imports)]
use num_bigint::BigInt;
use num_traits::ToPrimitive;

use super::{ApChange, ApChangeError, ApplyApChange};
use crate::cell_expression::{CellExpression, CellOperator};
use crate::operand::*;

// ---------- spec functions (used by the in-place contract and by the harnesses) ----------
pub fn resolve(c: CellRef, ap: i128, fp: i128) -> i128 {
    (match c.register { Register::AP => ap, Register::FP => fp }) + c.offset as i128
}
/// Shifting succeeds iff the cell is fp-based, or the same address is expressible from ap + k.
pub fn spec_ok(c: CellRef, k: usize) -> bool {
    match c.register {
        Register::FP => true,
        Register::AP => (k as u128) <= i16::MAX as u128 && (c.offset as i128 - k as i128) >= i16::MIN as i128,
    }
}
pub fn spec_shift(c: CellRef, k: usize) -> CellRef {
    match c.register {
        Register::FP => c,
        Register::AP => CellRef { register: Register::AP, offset: (c.offset as i128 - k as i128) as i16 },
    }
}
/// The whole contract of `<CellRef as ApplyApChange>::apply_known_ap_change`, as an iff.
pub fn cellref_post(old: CellRef, new: CellRef, k: usize, r: bool) -> bool {
    r == spec_ok(old, k) && new == (if r { spec_shift(old, k) } else { old })
}

impl kani::Arbitrary for Register {
    fn any() -> Self { if kani::any() { Register::AP } else { Register::FP } }
}
impl kani::Arbitrary for CellRef {
    fn any() -> Self { CellRef { register: kani::any(), offset: kani::any() } }
}

// ---------- CellRef: the contract, and what it means for addresses ----------
#[kani::proof_for_contract(<CellRef as ApplyApChange>::apply_known_ap_change)]
fn c17_cellref_contract() {
    let mut c: CellRef = kani::any();
    let k: usize = kani::any();
    kani::cover!(c.register == Register::AP && k > 0, "reach:ap-cell");
    let _ = c.apply_known_ap_change(k);
}
// The same statement as the in-place `ensures`, as a plain harness: Kani produces no concrete
// playback for a failed `ensures`, and contract attributes are inert natively, so this is the
// harness whose counter-example can be replayed on the real code.
#[kani::proof]
fn c17_cellref_direct() {
    let old: CellRef = kani::any();
    let mut c = old;
    let k: usize = kani::any();
    let r = c.apply_known_ap_change(k);
    assert!(cellref_post(old, c, k, r), "C17 CellRef::apply_known_ap_change: ok iff representable; shifted by k iff ok; unchanged otherwise");
}
// lemma over the spec functions: a successful shift preserves the denoted address for every ap, fp
#[kani::proof]
fn c17_lemma_shift_preserves_address() {
    let c: CellRef = kani::any();
    let k: usize = kani::any();
    let ap: i64 = kani::any();
    let fp: i64 = kani::any();
    if spec_ok(c, k) {
        assert!(resolve(spec_shift(c, k), ap as i128 + k as i128, fp as i128) == resolve(c, ap as i128, fp as i128), "C17 shift preserves address");
    } else {
        // failure is conservative (a compile error, never a wrong address): it happens only for an
        // ap-based cell whose change does not fit i16 or whose new offset would leave the i16 range
        let want = c.offset as i128 - k as i128;
        assert!(c.register == Register::AP && (k as u128 > i16::MAX as u128 || want < i16::MIN as i128), "C17 shift fails only for k > i16::MAX or offset - k < i16::MIN");
    }
}
// lemma: shifting by k1 then k2 equals shifting by k1 + k2 whenever all three succeed
#[kani::proof]
fn c17_lemma_shift_additive() {
    let c: CellRef = kani::any();
    let k1: usize = kani::any();
    let k2: usize = kani::any();
    kani::assume(k1 <= 1 << 20 && k2 <= 1 << 20);
    if spec_ok(c, k1) && spec_ok(spec_shift(c, k1), k2) && spec_ok(c, k1 + k2) {
        assert!(spec_shift(spec_shift(c, k1), k2) == spec_shift(c, k1 + k2), "C17 additive shift");
    }
}
#[kani::proof]
fn c17_cellref_can_apply_unknown() {
    let c: CellRef = kani::any();
    assert!(c.can_apply_unknown() == (c.register == Register::FP), "C17 unknown change only for fp-based cells");
}

// ---------- callers, verified against the CellRef contract ----------
fn imm5() -> cairo_lang_utils::bigint::BigIntAsHex { BigInt::from(5).into() }
fn imm_unchanged(x: &BigInt) -> bool { x.sign() == num_bigint::Sign::Plus && x.magnitude().to_u64() == Some(5) }

fn doi_ok(d: &DerefOrImmediate, k: usize) -> bool {
    match d { DerefOrImmediate::Deref(c) => spec_ok(*c, k), DerefOrImmediate::Immediate(_) => true }
}
fn doi_shifted(old: &DerefOrImmediate, new: &DerefOrImmediate, k: usize) -> bool {
    match (old, new) {
        (DerefOrImmediate::Deref(a), DerefOrImmediate::Deref(b)) => *b == spec_shift(*a, k),
        (DerefOrImmediate::Immediate(_), DerefOrImmediate::Immediate(v)) => imm_unchanged(&v.value),
        _ => false,
    }
}
fn any_doi() -> DerefOrImmediate {
    if kani::any() { DerefOrImmediate::Deref(kani::any()) } else { DerefOrImmediate::Immediate(imm5()) }
}

#[kani::proof]
#[kani::unwind(10)]
#[kani::stub_verified(<CellRef as ApplyApChange>::apply_known_ap_change)]
fn c17_deref_or_immediate() {
    let old = any_doi();
    let mut x = old.clone();
    let k: usize = kani::any();
    let r = x.apply_known_ap_change(k);
    assert!(r == doi_ok(&old, k), "C17 DerefOrImmediate: ok iff its cell shifts");
    if r { assert!(doi_shifted(&old, &x, k), "C17 DerefOrImmediate: cell shifted by k, immediate untouched"); }
    assert!(old.can_apply_unknown() == match &old { DerefOrImmediate::Deref(c) => c.register == Register::FP, _ => true }, "C17 DerefOrImmediate unknown");
}

#[kani::proof]
#[kani::unwind(10)]
#[kani::stub_verified(<CellRef as ApplyApChange>::apply_known_ap_change)]
fn c17_binop_operand() {
    let old = BinOpOperand { op: if kani::any() { Operation::Add } else { Operation::Mul }, a: kani::any(), b: any_doi() };
    let mut x = old.clone();
    let k: usize = kani::any();
    let r = x.apply_known_ap_change(k);
    assert!(r == (spec_ok(old.a, k) && doi_ok(&old.b, k)), "C17 BinOpOperand: ok iff both operands shift");
    if r {
        assert!(x.a == spec_shift(old.a, k) && doi_shifted(&old.b, &x.b, k) && x.op == old.op, "C17 BinOpOperand: both shifted by k");
    }
    assert!(old.can_apply_unknown() == (old.a.register == Register::FP && old.b.can_apply_unknown()), "C17 BinOpOperand unknown");
}

fn any_res() -> ResOperand {
    match kani::any::<u8>() % 4 {
        0 => ResOperand::Deref(kani::any()),
        1 => ResOperand::DoubleDeref(kani::any(), kani::any()),
        2 => ResOperand::Immediate(imm5()),
        _ => ResOperand::BinOp(BinOpOperand { op: if kani::any() { Operation::Add } else { Operation::Mul }, a: kani::any(), b: any_doi() }),
    }
}
#[kani::proof]
#[kani::unwind(10)]
#[kani::stub_verified(<CellRef as ApplyApChange>::apply_known_ap_change)]
fn c17_res_operand() {
    let old = any_res();
    let mut x = old.clone();
    let k: usize = kani::any();
    let r = x.apply_known_ap_change(k);
    let (ok, no_ap) = match &old {
        ResOperand::Deref(c) => (spec_ok(*c, k), c.register == Register::FP),
        ResOperand::DoubleDeref(c, _) => (spec_ok(*c, k), c.register == Register::FP),
        ResOperand::Immediate(_) => (true, true),
        ResOperand::BinOp(b) => (spec_ok(b.a, k) && doi_ok(&b.b, k), b.a.register == Register::FP && b.b.can_apply_unknown()),
    };
    assert!(r == ok, "C17 ResOperand: ok iff every contained cell shifts");
    if r {
        let good = match (&old, &x) {
            (ResOperand::Deref(a), ResOperand::Deref(b)) => *b == spec_shift(*a, k),
            (ResOperand::DoubleDeref(a, o1), ResOperand::DoubleDeref(b, o2)) => *b == spec_shift(*a, k) && o1 == o2,
            (ResOperand::Immediate(_), ResOperand::Immediate(v)) => imm_unchanged(&v.value),
            (ResOperand::BinOp(a), ResOperand::BinOp(b)) => b.a == spec_shift(a.a, k) && doi_shifted(&a.b, &b.b, k) && a.op == b.op,
            _ => false,
        };
        assert!(good, "C17 ResOperand: every cell shifted by k, inner offset and immediates untouched");
    }
    assert!(old.can_apply_unknown() == no_ap, "C17 ResOperand: unknown change iff no ap-based cell");
}

fn any_cellexpr() -> CellExpression {
    match kani::any::<u8>() % 4 {
        0 => CellExpression::Deref(kani::any()),
        1 => CellExpression::DoubleDeref(kani::any(), kani::any()),
        2 => CellExpression::Immediate(BigInt::from(5)),
        _ => CellExpression::BinOp {
            op: match kani::any::<u8>() % 4 { 0 => CellOperator::Add, 1 => CellOperator::Sub, 2 => CellOperator::Mul, _ => CellOperator::Div },
            a: kani::any(),
            b: any_doi(),
        },
    }
}
#[kani::proof]
#[kani::unwind(10)]
#[kani::stub_verified(<CellRef as ApplyApChange>::apply_known_ap_change)]
fn c17_cell_expression() {
    let old = any_cellexpr();
    let mut x = old.clone();
    let k: usize = kani::any();
    let r = x.apply_known_ap_change(k);
    let (ok, no_ap) = match &old {
        CellExpression::Deref(c) | CellExpression::DoubleDeref(c, _) => (spec_ok(*c, k), c.register == Register::FP),
        CellExpression::Immediate(_) => (true, true),
        CellExpression::BinOp { a, b, .. } => (spec_ok(*a, k) && doi_ok(b, k), a.register == Register::FP && b.can_apply_unknown()),
    };
    assert!(r == ok, "C17 CellExpression: ok iff every contained cell shifts");
    if r {
        let good = match (&old, &x) {
            (CellExpression::Deref(a), CellExpression::Deref(b)) => *b == spec_shift(*a, k),
            (CellExpression::DoubleDeref(a, o1), CellExpression::DoubleDeref(b, o2)) => *b == spec_shift(*a, k) && o1 == o2,
            (CellExpression::Immediate(_), CellExpression::Immediate(v)) => imm_unchanged(v),
            (CellExpression::BinOp { op: p, a, b }, CellExpression::BinOp { op: q, a: a2, b: b2 }) => *a2 == spec_shift(*a, k) && doi_shifted(b, b2, k) && p == q,
            _ => false,
        };
        assert!(good, "C17 CellExpression: every cell shifted by k, inner offset and immediates untouched");
    }
    assert!(old.can_apply_unknown() == no_ap, "C17 CellExpression: unknown change iff no ap-based cell");
}

// ---------- the default method `apply_ap_change` (what every caller in sierra-to-casm uses) ----------
#[kani::proof]
#[kani::stub_verified(<CellRef as ApplyApChange>::apply_known_ap_change)]
fn c17_apply_ap_change_default_method() {
    let c: CellRef = kani::any();
    let mut n = c;
    let ch = if kani::any() { ApChange::Unknown } else { ApChange::Known(kani::any()) };
    let r = n.apply_ap_change(ch);
    match ch {
        ApChange::Unknown => match r {
            Ok(()) => assert!(c.register == Register::FP && n == c, "C17 Unknown: accepted only without ap-based cell, value unchanged"),
            Err(e) => assert!(c.register == Register::AP && e == ApChangeError::UnknownApChange, "C17 Unknown: ap-based cell rejected"),
        },
        ApChange::Known(k) => match r {
            Ok(()) => assert!(spec_ok(c, k) && n == spec_shift(c, k), "C17 Known: shifted"),
            Err(e) => assert!(!spec_ok(c, k) && e == ApChangeError::OffsetOverflow, "C17 Known: OffsetOverflow exactly when unrepresentable"),
        },
    }
}
// `unchecked_apply_known_ap_change` panics exactly when the shift is not representable
#[kani::proof]
#[kani::stub_verified(<CellRef as ApplyApChange>::apply_known_ap_change)]
fn c17_unchecked_apply_ok() {
    let c: CellRef = kani::any();
    let k: usize = kani::any();
    kani::assume(spec_ok(c, k));
    assert!(c.unchecked_apply_known_ap_change(k) == spec_shift(c, k), "C17 unchecked: shifted");
}
#[kani::proof]
#[kani::should_panic]
#[kani::stub_verified(<CellRef as ApplyApChange>::apply_known_ap_change)]
fn c17_pre_unchecked_apply_panics() {
    let c: CellRef = kani::any();
    let k: usize = kani::any();
    kani::assume(!spec_ok(c, k));
    let _ = c.unchecked_apply_known_ap_change(k);
}
