// K unit (C04): the price of a `ConstCost` and its arithmetic; the fixed overhead of `withdraw_gas`.
// Injected as a child module of crates/cairo-lang-sierra-gas/src/objects.rs.
//
// Oracle (property statement C04: "the price is 100*steps + 10*holes + 70*range_checks +
// 56*range_checks96"): `spec_cost` is written over mathematical integers (i128) with the PUBLISHED
// prices below - they are not read from objects.rs, so a changed constant in the code fails.
// All functions are loop-free over i32^4 (cost_computation_steps: a constant 7-iteration loop), every
// input is fully symbolic: a SUCCESSFUL harness is a complete proof, not a bounded check.
#![allow(dead_code, unused_imports)]
use cairo_lang_sierra::extensions::gas::{BuiltinCostsType, CostTokenType};

use super::{ConstCost, WithdrawGasBranchInfo};

// ---------- published price table (property statement, NOT the code) ----------
pub const PRICE_STEP: i128 = 100;
pub const PRICE_HOLE: i128 = 10;
pub const PRICE_RANGE_CHECK: i128 = 70;
pub const PRICE_RANGE_CHECK96: i128 = 56;

// ---------- spec functions ----------
pub fn fits_i32(x: i128) -> bool { x >= i32::MIN as i128 && x <= i32::MAX as i128 }
/// The price over mathematical integers.
pub fn spec_cost(c: &ConstCost) -> i128 {
    PRICE_STEP * c.steps as i128
        + PRICE_HOLE * c.holes as i128
        + PRICE_RANGE_CHECK * c.range_checks as i128
        + PRICE_RANGE_CHECK96 * c.range_checks96 as i128
}
/// The exact region in which the i32 evaluation of the price does not overflow: every priced
/// component and every partial sum (in the order steps, holes, range_checks, range_checks96) fits i32.
/// It is the weakest precondition: `c04_pre_cost_*` show that outside it the real code overflows.
pub fn cost_pre(c: &ConstCost) -> bool {
    let s = PRICE_STEP * c.steps as i128;
    let h = PRICE_HOLE * c.holes as i128;
    let r = PRICE_RANGE_CHECK * c.range_checks as i128;
    let r96 = PRICE_RANGE_CHECK96 * c.range_checks96 as i128;
    fits_i32(s) && fits_i32(h) && fits_i32(r) && fits_i32(r96) && fits_i32(s + h) && fits_i32(s + h + r) && fits_i32(s + h + r + r96)
}
/// Component-wise combination fits i32 (precondition of add / sub).
pub fn comb_pre(a: &ConstCost, b: &ConstCost, sign: i128) -> bool {
    fits_i32(a.steps as i128 + sign * b.steps as i128)
        && fits_i32(a.holes as i128 + sign * b.holes as i128)
        && fits_i32(a.range_checks as i128 + sign * b.range_checks as i128)
        && fits_i32(a.range_checks96 as i128 + sign * b.range_checks96 as i128)
}
pub fn is_comb(r: &ConstCost, a: &ConstCost, b: &ConstCost, sign: i128) -> bool {
    r.steps as i128 == a.steps as i128 + sign * b.steps as i128
        && r.holes as i128 == a.holes as i128 + sign * b.holes as i128
        && r.range_checks as i128 == a.range_checks as i128 + sign * b.range_checks as i128
        && r.range_checks96 as i128 == a.range_checks96 as i128 + sign * b.range_checks96 as i128
}
fn any_cost() -> ConstCost {
    ConstCost { steps: kani::any(), holes: kani::any(), range_checks: kani::any(), range_checks96: kani::any() }
}

// ---------- ConstCost::cost ----------
#[kani::proof]
fn c04_cost_is_published_price() {
    let c = any_cost();
    kani::assume(cost_pre(&c));
    kani::cover!(true, "reach:cost_pre");
    kani::cover!(c.steps < 0 && c.holes > 0 && c.range_checks > 0 && c.range_checks96 > 0, "reach:mixed signs");
    let r = c.cost();
    assert!(r as i128 == spec_cost(&c), "C04 cost == 100*steps + 10*holes + 70*range_checks + 56*range_checks96");
}
// cost_pre is the weakest precondition: outside the region the real expression overflows (panics)
#[kani::proof]
#[kani::should_panic]
fn c04_pre_cost_overflows_outside_region() {
    let c = any_cost();
    kani::assume(!cost_pre(&c));
    kani::cover!(true, "reach:outside cost_pre");
    let _ = c.cost();
}
// ... and it does so right at the border: the smallest steps count whose price leaves i32
#[kani::proof]
#[kani::should_panic]
fn c04_pre_cost_overflows_at_border_steps() {
    let c = ConstCost { steps: (i32::MAX as i128 / PRICE_STEP) as i32 + 1, holes: 0, range_checks: 0, range_checks96: 0 };
    let _ = c.cost();
}
// ... while the largest price that fits is computed exactly (the region is not smaller than claimed)
#[kani::proof]
fn c04_cost_exact_at_border() {
    let c = ConstCost { steps: (i32::MAX as i128 / PRICE_STEP) as i32, holes: 4, range_checks: 0, range_checks96: 0 };
    assert!(cost_pre(&c), "C04 border point is inside the region");
    assert!(c.cost() as i128 == spec_cost(&c) && c.cost() == i32::MAX - 7, "C04 cost exact at the border of the region");
}

// ---------- ConstCost::add, Add::add, Sub::sub, constructors ----------
#[kani::proof]
fn c04_add_componentwise() {
    let (a, b) = (any_cost(), any_cost());
    kani::assume(comb_pre(&a, &b, 1));
    kani::cover!(true, "reach:add_pre");
    let r = a.add(b); // the inherent const fn
    assert!(is_comb(&r, &a, &b, 1), "C04 ConstCost::add is component-wise");
    let r2 = <ConstCost as std::ops::Add>::add(a, b);
    assert!(is_comb(&r2, &a, &b, 1), "C04 <ConstCost as Add>::add is component-wise");
}
#[kani::proof]
#[kani::should_panic]
fn c04_pre_add_overflows_outside() {
    let (a, b) = (any_cost(), any_cost());
    kani::assume(!comb_pre(&a, &b, 1));
    kani::cover!(true, "reach:outside add_pre");
    let _ = a.add(b);
}
#[kani::proof]
fn c04_sub_componentwise() {
    let (a, b) = (any_cost(), any_cost());
    kani::assume(comb_pre(&a, &b, -1));
    kani::cover!(true, "reach:sub_pre");
    let r = a - b;
    assert!(is_comb(&r, &a, &b, -1), "C04 <ConstCost as Sub>::sub is component-wise");
}
#[kani::proof]
#[kani::should_panic]
fn c04_pre_sub_overflows_outside() {
    let (a, b) = (any_cost(), any_cost());
    kani::assume(!comb_pre(&a, &b, -1));
    kani::cover!(true, "reach:outside sub_pre");
    let _ = a - b;
}
#[kani::proof]
fn c04_constructors_componentwise() {
    let n: i32 = kani::any();
    assert!(ConstCost::steps(n) == ConstCost { steps: n, holes: 0, range_checks: 0, range_checks96: 0 }, "C04 steps(n) sets steps only");
    assert!(ConstCost::holes(n) == ConstCost { steps: 0, holes: n, range_checks: 0, range_checks96: 0 }, "C04 holes(n) sets holes only");
    assert!(ConstCost::range_checks(n) == ConstCost { steps: 0, holes: 0, range_checks: n, range_checks96: 0 }, "C04 range_checks(n) sets range_checks only");
    assert!(ConstCost::default() == ConstCost { steps: 0, holes: 0, range_checks: 0, range_checks96: 0 } && ConstCost::default().cost() == 0, "C04 default cost is zero");
}

// ---------- lemmas (on the real functions) ----------
// cost(a.add(b)) == cost(a) + cost(b) is NOT a Kani harness: equivalence of two 32-bit multiplier circuits
// (100*(x+y) vs 100*x + 100*y) is out of reach of SAT (measured: no result in 15 min with cadical, 6 min with
// z3 / cvc5, 5 min with components bounded by 2^12). It follows from `c04_cost_is_published_price`
// (cost == spec_cost) and the linearity of spec_cost over the integers, which is the Verus lemma
// `lemma_cost_linear` (contracts/verus/gas_lemmas.vrs).
#[kani::proof]
fn c04_lemma_cost_of_unit_vectors() {
    let n: i32 = kani::any();
    if fits_i32(PRICE_STEP * n as i128) {
        assert!(ConstCost::steps(n).cost() as i128 == 100 * n as i128, "C04 cost(steps(n)) == 100*n");
    }
    if fits_i32(PRICE_RANGE_CHECK * n as i128) {
        assert!(ConstCost::range_checks(n).cost() as i128 == 70 * n as i128, "C04 cost(range_checks(n)) == 70*n");
    }
    if fits_i32(PRICE_HOLE * n as i128) {
        assert!(ConstCost::holes(n).cost() as i128 == 10 * n as i128, "C04 cost(holes(n)) == 10*n");
    }
    if fits_i32(PRICE_RANGE_CHECK96 * n as i128) {
        let c = ConstCost { steps: 0, holes: 0, range_checks: 0, range_checks96: n };
        assert!(c.cost() as i128 == 56 * n as i128, "C04 cost(range_checks96 = n) == 56*n");
    }
}

// ---------- BuiltinCostsType::cost_computation_steps, WithdrawGasBranchInfo::const_cost ----------
/// The 7 pre-cost (builtin) tokens, in the order of the symbolic usage table.
fn table_index(t: CostTokenType) -> usize {
    match t {
        CostTokenType::Pedersen => 0,
        CostTokenType::Poseidon => 1,
        CostTokenType::Bitwise => 2,
        CostTokenType::EcOp => 3,
        CostTokenType::AddMod => 4,
        CostTokenType::MulMod => 5,
        CostTokenType::Blake => 6,
        _ => 7, // not a builtin token: the spec below ignores this entry (frame)
    }
}
/// DESIGN 4/C04: 0 / 2 / 3 steps per builtin token used 0 / 1 / more times, +4 to fetch the cost
/// table if anything is computed and the table was not supplied.
pub fn spec_cost_computation_steps(table_available: bool, usage: &[usize; 8]) -> i128 {
    let mut sum: i128 = 0;
    let mut i = 0;
    while i < 7 {
        sum += if usage[i] == 0 { 0 } else if usage[i] == 1 { 2 } else { 3 };
        i += 1;
    }
    if sum > 0 && !table_available { sum + 4 } else { sum }
}
/// DESIGN 4/C04: one range check; 3 steps + computation; the failure branch pays one more jump and,
/// when a cost is computed or the table is passed, one more step for the range-checked counter.
pub fn spec_withdraw_gas(success: bool, with_builtin_costs: bool, c: i128) -> (i128, i128, i128, i128) {
    let extra = if success { 0 } else if with_builtin_costs || c > 0 { 2 } else { 1 };
    (3 + c + extra, 0, 1, 0)
}

#[kani::proof]
#[kani::unwind(9)]
fn c04_cost_computation_steps() {
    let usage: [usize; 8] = kani::any();
    let table_available: bool = kani::any();
    let r = BuiltinCostsType::cost_computation_steps(table_available, |t| usage[table_index(t)]);
    assert!(r as i128 == spec_cost_computation_steps(table_available, &usage), "C04 cost_computation_steps == sum of 0/2/3 per builtin token (+4 without table)");
    assert!(r <= 25, "C04 cost_computation_steps is at most 7*3 + 4");
}
#[kani::proof]
#[kani::unwind(9)]
fn c04_withdraw_gas_const_cost() {
    let usage: [usize; 8] = kani::any();
    let info = WithdrawGasBranchInfo { success: kani::any(), with_builtin_costs: kani::any() };
    let r = info.const_cost(|t| usage[table_index(t)]);
    let c = spec_cost_computation_steps(info.with_builtin_costs, &usage);
    let (steps, holes, rc, rc96) = spec_withdraw_gas(info.success, info.with_builtin_costs, c);
    assert!(r.steps as i128 == steps, "C04 withdraw_gas steps == 3 + computation + failure-branch overhead");
    assert!(r.range_checks as i128 == rc && r.holes as i128 == holes && r.range_checks96 as i128 == rc96, "C04 withdraw_gas uses exactly one range check, no holes, no rc96");
}
