// K unit (C17): `impl ApplyApChange for ReferenceExpression` (sierra-to-casm/src/references.rs):
// what `compile` applies to every live reference after each statement. BOUNDED in the number of
// cells (<= 3, fixed per harness; the body is `iter_mut().all(..)`), complete in everything else
// (cell kinds, registers, all i16 offsets, all usize ap changes).
#![allow(dead_code, unused_imports)]
use cairo_lang_casm::ap_change::ApplyApChange;
use cairo_lang_casm::cell_expression::{CellExpression, CellOperator};
use cairo_lang_casm::operand::{CellRef, DerefOrImmediate, Register};
use num_bigint::BigInt;

use super::ReferenceExpression;

fn resolve(c: CellRef, ap: i128, fp: i128) -> i128 { (match c.register { Register::AP => ap, Register::FP => fp }) + c.offset as i128 }
fn spec_ok(c: CellRef, k: usize) -> bool {
    match c.register { Register::FP => true, Register::AP => (k as u128) <= i16::MAX as u128 && (c.offset as i128 - k as i128) >= i16::MIN as i128 }
}
fn spec_shift(c: CellRef, k: usize) -> CellRef {
    match c.register { Register::FP => c, Register::AP => CellRef { register: Register::AP, offset: (c.offset as i128 - k as i128) as i16 } }
}
fn any_cellref() -> CellRef { CellRef { register: if kani::any() { Register::AP } else { Register::FP }, offset: kani::any() } }
fn any_doi() -> DerefOrImmediate { if kani::any() { DerefOrImmediate::Deref(any_cellref()) } else { DerefOrImmediate::Immediate(BigInt::from(5).into()) } }
fn any_cell() -> CellExpression {
    match kani::any::<u8>() % 4 {
        0 => CellExpression::Deref(any_cellref()),
        1 => CellExpression::DoubleDeref(any_cellref(), kani::any()),
        2 => CellExpression::Immediate(BigInt::from(5)),
        _ => CellExpression::BinOp { op: CellOperator::Add, a: any_cellref(), b: any_doi() },
    }
}
/// the ap-based cells of an expression (at most two)
fn ap_cells(c: &CellExpression) -> [Option<CellRef>; 2] {
    match c {
        CellExpression::Deref(a) | CellExpression::DoubleDeref(a, _) => [Some(*a), None],
        CellExpression::Immediate(_) => [None, None],
        CellExpression::BinOp { a, b, .. } => [Some(*a), match b { DerefOrImmediate::Deref(x) => Some(*x), _ => None }],
    }
}
fn cell_ok(c: &CellExpression, k: usize) -> bool { ap_cells(c).iter().all(|x| x.map_or(true, |r| spec_ok(r, k))) }
fn cell_no_ap(c: &CellExpression) -> bool { ap_cells(c).iter().all(|x| x.map_or(true, |r| r.register == Register::FP)) }
/// every address denoted by `new` at (ap + k, fp) is the address denoted by `old` at (ap, fp)
fn same_addresses(old: &CellExpression, new: &CellExpression, k: usize, ap: i64, fp: i64) -> bool {
    let (o, n) = (ap_cells(old), ap_cells(new));
    let mut good = true;
    for i in 0..2 {
        good = good && match (o[i], n[i]) {
            (Some(a), Some(b)) => b == spec_shift(a, k) && resolve(b, ap as i128 + k as i128, fp as i128) == resolve(a, ap as i128, fp as i128),
            (None, None) => true,
            _ => false,
        };
    }
    good && match (old, new) {
        (CellExpression::DoubleDeref(_, x), CellExpression::DoubleDeref(_, y)) => x == y,
        (CellExpression::Deref(_), CellExpression::Deref(_)) | (CellExpression::Immediate(_), CellExpression::Immediate(_)) => true,
        (CellExpression::BinOp { op: p, .. }, CellExpression::BinOp { op: q, .. }) => p == q,
        _ => false,
    }
}

fn check(n: usize) {
    let mut cells = vec![];
    for _ in 0..n { cells.push(any_cell()); }
    let old = ReferenceExpression { cells };
    let mut x = old.clone();
    let k: usize = kani::any();
    let ap: i64 = kani::any();
    let fp: i64 = kani::any();
    let r = x.apply_known_ap_change(k);
    let mut all_ok = true;
    for c in &old.cells { all_ok = all_ok && cell_ok(c, k); }
    assert!(r == all_ok, "C17 ReferenceExpression: shift succeeds iff every contained cell shifts");
    if r {
        assert!(x.cells.len() == old.cells.len(), "C17 ReferenceExpression: same number of cells");
        for i in 0..n {
            assert!(same_addresses(&old.cells[i], &x.cells[i], k, ap, fp), "C17 ReferenceExpression: every cell denotes the same address after ap moved by k");
        }
    }
    let mut no_ap = true;
    for c in &old.cells { no_ap = no_ap && cell_no_ap(c); }
    assert!(old.can_apply_unknown() == no_ap, "C17 ReferenceExpression: unknown ap change accepted iff no ap-based cell");
}

//@ bound="reference of 0 cells"
#[kani::proof]
#[kani::unwind(10)]
fn c17_ref_expr_0() { check(0); }
//@ bound="reference of 1 cell (all cell kinds, registers, offsets, ap changes)"
#[kani::proof]
#[kani::unwind(10)]
fn c17_ref_expr_1() { check(1); }
//@ bound="reference of 2 cells (all cell kinds, registers, offsets, ap changes)"
#[kani::proof]
#[kani::unwind(10)]
fn c17_ref_expr_2() { check(2); }
//@ bound="reference of 3 cells (all cell kinds, registers, offsets, ap changes)" tier=thorough
#[kani::proof]
#[kani::unwind(10)]
fn c17_ref_expr_3() { check(3); }
