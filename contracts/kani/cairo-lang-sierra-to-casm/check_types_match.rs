// K unit (C15): `check_types_match` (crates/cairo-lang-sierra-to-casm/src/references.rs), the
// typing half of Sierra acceptance: the references handed to a libfunc / returned by a function
// must have exactly the declared types. The body is `itertools::equal` over an iterator adaptor,
// so this is a BOUNDED check: <= 3 references and <= 3 types (all 16 length pairs), type ids over
// the full u64 range, `debug_name` in {None, Some} on both sides.
//
// Oracle (from the property statement, not from the body): Ok iff the two lists have the same
// length and agree pointwise on the type id (ConcreteTypeId equality ignores `debug_name`);
// otherwise Err(InvalidReferenceTypeForArgument).
#![allow(dead_code, unused_imports)]
use cairo_lang_sierra::ids::ConcreteTypeId;
use cairo_lang_sierra::program::StatementIdx;

use super::{IntroductionPoint, ReferenceExpression, ReferenceValue, ReferencesError, check_types_match};

fn any_ty() -> ConcreteTypeId {
    let mut t = if kani::any() { ConcreteTypeId::from_string("T") } else { ConcreteTypeId::new(0) };
    t.id = kani::any();
    t
}
fn any_ref() -> ReferenceValue {
    ReferenceValue {
        expression: ReferenceExpression { cells: vec![] },
        ty: any_ty(),
        stack_idx: if kani::any() { Some(kani::any()) } else { None },
        introduction_point: IntroductionPoint {
            source_statement_idx: None,
            destination_statement_idx: StatementIdx(kani::any()),
            output_idx: kani::any(),
        },
    }
}
fn spec_types_match(refs: &[ReferenceValue], types: &[ConcreteTypeId]) -> bool {
    if refs.len() != types.len() {
        return false;
    }
    let mut i = 0;
    while i < refs.len() {
        if refs[i].ty.id != types[i].id {
            return false;
        }
        i += 1;
    }
    true
}

//@ bound="<= 3 refs, <= 3 types (every length pair), ids full u64, debug_name in {None, Some}" timeout=900
#[kani::proof]
#[kani::unwind(5)]
fn c15_check_types_match() {
    let refs = [any_ref(), any_ref(), any_ref()];
    let types = [any_ty(), any_ty(), any_ty()];
    let n: usize = kani::any();
    let m: usize = kani::any();
    kani::assume(n <= 3 && m <= 3);
    kani::cover!(n == 3 && m == 3, "reach:three-refs-three-types");
    kani::cover!(n == 2 && m == 3, "reach:length-mismatch");
    let r = check_types_match(&refs[..n], types[..m].iter());
    let want = spec_types_match(&refs[..n], &types[..m]);
    assert!(r.is_ok() == want, "C15 check_types_match: Ok iff same length and pointwise equal type ids");
    if let Err(e) = r {
        assert!(e == ReferencesError::InvalidReferenceTypeForArgument, "C15 check_types_match: mismatch is reported as InvalidReferenceTypeForArgument");
    }
}
