// K unit (C04): `GasWallet::update` and `impl PartialEq for GasWallet`.
// Injected as a child module of crates/cairo-lang-sierra-to-casm/src/environment/gas_wallet.rs.
//
// Oracle (property statement C04: "the statically tracked wallet is decreased by each branch cost and
// may never be negative; merging paths need identical wallets"): a wallet is a total function
// token -> integer (absent = 0). update(m, c) succeeds iff m[k] - c[k] >= 0 for every token k and then
// yields exactly m - c; otherwise it reports a token whose balance went negative.
//
// BOUND: the key universe is {Const, Pedersen}; the SHAPE of both maps (which keys are present, in
// which insertion order) is concrete, one harness per presence pattern (symbolic map shapes do not
// terminate under CBMC, DESIGN 3). The VALUES are fully symbolic i64 with |v| < 2^60 (A3: no i64
// overflow in m[k] - c[k]). The real SmallOrderedMap / vector_map::VecMap / merge_collection code runs.
// merge_collection never inspects which token it handles, which is the (stated, not proved) argument
// for two keys being representative of the 8 tokens used by sierra-to-casm.
#![allow(dead_code, unused_imports)]
use cairo_lang_sierra::extensions::gas::{CostTokenMap, CostTokenType};

use super::{GasWallet, GasWalletError};

const C: CostTokenType = CostTokenType::Const;
const P: CostTokenType = CostTokenType::Pedersen;
const LIM: i64 = 1i64 << 60;

// ---------- spec view of a map: total function token -> integer, absent = 0 ----------
fn val(m: &CostTokenMap<i64>, k: CostTokenType) -> i128 { m.get(&k).copied().unwrap_or(0) as i128 }
fn has(m: &CostTokenMap<i64>, k: CostTokenType) -> bool { m.get(&k).is_some() }
/// No key outside the universe, no key twice.
fn only_universe(m: &CostTokenMap<i64>) -> bool {
    m.len() == (has(m, C) as usize) + (has(m, P) as usize)
}
fn bounded() -> i64 {
    let v: i64 = kani::any();
    kani::assume(v > -LIM && v < LIM);
    v
}
/// A map with the given concrete key list (insertion order as listed) and symbolic values.
fn sym_map(keys: &[CostTokenType]) -> CostTokenMap<i64> { sym_map_cap(keys, 0) }
/// Same, with `cap` slots reserved up front (capacity is not observable through the map's API).
fn sym_map_cap(keys: &[CostTokenType], cap: usize) -> CostTokenMap<i64> {
    let mut m = if cap == 0 { CostTokenMap::<i64>::new() } else { CostTokenMap::<i64>::with_capacity(cap) };
    for k in keys {
        m.insert(*k, bounded());
    }
    m
}

/// The whole contract of `GasWallet::update` on `Value(w)`.
fn check_update(wkeys: &[CostTokenType], ckeys: &[CostTokenType]) { check_update_cap(wkeys, ckeys, 0) }
fn check_update_cap(wkeys: &[CostTokenType], ckeys: &[CostTokenType], wcap: usize) {
    let w = sym_map_cap(wkeys, wcap);
    let c = sym_map(ckeys);
    kani::cover!(true, "reach:update");
    let (wc, wp, cc, cp) = (val(&w, C), val(&w, P), val(&c, C), val(&c, P));
    let (dc, dp) = (wc - cc, wp - cp);
    let all_non_negative = dc >= 0 && dp >= 0;
    match GasWallet::Value(w).update(c) {
        Ok(GasWallet::Value(m)) => {
            assert!(all_non_negative, "C04 update: Ok only if no token balance goes negative");
            assert!(val(&m, C) == dc && val(&m, P) == dp, "C04 update: new[k] == old[k] - cost[k] for every token");
            assert!(only_universe(&m), "C04 update: no other token appears in the wallet");
        }
        Ok(GasWallet::Disabled) => assert!(false, "C04 update: a known wallet stays known"),
        Err(GasWalletError::OutOfGas { state, cost, token_type }) => {
            assert!(!all_non_negative, "C04 update: OutOfGas only if some token balance goes negative");
            assert!((token_type == C && dc < 0) || (token_type == P && dp < 0), "C04 update: reported token has old - cost < 0");
            assert!(val(&cost, C) == cc && val(&cost, P) == cp, "C04 update: error carries the requested cost");
            match state {
                GasWallet::Value(m) => assert!(val(&m, C) == dc && val(&m, P) == dp, "C04 update: error state is old - cost"),
                GasWallet::Disabled => assert!(false, "C04 update: error state of a known wallet is known"),
            }
        }
    }
}

/// The whole contract of `GasWallet == GasWallet` on two known wallets of the given shapes.
fn check_eq(akeys: &[CostTokenType], bkeys: &[CostTokenType]) {
    let a = sym_map(akeys);
    let b = sym_map(bkeys);
    kani::cover!(true, "reach:eq");
    let same_keys = has(&a, C) == has(&b, C) && has(&a, P) == has(&b, P);
    let same_vals = val(&a, C) == val(&b, C) && val(&a, P) == val(&b, P);
    let (wa, wb) = (GasWallet::Value(a), GasWallet::Value(b));
    let r = wa == wb;
    assert!(r == (same_keys && same_vals), "C04 wallet eq: equal iff same key set and equal values, in any order");
    assert!((wb == wa) == r, "C04 wallet eq: symmetric");
    assert!(wa != GasWallet::Disabled && GasWallet::Disabled != wb, "C04 wallet eq: a known wallet never equals Disabled");
}
// ---------- GasWallet::update: one harness per presence pattern (16) + insertion-order variants (3) ----------
//@ bound="key universe {Const,Pedersen}, one harness per presence pattern; values symbolic |v| < 2^60"
#[kani::proof]
#[kani::unwind(4)]
fn c04_update_w_0__c_0() {
    check_update(&[], &[]);
}
//@ bound="key universe {Const,Pedersen}, one harness per presence pattern; values symbolic |v| < 2^60"
#[kani::proof]
#[kani::unwind(4)]
fn c04_update_w_0__c_c() {
    check_update(&[], &[C]);
}
//@ bound="key universe {Const,Pedersen}, one harness per presence pattern; values symbolic |v| < 2^60"
#[kani::proof]
#[kani::unwind(4)]
fn c04_update_w_0__c_p() {
    check_update(&[], &[P]);
}
// The empty wallet charged for both tokens. With an unallocated wallet Vec both entries are pushed through
// Vec growth inside merge_collection (measured 390 s, > 10 GB): that variant is in the thorough tier, the
// quick tier runs the same pattern with the wallet's two slots reserved up front.
//@ bound="key universe {Const,Pedersen}, one harness per presence pattern; values symbolic |v| < 2^60"
#[kani::proof]
#[kani::unwind(4)]
fn c04_update_w_0__c_cp() {
    check_update_cap(&[], &[C, P], 2);
}
//@ tier=thorough timeout=3000 bound="key universe {Const,Pedersen}, one harness per presence pattern; values symbolic |v| < 2^60"
#[kani::proof]
#[kani::unwind(4)]
fn c04_update_w_0_unallocated__c_cp() {
    check_update(&[], &[C, P]);
}
//@ bound="key universe {Const,Pedersen}, one harness per presence pattern; values symbolic |v| < 2^60"
#[kani::proof]
#[kani::unwind(4)]
fn c04_update_w_c__c_0() {
    check_update(&[C], &[]);
}
//@ bound="key universe {Const,Pedersen}, one harness per presence pattern; values symbolic |v| < 2^60"
#[kani::proof]
#[kani::unwind(4)]
fn c04_update_w_c__c_c() {
    check_update(&[C], &[C]);
}
//@ bound="key universe {Const,Pedersen}, one harness per presence pattern; values symbolic |v| < 2^60"
#[kani::proof]
#[kani::unwind(4)]
fn c04_update_w_c__c_p() {
    check_update(&[C], &[P]);
}
//@ bound="key universe {Const,Pedersen}, one harness per presence pattern; values symbolic |v| < 2^60"
#[kani::proof]
#[kani::unwind(4)]
fn c04_update_w_c__c_cp() {
    check_update(&[C], &[C, P]);
}
//@ bound="key universe {Const,Pedersen}, one harness per presence pattern; values symbolic |v| < 2^60"
#[kani::proof]
#[kani::unwind(4)]
fn c04_update_w_p__c_0() {
    check_update(&[P], &[]);
}
//@ bound="key universe {Const,Pedersen}, one harness per presence pattern; values symbolic |v| < 2^60"
#[kani::proof]
#[kani::unwind(4)]
fn c04_update_w_p__c_c() {
    check_update(&[P], &[C]);
}
//@ bound="key universe {Const,Pedersen}, one harness per presence pattern; values symbolic |v| < 2^60"
#[kani::proof]
#[kani::unwind(4)]
fn c04_update_w_p__c_p() {
    check_update(&[P], &[P]);
}
//@ bound="key universe {Const,Pedersen}, one harness per presence pattern; values symbolic |v| < 2^60"
#[kani::proof]
#[kani::unwind(4)]
fn c04_update_w_p__c_cp() {
    check_update(&[P], &[C, P]);
}
//@ bound="key universe {Const,Pedersen}, one harness per presence pattern; values symbolic |v| < 2^60"
#[kani::proof]
#[kani::unwind(4)]
fn c04_update_w_cp__c_0() {
    check_update(&[C, P], &[]);
}
//@ bound="key universe {Const,Pedersen}, one harness per presence pattern; values symbolic |v| < 2^60"
#[kani::proof]
#[kani::unwind(4)]
fn c04_update_w_cp__c_c() {
    check_update(&[C, P], &[C]);
}
//@ bound="key universe {Const,Pedersen}, one harness per presence pattern; values symbolic |v| < 2^60"
#[kani::proof]
#[kani::unwind(4)]
fn c04_update_w_cp__c_p() {
    check_update(&[C, P], &[P]);
}
//@ bound="key universe {Const,Pedersen}, one harness per presence pattern; values symbolic |v| < 2^60"
#[kani::proof]
#[kani::unwind(4)]
fn c04_update_w_cp__c_cp() {
    check_update(&[C, P], &[C, P]);
}
//@ bound="key universe {Const,Pedersen}, one harness per presence pattern; values symbolic |v| < 2^60"
#[kani::proof]
#[kani::unwind(4)]
fn c04_update_w_pc__c_cp() {
    check_update(&[P, C], &[C, P]);
}
//@ bound="key universe {Const,Pedersen}, one harness per presence pattern; values symbolic |v| < 2^60"
#[kani::proof]
#[kani::unwind(4)]
fn c04_update_w_cp__c_pc() {
    check_update(&[C, P], &[P, C]);
}
//@ bound="key universe {Const,Pedersen}, one harness per presence pattern; values symbolic |v| < 2^60"
#[kani::proof]
#[kani::unwind(4)]
fn c04_update_w_pc__c_pc() {
    check_update(&[P, C], &[P, C]);
}
// Disabled gas tracking: every cost is accepted and the wallet stays Disabled
//@ bound="key universe {Const,Pedersen}, cost map with both keys; values symbolic |v| < 2^60"
#[kani::proof]
#[kani::unwind(4)]
fn c04_update_disabled() {
    let c = sym_map(&[C, P]);
    kani::cover!(true, "reach:update disabled");
    assert!(matches!(GasWallet::Disabled.update(c), Ok(GasWallet::Disabled)), "C04 update: Disabled -> Ok(Disabled)");
    assert!(matches!(GasWallet::Disabled.update(CostTokenMap::<i64>::new()), Ok(GasWallet::Disabled)), "C04 update: Disabled -> Ok(Disabled) for the empty cost");
}

// ---------- impl PartialEq for GasWallet: every pair of shapes over {[], [C], [P], [C,P], [P,C]} ----------
//@ bound="key universe {Const,Pedersen}, all 5 shapes of the other wallet; values symbolic |v| < 2^60"
#[kani::proof]
#[kani::unwind(4)]
fn c04_eq_a_0() {
    check_eq(&[], &[]);
    check_eq(&[], &[C]);
    check_eq(&[], &[P]);
    check_eq(&[], &[C, P]);
    check_eq(&[], &[P, C]);
}
//@ bound="key universe {Const,Pedersen}, all 5 shapes of the other wallet; values symbolic |v| < 2^60"
#[kani::proof]
#[kani::unwind(4)]
fn c04_eq_a_c() {
    check_eq(&[C], &[]);
    check_eq(&[C], &[C]);
    check_eq(&[C], &[P]);
    check_eq(&[C], &[C, P]);
    check_eq(&[C], &[P, C]);
}
//@ bound="key universe {Const,Pedersen}, all 5 shapes of the other wallet; values symbolic |v| < 2^60"
#[kani::proof]
#[kani::unwind(4)]
fn c04_eq_a_p() {
    check_eq(&[P], &[]);
    check_eq(&[P], &[C]);
    check_eq(&[P], &[P]);
    check_eq(&[P], &[C, P]);
    check_eq(&[P], &[P, C]);
}
//@ bound="key universe {Const,Pedersen}, all 5 shapes of the other wallet; values symbolic |v| < 2^60"
#[kani::proof]
#[kani::unwind(4)]
fn c04_eq_a_cp() {
    check_eq(&[C, P], &[]);
    check_eq(&[C, P], &[C]);
    check_eq(&[C, P], &[P]);
    check_eq(&[C, P], &[C, P]);
    check_eq(&[C, P], &[P, C]);
}
//@ bound="key universe {Const,Pedersen}, all 5 shapes of the other wallet; values symbolic |v| < 2^60"
#[kani::proof]
#[kani::unwind(4)]
fn c04_eq_a_pc() {
    check_eq(&[P, C], &[]);
    check_eq(&[P, C], &[C]);
    check_eq(&[P, C], &[P]);
    check_eq(&[P, C], &[C, P]);
    check_eq(&[P, C], &[P, C]);
}
#[kani::proof]
fn c04_eq_disabled() {
    assert!(GasWallet::Disabled == GasWallet::Disabled, "C04 wallet eq: Disabled == Disabled");
}
