// K unit (C15): `test_var_consistency` (crates/cairo-lang-sierra-to-casm/src/annotations.rs, private),
// the per-variable core of `test_references_consistency`: when two control-flow paths meet, may the
// reference `actual` be merged into the `expected` one?
//
// Oracle (from the documented merge rule): Ok iff the variable is on the known stack, or its
// expression holds no ap-based cell, or (ap tracking is enabled and both were introduced at the
// same point). Otherwise Err(ApTrackingDisabled(var)) when tracking is off, else
// Err(IntroductionPointMismatch{var, expected, actual}).
//
// Domain: expressions of 0, 1 or 2 cells, every CellExpression shape, both registers, full i16
// offsets, symbolic stack_idx / type id / introduction points. Immediates are the concrete value 5
// (they are never inspected). Loop bound = number of cells (<= 2).
#![allow(dead_code, unused_imports)]
use cairo_lang_casm::cell_expression::{CellExpression, CellOperator};
use cairo_lang_casm::operand::{CellRef, DerefOrImmediate, Register};
use cairo_lang_sierra::ids::{ConcreteTypeId, VarId};
use cairo_lang_sierra::program::StatementIdx;
use num_bigint::BigInt;

use super::{InconsistentReferenceError, test_var_consistency};
use crate::references::{IntroductionPoint, ReferenceExpression, ReferenceValue};

fn any_cellref() -> CellRef {
    CellRef { register: if kani::any() { Register::AP } else { Register::FP }, offset: kani::any() }
}
fn any_doi() -> DerefOrImmediate {
    if kani::any() { DerefOrImmediate::Deref(any_cellref()) } else { DerefOrImmediate::Immediate(BigInt::from(5).into()) }
}
fn any_cellexpr() -> CellExpression {
    match kani::any::<u8>() % 4 {
        0 => CellExpression::Deref(any_cellref()),
        1 => CellExpression::DoubleDeref(any_cellref(), kani::any()),
        2 => CellExpression::Immediate(BigInt::from(5)),
        _ => CellExpression::BinOp {
            op: match kani::any::<u8>() % 4 { 0 => CellOperator::Add, 1 => CellOperator::Sub, 2 => CellOperator::Mul, _ => CellOperator::Div },
            a: any_cellref(),
            b: any_doi(),
        },
    }
}
fn any_ip() -> IntroductionPoint {
    IntroductionPoint {
        source_statement_idx: if kani::any() { Some(StatementIdx(kani::any())) } else { None },
        destination_statement_idx: StatementIdx(kani::any()),
        output_idx: kani::any(),
    }
}
fn any_ref(cells: Vec<CellExpression>) -> ReferenceValue {
    ReferenceValue {
        expression: ReferenceExpression { cells },
        ty: ConcreteTypeId::new(kani::any()),
        stack_idx: if kani::any() { Some(kani::any()) } else { None },
        introduction_point: any_ip(),
    }
}

// ---- oracle ----
fn spec_cell_no_ap(c: &CellExpression) -> bool {
    match c {
        CellExpression::Deref(c) => c.register == Register::FP,
        CellExpression::DoubleDeref(c, _) => c.register == Register::FP,
        CellExpression::Immediate(_) => true,
        CellExpression::BinOp { a, b, .. } => {
            a.register == Register::FP
                && match b { DerefOrImmediate::Deref(c) => c.register == Register::FP, DerefOrImmediate::Immediate(_) => true }
        }
    }
}
fn spec_no_ap(cells: &[CellExpression]) -> bool {
    let mut i = 0;
    while i < cells.len() {
        if !spec_cell_no_ap(&cells[i]) {
            return false;
        }
        i += 1;
    }
    true
}
fn spec_same_ip(a: &IntroductionPoint, b: &IntroductionPoint) -> bool {
    let src = match (&a.source_statement_idx, &b.source_statement_idx) {
        (None, None) => true,
        (Some(x), Some(y)) => x.0 == y.0,
        _ => false,
    };
    src && a.destination_statement_idx.0 == b.destination_statement_idx.0 && a.output_idx == b.output_idx
}

type Input = (VarId, ReferenceValue, ReferenceValue, bool);
fn inputs(actual_cells: Vec<CellExpression>) -> Input {
    (VarId::new(kani::any()), any_ref(actual_cells), any_ref(vec![]), kani::any())
}
fn covers((_, actual, expected, tracking): &Input) {
    kani::cover!(actual.stack_idx.is_none() && !spec_no_ap(&actual.expression.cells) && *tracking
        && spec_same_ip(&actual.introduction_point, &expected.introduction_point), "reach:accepted-through-introduction-point");
    kani::cover!(actual.stack_idx.is_none() && !spec_no_ap(&actual.expression.cells) && *tracking
        && !spec_same_ip(&actual.introduction_point, &expected.introduction_point), "reach:rejected-introduction-point");
}
fn check((var, actual, expected, tracking): Input) {
    let r = test_var_consistency(&var, &actual, &expected, tracking);
    let want = actual.stack_idx.is_some()
        || spec_no_ap(&actual.expression.cells)
        || (tracking && spec_same_ip(&actual.introduction_point, &expected.introduction_point));
    assert!(r.is_ok() == want, "C15 test_var_consistency: Ok iff on stack, or no ap-based cell, or (ap tracking enabled and same introduction point)");
    match r {
        Ok(()) => {}
        Err(InconsistentReferenceError::ApTrackingDisabled(v)) => {
            assert!(!tracking && v.id == var.id, "C15 test_var_consistency: ApTrackingDisabled(var) only when ap tracking is off");
        }
        Err(InconsistentReferenceError::IntroductionPointMismatch { var: v, expected: e, actual: a }) => {
            assert!(
                tracking && v.id == var.id && spec_same_ip(&e, &expected.introduction_point) && spec_same_ip(&a, &actual.introduction_point),
                "C15 test_var_consistency: IntroductionPointMismatch carries var, expected and actual points, only with tracking on"
            );
        }
        Err(_) => assert!(false, "C15 test_var_consistency: no other error variant"),
    }
}

//@ bound="expression of <= 2 cells (exact count per harness)" timeout=900
#[kani::proof]
#[kani::unwind(4)]
fn c15_test_var_consistency_0_cells() {
    let i = inputs(vec![]);
    kani::cover!(i.1.stack_idx.is_none() && !i.3, "reach:empty-expression-off-stack-tracking-off");
    check(i);
}
//@ bound="expression of <= 2 cells (exact count per harness)" timeout=900
#[kani::proof]
#[kani::unwind(4)]
fn c15_test_var_consistency_1_cell() {
    let i = inputs(vec![any_cellexpr()]);
    covers(&i);
    check(i);
}
//@ bound="expression of <= 2 cells (exact count per harness)" timeout=900
#[kani::proof]
#[kani::unwind(4)]
fn c15_test_var_consistency_2_cells() {
    let i = inputs(vec![any_cellexpr(), any_cellexpr()]);
    covers(&i);
    check(i);
}
