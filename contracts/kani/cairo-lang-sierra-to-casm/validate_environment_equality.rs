// K unit (C04, C15, C17): `validate_environment_equality` (crates/cairo-lang-sierra-to-casm/src/environment/mod.rs),
// the test applied whenever two control-flow paths meet: the environments must agree.
//
// Oracle (from the property statement): Ok iff ap tracking, frame state and gas wallet are equal;
// the error names the FIRST difference in that order (InconsistentApTracking, InconsistentFrameState,
// InconsistentGasWallet). `stack_size` is deliberately NOT compared (the known stack is re-derived
// from the references), so the verdict must not depend on it.
// The equalities are written out structurally here (not through the derived/hand-written `==`
// that the function itself uses): ApTracking and FrameState field by field; two wallets are equal
// iff both are Disabled, or both hold the same set of tokens with the same value per token,
// whatever the insertion order.
//
// Domain: ApTracking, FrameState and stack_size fully symbolic. GasWallet: one harness per FIXED key
// shape with fully symbolic i64 values (symbolic map shapes do not terminate under CBMC, DESIGN 3);
// the shapes cover Disabled/Value mixes, the empty wallet, equal key sets in the same and in a
// different order, different sizes, and equal sizes with different keys.
#![allow(dead_code, unused_imports)]
use cairo_lang_sierra::extensions::gas::{CostTokenMap, CostTokenType};
use cairo_lang_sierra::program::StatementIdx;

use super::frame_state::FrameState;
use super::gas_wallet::GasWallet;
use super::{ApTracking, ApTrackingBase, Environment, EnvironmentError, validate_environment_equality};

fn any_tracking() -> ApTracking {
    if kani::any() {
        ApTracking::Disabled
    } else {
        ApTracking::Enabled {
            ap_change: kani::any(),
            base: if kani::any() { ApTrackingBase::FunctionStart } else { ApTrackingBase::Statement(StatementIdx(kani::any())) },
        }
    }
}
fn any_frame() -> FrameState {
    match kani::any::<u8>() % 3 {
        0 => FrameState::BeforeAllocation,
        1 => FrameState::Allocating { allocated: kani::any(), locals_start_ap_offset: kani::any() },
        _ => FrameState::Finalized { allocated: kani::any() },
    }
}

// ---- oracle ----
fn spec_tracking_eq(a: &ApTracking, b: &ApTracking) -> bool {
    match (a, b) {
        (ApTracking::Disabled, ApTracking::Disabled) => true,
        (ApTracking::Enabled { ap_change: c1, base: b1 }, ApTracking::Enabled { ap_change: c2, base: b2 }) => {
            *c1 == *c2
                && match (b1, b2) {
                    (ApTrackingBase::FunctionStart, ApTrackingBase::FunctionStart) => true,
                    (ApTrackingBase::Statement(s1), ApTrackingBase::Statement(s2)) => s1.0 == s2.0,
                    _ => false,
                }
        }
        _ => false,
    }
}
fn spec_frame_eq(a: &FrameState, b: &FrameState) -> bool {
    match (a, b) {
        (FrameState::BeforeAllocation, FrameState::BeforeAllocation) => true,
        (
            FrameState::Allocating { allocated: a1, locals_start_ap_offset: o1 },
            FrameState::Allocating { allocated: a2, locals_start_ap_offset: o2 },
        ) => *a1 == *a2 && *o1 == *o2,
        (FrameState::Finalized { allocated: a1 }, FrameState::Finalized { allocated: a2 }) => *a1 == *a2,
        _ => false,
    }
}
/// A wallet described as a list of (token, value) with pairwise distinct tokens; None = Disabled.
type WalletDesc<'a> = Option<&'a [(CostTokenType, i64)]>;
fn spec_wallet_eq(a: WalletDesc, b: WalletDesc) -> bool {
    match (a, b) {
        (None, None) => true,
        (Some(x), Some(y)) => {
            if x.len() != y.len() {
                return false;
            }
            let mut i = 0;
            while i < x.len() {
                let mut found = false;
                let mut j = 0;
                while j < y.len() {
                    if x[i].0 == y[j].0 && x[i].1 == y[j].1 {
                        found = true;
                    }
                    j += 1;
                }
                if !found {
                    return false;
                }
                i += 1;
            }
            true
        }
        _ => false,
    }
}
fn wallet(d: WalletDesc) -> GasWallet {
    match d {
        None => GasWallet::Disabled,
        Some(l) => GasWallet::Value(CostTokenMap::from_iter(l.iter().copied())),
    }
}

fn check(da: WalletDesc, db: WalletDesc) {
    let a = Environment { ap_tracking: any_tracking(), stack_size: kani::any(), frame_state: any_frame(), gas_wallet: wallet(da) };
    let b = Environment { ap_tracking: any_tracking(), stack_size: kani::any(), frame_state: any_frame(), gas_wallet: wallet(db) };
    let t = spec_tracking_eq(&a.ap_tracking, &b.ap_tracking);
    let f = spec_frame_eq(&a.frame_state, &b.frame_state);
    let g = spec_wallet_eq(da, db);
    kani::cover!(t && f && a.stack_size != b.stack_size, "reach:equal-tracking-and-frame-different-stack-size");
    kani::cover!(!t && !f, "reach:two-differences");
    let r = validate_environment_equality(&a, &b);
    assert!(r.is_ok() == (t && f && g), "C15 validate_environment_equality: Ok iff ap_tracking, frame_state and gas_wallet are equal (stack_size not compared)");
    match r {
        Ok(()) => {}
        Err(EnvironmentError::InconsistentApTracking) => assert!(!t, "C15 validate_environment_equality: InconsistentApTracking iff ap tracking differs"),
        Err(EnvironmentError::InconsistentFrameState) => assert!(t && !f, "C15 validate_environment_equality: InconsistentFrameState iff frame state is the first difference"),
        Err(EnvironmentError::InconsistentGasWallet) => assert!(t && f && !g, "C15 validate_environment_equality: InconsistentGasWallet iff the gas wallet is the first difference"),
        Err(_) => assert!(false, "C15 validate_environment_equality: no other error variant"),
    }
}

use CostTokenType::{Bitwise, Const, Pedersen};

//@ timeout=900
#[kani::proof]
#[kani::unwind(4)]
fn c15_env_eq_wallet_disabled_disabled() {
    check(None, None);
}
//@ bound="gas wallet: fixed key shape (<= 2 tokens of Const/Pedersen/Bitwise), values full i64; rest fully symbolic" timeout=900
#[kani::proof]
#[kani::unwind(4)]
fn c15_env_eq_wallet_disabled_vs_value() {
    let v = [(Const, kani::any())];
    if kani::any() { check(None, Some(&v)) } else { check(Some(&v), None) }
}
//@ bound="gas wallet: fixed key shape (<= 2 tokens of Const/Pedersen/Bitwise), values full i64; rest fully symbolic" timeout=900
#[kani::proof]
#[kani::unwind(4)]
fn c15_env_eq_wallet_empty_empty() {
    check(Some(&[]), Some(&[]));
}
//@ bound="gas wallet: fixed key shape (<= 2 tokens of Const/Pedersen/Bitwise), values full i64; rest fully symbolic" timeout=900
#[kani::proof]
#[kani::unwind(4)]
fn c15_env_eq_wallet_same_keys_same_order() {
    let (x, y) = ([(Const, kani::any()), (Pedersen, kani::any())], [(Const, kani::any()), (Pedersen, kani::any())]);
    kani::cover!(x[0].1 == y[0].1 && x[1].1 == y[1].1, "reach:equal-wallets");
    check(Some(&x), Some(&y));
}
//@ bound="gas wallet: fixed key shape (<= 2 tokens of Const/Pedersen/Bitwise), values full i64; rest fully symbolic" timeout=900
#[kani::proof]
#[kani::unwind(4)]
fn c15_env_eq_wallet_same_keys_other_order() {
    let (x, y) = ([(Const, kani::any()), (Pedersen, kani::any())], [(Pedersen, kani::any()), (Const, kani::any())]);
    kani::cover!(x[0].1 == y[1].1 && x[1].1 == y[0].1, "reach:equal-wallets-unordered");
    check(Some(&x), Some(&y));
}
//@ bound="gas wallet: fixed key shape (<= 2 tokens of Const/Pedersen/Bitwise), values full i64; rest fully symbolic" timeout=900
#[kani::proof]
#[kani::unwind(4)]
fn c15_env_eq_wallet_different_sizes() {
    let (x, y) = ([(Const, kani::any())], [(Const, kani::any()), (Pedersen, kani::any())]);
    if kani::any() { check(Some(&x), Some(&y)) } else { check(Some(&y), Some(&x)) }
}
//@ bound="gas wallet: fixed key shape (<= 2 tokens of Const/Pedersen/Bitwise), values full i64; rest fully symbolic" timeout=900
#[kani::proof]
#[kani::unwind(4)]
fn c15_env_eq_wallet_different_keys() {
    let (x, y) = ([(Const, kani::any()), (Pedersen, kani::any())], [(Const, kani::any()), (Bitwise, kani::any())]);
    check(Some(&x), Some(&y));
}
