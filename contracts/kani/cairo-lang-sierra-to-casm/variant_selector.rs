// K unit (C14): `get_variant_selector` (crates/cairo-lang-sierra-to-casm/src/invocations/enm.rs), the
// arithmetic that turns an enum variant index taken from untrusted Sierra into a jump-table offset.
// Injected as a child module of enm.rs. Loop-free, full usize x usize domain: complete proofs.
//
// PRE  index < n_variants. Established by the callers' validators: `validate_const_enum_data`
//      (const enums; unit const_enum_data) and the range check of `EnumInitLibfunc::specialize`
//      (`index >= variant_types.len()` => IndexOutOfRange). Outside it `n_variants - index` underflows
//      (documented by the should_panic harness).
// POST (from DESIGN 4/C14, not from the body): no panic; n <= 2 => Ok(index); otherwise
//      Ok(2*(n-index) - 1), and Err(IntegerOverflow) iff 2*(n-index) does not fit a usize.
// The contract is inserted in place above the real function (units.d/c14_decompress.py) and proved by
// `proof_for_contract`; the plain harness states the same thing with replayable assertions.
//
// `#[kani::unwind(2)]`: the function has no loop; the bound only stops CBMC from unwinding the drop glue
// of InvocationError variants that hold vectors (`ok_or(InvocationError::IntegerOverflow)` drops its
// argument on the Some path). Those loops are unreachable (the value is always IntegerOverflow); the
// unwinding assertions that Kani adds are part of the proof, so the bound is checked, not assumed.
#![allow(dead_code, unused_imports)]
use super::{InvocationError, get_variant_selector};

/// The mathematical selector, computed in u128 so that the oracle itself cannot overflow.
pub fn spec_selector(n: usize, index: usize) -> Option<u128> {
    if n <= 2 {
        Some(index as u128)
    } else {
        let twice = 2u128 * ((n as u128) - (index as u128));
        if twice > usize::MAX as u128 { None } else { Some(twice - 1) }
    }
}
/// The whole contract as one predicate over (arguments, result).
pub fn selector_post(n: usize, index: usize, r: &Result<usize, InvocationError>) -> bool {
    match (spec_selector(n, index), r) {
        (Some(want), Ok(got)) => *got as u128 == want,
        (None, Err(InvocationError::IntegerOverflow)) => true,
        _ => false,
    }
}

#[kani::proof_for_contract(get_variant_selector)]
#[kani::unwind(2)]
fn c14_variant_selector_contract() {
    let n: usize = kani::any();
    let index: usize = kani::any();
    let r = get_variant_selector(n, index);
    kani::cover!(r.is_err(), "reach:overflow-branch");
    kani::cover!(r.is_ok() && n > 2, "reach:jump-table-branch");
    kani::cover!(n <= 2, "reach:small-enum");
}

// Same statement as a plain harness (a failed `ensures` has no concrete playback).
#[kani::proof]
#[kani::unwind(2)]
fn c14_variant_selector_total() {
    let n: usize = kani::any();
    let index: usize = kani::any();
    kani::assume(index < n);
    kani::cover!(n > 2 && n - index > usize::MAX / 2, "reach:overflow-inputs");
    kani::cover!(n == usize::MAX && index == 0, "reach:extreme");
    let r = get_variant_selector(n, index);
    assert!(selector_post(n, index, &r), "C14 get_variant_selector: Ok(index) for n<=2, Ok(2*(n-index)-1) else, Err(IntegerOverflow) iff 2*(n-index) overflows");
}

// Lemma: within one enum, distinct variant indices get distinct selectors (whenever both exist), so the
// selector identifies the variant.
#[kani::proof]
#[kani::unwind(2)]
fn c14_variant_selector_injective() {
    let n: usize = kani::any();
    let i: usize = kani::any();
    let j: usize = kani::any();
    kani::assume(i < n && j < n && i != j);
    kani::cover!(n > 2, "reach:jump-table-enum");
    kani::cover!(n == 2, "reach:two-variant-enum");
    if let (Ok(a), Ok(b)) = (get_variant_selector(n, i), get_variant_selector(n, j)) {
        assert!(a != b, "C14 get_variant_selector: distinct indices give distinct selectors");
    }
}

// The stated precondition is needed: an index beyond the variant count does panic (n - index underflows).
#[kani::proof]
#[kani::unwind(2)]
#[kani::should_panic]
fn c14_variant_selector_pre_needed() {
    let n: usize = kani::any();
    let index: usize = kani::any();
    kani::assume(n > 2 && index > n);
    kani::cover!(true, "reach:index-out-of-range");
    let _ = get_variant_selector(n, index);
}
