// K unit (C14): `validate_const_enum_data` (crates/cairo-lang-sierra/src/extensions/modules/const_type.rs,
// private; injected as a child module there). It is reached from `ConstType::specialize` with generic
// arguments taken straight from the untrusted program: `Const<Enum<..>, selector, Const<VariantTy, ..>>`.
//
// PRE  none.
// POST (from the property statement / DESIGN 4/C14, not from the body): never panics, for ANY selector
//      (in particular usize::MAX = finding F2, fixed in /repo by f26ea49: `1 + selector` -> checked_add);
//      Ok  <==>  inner data is [Value(selector), Type(c)], 0 <= selector < n_variants, the enum's argument
//      for that variant is a type V, the context knows c, c is a `Const<..>` whose first argument is a type
//      equal to V. In particular Ok ==> selector < n_variants and the variant const type matches.
//
// Domain (BOUNDED, labelled on the harnesses): enum with n_variants in 0..=3 (every count), variant type
// ids symbolic (full u64), one enum argument optionally malformed (a Value instead of a Type); selector =
// BigInt::from(symbolic u64) (full u64, includes usize::MAX) plus the concrete negative -1; the mock
// `TypeSpecializationContext` knows ONE type (symbolic id) whose long id is `Const` or something else, with
// 0 or 1 leading argument that is a Type (symbolic id) or a Value. `extract_const_info`,
// `extract_type_generic_args`, `TypeSpecializationContext::get_type_info`, BigInt -> usize conversion,
// SmolStr / ConcreteTypeId equality all run as real code.
#![allow(dead_code, unused_imports)]
use num_bigint::{BigInt, BigUint};

use super::validate_const_enum_data;
use crate::extensions::SpecializationError;
use crate::extensions::type_specialization_context::TypeSpecializationContext;
use crate::extensions::types::TypeInfo;
use crate::ids::{ConcreteTypeId, GenericTypeId, UserTypeId};
use crate::program::{ConcreteTypeLongId, GenericArg};

struct Ctx {
    known: u64,
    info: TypeInfo,
}
impl TypeSpecializationContext for Ctx {
    fn try_get_type_info<'a>(&'a self, id: &ConcreteTypeId) -> Option<&'a TypeInfo> {
        if id.id == self.known { Some(&self.info) } else { None }
    }
}
fn info(generic_id: GenericTypeId, generic_args: Vec<GenericArg>) -> TypeInfo {
    TypeInfo {
        long_id: ConcreteTypeLongId { generic_id, generic_args },
        storable: true,
        droppable: true,
        duplicatable: true,
        zero_sized: false,
    }
}
fn ty(id: u64) -> GenericArg {
    GenericArg::Type(ConcreteTypeId::new(id))
}

/// What the harness chose, kept beside the real values so that the oracle never inspects a BigInt or a Vec.
struct Model {
    n_variants: usize,
    variant_ids: [u64; 3],
    /// index (0-based variant) of the enum argument replaced by a Value, if any
    malformed: Option<usize>,
    selector: u64,
    const_ty: u64,
    known: u64,
    known_is_const: bool,
    /// 0: no argument, 1: first argument is Type(first_ty), 2: first argument is a Value
    first_kind: u8,
    first_ty: u64,
}
fn spec_ok(m: &Model) -> bool {
    (m.selector as u128) < m.n_variants as u128
        && m.malformed != Some(m.selector as usize)
        && m.const_ty == m.known
        && m.known_is_const
        && m.first_kind == 1
        && m.first_ty == m.variant_ids[m.selector as usize]
}

fn build(m: &Model) -> (Ctx, TypeInfo) {
    let arg = |k: usize| -> GenericArg {
        if m.malformed == Some(k) { GenericArg::Value(BigInt::from(7u8)) } else { ty(m.variant_ids[k]) }
    };
    let user = GenericArg::UserType(UserTypeId { id: BigUint::from(1u8), debug_name: None });
    // fixed shapes, one per variant count (a symbolic Vec length is what makes CBMC blow up)
    let enum_args = match m.n_variants {
        0 => vec![user],
        1 => vec![user, arg(0)],
        2 => vec![user, arg(0), arg(1)],
        _ => vec![user, arg(0), arg(1), arg(2)],
    };
    let enum_info = info(GenericTypeId::new_inline("Enum"), enum_args);
    let known_args = match m.first_kind {
        0 => vec![],
        1 => vec![ty(m.first_ty), GenericArg::Value(BigInt::from(5u8))],
        _ => vec![GenericArg::Value(BigInt::from(5u8))],
    };
    let gid = if m.known_is_const { GenericTypeId::new_inline("Const") } else { GenericTypeId::new_inline("felt252") };
    (Ctx { known: m.known, info: info(gid, known_args) }, enum_info)
}
fn any_model(n_variants: usize) -> Model {
    let malformed = if kani::any() {
        let k: usize = kani::any();
        kani::assume(k < 3);
        Some(k)
    } else {
        None
    };
    let first_kind: u8 = kani::any();
    kani::assume(first_kind <= 2);
    Model {
        n_variants,
        variant_ids: [kani::any(), kani::any(), kani::any()],
        malformed,
        selector: kani::any(),
        const_ty: kani::any(),
        known: kani::any(),
        known_is_const: kani::any(),
        first_kind,
        first_ty: kani::any(),
    }
}
fn check(n_variants: usize) {
    let m = any_model(n_variants);
    let (ctx, enum_info) = build(&m);
    let inner_data = [GenericArg::Value(BigInt::from(m.selector)), ty(m.const_ty)];
    kani::cover!(m.selector == u64::MAX, "reach:selector-usize-max");
    kani::cover!(spec_ok(&m) || n_variants == 0, "reach:accepting-input");
    let r = validate_const_enum_data(&ctx, &enum_info, &inner_data);
    assert!(r.is_ok() == spec_ok(&m), "C14 validate_const_enum_data: Ok iff selector < n_variants and the variant const type matches");
    if r.is_ok() {
        assert!((m.selector as u128) < n_variants as u128, "C14 validate_const_enum_data: Ok => selector < n_variants");
    }
    // nothing below is under test: skip the drop glue of the big values
    core::mem::forget((r, ctx, enum_info, inner_data));
}

//@ bound="enum with exactly 3 variants; selector full u64; ids full u64; one-type mock context" timeout=900
#[kani::proof]
#[kani::unwind(26)]
fn c14_const_enum_data_3() {
    check(3);
}
//@ bound="enum with exactly 2 variants; selector full u64; ids full u64; one-type mock context" timeout=900
#[kani::proof]
#[kani::unwind(26)]
fn c14_const_enum_data_2() {
    check(2);
}
//@ bound="enum with exactly 1 variant; selector full u64; ids full u64; one-type mock context" timeout=900
#[kani::proof]
#[kani::unwind(26)]
fn c14_const_enum_data_1() {
    check(1);
}
//@ bound="enum with no variant; selector full u64; ids full u64; one-type mock context" timeout=900
#[kani::proof]
#[kani::unwind(26)]
fn c14_const_enum_data_0() {
    check(0);
}

// Shapes of `inner_data` other than [Value, Type], and a negative selector: rejected, never a panic.
fn fixed_model() -> Model {
    Model {
        n_variants: 2,
        variant_ids: [10, 11, 12],
        malformed: None,
        selector: 0,
        const_ty: 20,
        known: 20,
        known_is_const: true,
        first_kind: 1,
        first_ty: 10,
    }
}
fn run_fixed<const N: usize>(data: [GenericArg; N]) -> bool {
    let m = fixed_model();
    let (ctx, enum_info) = build(&m);
    let r = validate_const_enum_data(&ctx, &enum_info, &data);
    let ok = r.is_ok();
    core::mem::forget((r, ctx, enum_info, data));
    ok
}
fn v0() -> GenericArg {
    GenericArg::Value(BigInt::from(0u8))
}
//@ bound="inner_data in {[Value(0), Type] (accepted), [], [Value], [Value, Type, Type]}; 2-variant enum" timeout=900
#[kani::proof]
#[kani::unwind(26)]
fn c14_const_enum_data_lengths() {
    kani::cover!(true, "reach:lengths");
    assert!(run_fixed([v0(), ty(20)]), "C14 validate_const_enum_data: well-formed data accepted");
    assert!(!run_fixed([]), "C14 validate_const_enum_data: empty data rejected");
    assert!(!run_fixed([v0()]), "C14 validate_const_enum_data: missing const type rejected");
    assert!(!run_fixed([v0(), ty(20), ty(20)]), "C14 validate_const_enum_data: trailing data rejected");
}
//@ bound="inner_data in {[Type, Type], [Value, Value], [Value(-1), Type]}; 2-variant enum" timeout=900
#[kani::proof]
#[kani::unwind(26)]
fn c14_const_enum_data_kinds() {
    kani::cover!(true, "reach:kinds");
    assert!(!run_fixed([ty(20), ty(20)]), "C14 validate_const_enum_data: selector must be a value");
    assert!(!run_fixed([v0(), v0()]), "C14 validate_const_enum_data: const type must be a type");
    assert!(!run_fixed([GenericArg::Value(BigInt::from(-1i8)), ty(20)]), "C14 validate_const_enum_data: negative selector rejected");
}
