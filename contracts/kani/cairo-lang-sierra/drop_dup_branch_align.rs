// K unit (C15): the signatures of the three libfuncs on which exact-once use rests:
//   `drop<T>`  - the only way to discard a variable: allowed iff T is droppable;
//   `dup<T>`   - the only way to use a variable twice: allowed iff T is duplicatable;
//   `branch_align` - what `compile` demands at merging branches (`is_branch_align` keys on exactly
//                    one branch with `SierraApChange::BranchAlign`).
// Real code: `<DropLibfunc as SignatureOnlyGenericLibfunc>::specialize_signature` (modules/drop.rs),
// `<DupLibfunc as ...>::specialize_signature` (modules/duplicate.rs),
// `<BranchAlignLibfunc as NoGenericArgsGenericLibfunc>::specialize_signature` (modules/branch_align.rs)
// and the blanket adaptor in lib_func.rs, run against a mock `SignatureSpecializationContext` that
// knows ONE type (id symbolic, full u64) whose `TypeInfo` flags are all symbolic.
//
// Oracle (from the property statement): with the single generic argument `Type(q)`:
//   drop: Ok iff q is known and droppable; the signature consumes one parameter of type q and
//         produces NO output variable, in one (fallthrough) branch;
//   dup:  Ok iff q is known and duplicatable; one parameter of type q, exactly two outputs, both
//         of type q and both "the same as parameter 0";
//   unknown q => Err(MissingTypeInfo(q)); flag off => Err(UnsupportedGenericArg);
//   any other argument shape => Err.
#![allow(dead_code, unused_imports)]
use num_bigint::BigInt;

use super::DropLibfunc;
use crate::extensions::lib_func::{
    LibfuncSignature, OutputVarReferenceInfo, SierraApChange, SignatureOnlyGenericLibfunc, SignatureSpecializationContext,
};
use crate::extensions::modules::branch_align::BranchAlignLibfunc;
use crate::extensions::modules::duplicate::DupLibfunc;
use crate::extensions::type_specialization_context::TypeSpecializationContext;
use crate::extensions::types::TypeInfo;
use crate::extensions::{NoGenericArgsGenericLibfunc, SpecializationError};
use crate::ids::{ConcreteLibfuncId, ConcreteTypeId, FunctionId, GenericTypeId};
use crate::program::{ConcreteTypeLongId, FunctionSignature, GenericArg};

struct Ctx {
    known: u64,
    info: TypeInfo,
}
impl TypeSpecializationContext for Ctx {
    fn try_get_type_info<'a>(&'a self, id: &ConcreteTypeId) -> Option<&'a TypeInfo> {
        if id.id == self.known { Some(&self.info) } else { None }
    }
}
impl SignatureSpecializationContext for Ctx {
    fn try_get_concrete_type(&self, _id: GenericTypeId, _a: &[GenericArg]) -> Option<ConcreteTypeId> {
        None
    }
    fn try_get_function_signature(&self, _f: &FunctionId) -> Option<FunctionSignature> {
        None
    }
}
fn any_ctx() -> Ctx {
    Ctx {
        known: kani::any(),
        info: TypeInfo {
            long_id: ConcreteTypeLongId { generic_id: GenericTypeId::new_inline("T"), generic_args: vec![] },
            storable: kani::any(),
            droppable: kani::any(),
            duplicatable: kani::any(),
            zero_sized: kani::any(),
        },
    }
}
fn one_plain_branch(sig: &LibfuncSignature) -> bool {
    sig.branch_signatures.len() == 1 && sig.fallthrough == Some(0)
}

//@ timeout=900
#[kani::proof]
#[kani::unwind(4)]
fn c15_drop_signature() {
    let ctx = any_ctx();
    let q: u64 = kani::any();
    let args = [GenericArg::Type(ConcreteTypeId::new(q))];
    kani::cover!(q == ctx.known && ctx.info.droppable, "reach:known-droppable");
    kani::cover!(q == ctx.known && !ctx.info.droppable && ctx.info.duplicatable && ctx.info.storable, "reach:known-not-droppable");
    let r = SignatureOnlyGenericLibfunc::specialize_signature(&DropLibfunc::default(), &ctx, &args);
    assert!(r.is_ok() == (q == ctx.known && ctx.info.droppable), "C15 drop: accepted iff the type is known and droppable");
    match r {
        Ok(sig) => {
            assert!(sig.param_signatures.len() == 1 && sig.param_signatures[0].ty.id == q, "C15 drop: consumes exactly one parameter of the given type");
            assert!(one_plain_branch(&sig) && sig.branch_signatures[0].vars.is_empty(), "C15 drop: one branch, no output variable");
        }
        Err(SpecializationError::UnsupportedGenericArg) => assert!(q == ctx.known && !ctx.info.droppable, "C15 drop: UnsupportedGenericArg iff known but not droppable"),
        Err(SpecializationError::MissingTypeInfo(t)) => assert!(q != ctx.known && t.id == q, "C15 drop: MissingTypeInfo iff the type is unknown"),
        Err(_) => assert!(false, "C15 drop: no other error for a single type argument"),
    }
}

//@ timeout=900
#[kani::proof]
#[kani::unwind(4)]
fn c15_dup_signature() {
    let ctx = any_ctx();
    let q: u64 = kani::any();
    let args = [GenericArg::Type(ConcreteTypeId::new(q))];
    kani::cover!(q == ctx.known && ctx.info.duplicatable, "reach:known-duplicatable");
    kani::cover!(q == ctx.known && !ctx.info.duplicatable && ctx.info.droppable && ctx.info.storable, "reach:known-not-duplicatable");
    let r = SignatureOnlyGenericLibfunc::specialize_signature(&DupLibfunc::default(), &ctx, &args);
    assert!(r.is_ok() == (q == ctx.known && ctx.info.duplicatable), "C15 dup: accepted iff the type is known and duplicatable");
    match r {
        Ok(sig) => {
            assert!(sig.param_signatures.len() == 1 && sig.param_signatures[0].ty.id == q, "C15 dup: consumes exactly one parameter of the given type");
            assert!(one_plain_branch(&sig) && sig.branch_signatures[0].vars.len() == 2, "C15 dup: one branch, exactly two output variables");
            let v = &sig.branch_signatures[0].vars;
            assert!(
                v[0].ty.id == q
                    && v[1].ty.id == q
                    && matches!(v[0].ref_info, OutputVarReferenceInfo::SameAsParam { param_idx: 0 })
                    && matches!(v[1].ref_info, OutputVarReferenceInfo::SameAsParam { param_idx: 0 }),
                "C15 dup: both outputs have the given type and are the same as parameter 0"
            );
        }
        Err(SpecializationError::UnsupportedGenericArg) => assert!(q == ctx.known && !ctx.info.duplicatable, "C15 dup: UnsupportedGenericArg iff known but not duplicatable"),
        Err(SpecializationError::MissingTypeInfo(t)) => assert!(q != ctx.known && t.id == q, "C15 dup: MissingTypeInfo iff the type is unknown"),
        Err(_) => assert!(false, "C15 dup: no other error for a single type argument"),
    }
}

/// Argument lists that are not a single `Type`: rejected whatever the flags of the known type.
fn rejected_by_both(ctx: &Ctx, args: &[GenericArg]) {
    kani::cover!(ctx.info.droppable && ctx.info.duplicatable, "reach:droppable-and-duplicatable");
    let r = SignatureOnlyGenericLibfunc::specialize_signature(&DropLibfunc::default(), ctx, args);
    assert!(r.is_err(), "C15 drop: any argument list other than a single type is rejected");
    let r = SignatureOnlyGenericLibfunc::specialize_signature(&DupLibfunc::default(), ctx, args);
    assert!(r.is_err(), "C15 dup: any argument list other than a single type is rejected");
}
//@ timeout=900
#[kani::proof]
#[kani::unwind(4)]
fn c15_drop_dup_no_argument_or_two_types() {
    let ctx = any_ctx();
    let two = [GenericArg::Type(ConcreteTypeId::new(ctx.known)), GenericArg::Type(ConcreteTypeId::new(ctx.known))];
    rejected_by_both(&ctx, if kani::any() { &two[..] } else { &[] });
}
//@ timeout=900
#[kani::proof]
#[kani::unwind(4)]
fn c15_drop_dup_single_non_type_argument() {
    let ctx = any_ctx();
    let arg = match kani::any::<u8>() % 3 {
        0 => GenericArg::UserFunc(FunctionId::new(kani::any())),
        1 => GenericArg::Libfunc(ConcreteLibfuncId::new(kani::any())),
        _ => GenericArg::Value(BigInt::from(5)),
    };
    rejected_by_both(&ctx, &[arg]);
}

//@ timeout=900
#[kani::proof]
#[kani::unwind(4)]
fn c15_branch_align_signature() {
    let ctx = any_ctx();
    // the method of modules/branch_align.rs itself
    let r = NoGenericArgsGenericLibfunc::specialize_signature(&BranchAlignLibfunc::default(), &ctx);
    match r {
        Ok(sig) => {
            assert!(sig.param_signatures.is_empty(), "C15 branch_align: takes no parameter");
            assert!(one_plain_branch(&sig) && sig.branch_signatures[0].vars.is_empty(), "C15 branch_align: one branch, no output variable");
            assert!(matches!(sig.branch_signatures[0].ap_change, SierraApChange::BranchAlign), "C15 branch_align: ap change is SierraApChange::BranchAlign");
        }
        Err(_) => assert!(false, "C15 branch_align: always specializes"),
    }
    // through the adaptor every caller uses: no generic arguments accepted
    let with_arg = [GenericArg::Type(ConcreteTypeId::new(ctx.known))];
    let r = SignatureOnlyGenericLibfunc::specialize_signature(&BranchAlignLibfunc::default(), &ctx, if kani::any() { &with_arg[..] } else { &[] });
    if let Ok(sig) = &r {
        assert!(matches!(sig.branch_signatures[0].ap_change, SierraApChange::BranchAlign) && sig.branch_signatures.len() == 1, "C15 branch_align (adaptor): same signature");
    }
}
