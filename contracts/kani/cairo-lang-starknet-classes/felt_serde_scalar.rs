// K unit (C18 + C14): the scalar element codecs of the private trait `Felt252Serde`
// (crates/cairo-lang-starknet-classes/src/felt252_serde.rs), `vec_with_bounded_capacity` and
// `version_id_from_felt252s`. Injected as a child module of felt252_serde.rs.
//
// Oracles (from the property statements, not from the bodies):
//  C18  a value survives serialisation: serialize appends exactly felts(T) felts and does not touch
//       what is already in the output (frame); deserialize on exactly those felts gives back the value
//       (ids: equal `id`, `debug_name` dropped = "up to a consistent renaming") and consumes them all.
//  C14  deserialize is total on untrusted felts: for any felt (any u128 value, or one of the wide
//       constants 2^128, 2^200, P-1, 2^256-1) and any iterator of 0..=4 felts it returns, never panics;
//       Err(InvalidInputForDeserialization) exactly when the iterator is exhausted / the value does not
//       fit the target integer / the GenericArg tag is not in 0..=5; it consumes exactly the felts of
//       its own element (never reads into the next element).
//
// Why u128 + wide constants is enough (stated argument, DESIGN 4/C14): these codecs only call
// `BigUint::to_usize/to_u64` (branch on the digit count) or clone the felt; digits beyond the second
// never influence control flow. Symbolic digit vectors do not terminate under CBMC (DESIGN 3).
//
// Stated preconditions (each with a reachability cover, and a should_panic / collision harness that
// shows the excluded input really misbehaves):
//  P1  BranchTarget::Statement(StatementIdx(usize::MAX)) is excluded from the inverse-pair claim: it
//      collides with the Fallthrough sentinel (unreachable for valid programs, next.0 < statements.len()).
//  P2  vec_with_bounded_capacity: max_remaining_size <= 2^40 (A3: it is the length of an in-memory felt
//      slice). Without it Vec::with_capacity panics with `capacity overflow`.
//  P3  GenericArg tags 2 and 5 (Value, BigInt sign code) are excluded from the symbolic harnesses (out of
//      CBMC's reach); they are covered on concrete samples here and by the native unit n_felt_serde_bigint.
#![allow(dead_code, unused_imports)]
use cairo_lang_sierra::ids::{ConcreteLibfuncId, ConcreteTypeId, FunctionId, UserTypeId, VarId};
use cairo_lang_sierra::program::{BranchTarget, GenericArg, StatementIdx};
use cairo_lang_utils::bigint::BigUintAsHex;
use num_bigint::{BigInt, BigUint};
use num_traits::ToPrimitive;

use super::{Felt252Serde, Felt252SerdeError, vec_with_bounded_capacity, version_id_from_felt252s};
use crate::compiler_version::VersionId;

// ---------------------------------------------------------------- felts
/// The four fixed wide felts (little-endian u32 digits): 2^128, 2^200, P-1, 2^256-1,
/// P = 2^251 + 17*2^192 + 1.
fn wide(i: usize) -> BigUint {
    match i {
        0 => BigUint::new(vec![0, 0, 0, 0, 1]),
        1 => BigUint::new(vec![0, 0, 0, 0, 0, 0, 256]),
        2 => BigUint::new(vec![0, 0, 0, 0, 0, 0, 17, 0x0800_0000]),
        _ => BigUint::new(vec![u32::MAX, u32::MAX, u32::MAX, u32::MAX, u32::MAX, u32::MAX, u32::MAX, u32::MAX]),
    }
}
const N_WIDE: usize = 4;
fn hex(v: BigUint) -> BigUintAsHex { BigUintAsHex { value: v } }
/// Digit-wise equality of two felts (BigUint `==` is a memcmp that needs a 33-fold unwinding).
fn same_felt(a: &BigUint, b: &BigUint) -> bool {
    let (mut i, mut j) = (a.iter_u64_digits(), b.iter_u64_digits());
    loop {
        match (i.next(), j.next()) {
            (None, None) => return true,
            (Some(x), Some(y)) if x == y => {}
            _ => return false,
        }
    }
}
fn is_invalid_input<T>(r: &Result<T, Felt252SerdeError>) -> bool {
    matches!(r, Err(Felt252SerdeError::InvalidInputForDeserialization))
}

// ---------------------------------------------------------------- C18 inverse pair
/// Serializes `x` behind a one-felt prefix, checks the frame, deserializes exactly the appended felts
/// and checks full consumption. Returns the decoded value for the caller's equality check.
fn roundtrip<T: Felt252Serde>(x: &T, felts: usize) -> T {
    let p: u64 = kani::any();
    let mut out: Vec<BigUintAsHex> = vec![hex(BigUint::from(p))];
    let r = x.serialize(&mut out);
    assert!(r.is_ok(), "C18 serialize succeeds");
    assert!(out.len() == 1 + felts, "C18 serialize appends exactly felts(T) elements");
    assert!(out[0].value.to_u64() == Some(p), "C18 serialize leaves the prefix untouched");
    let mut it = out[1..].iter().map(|v| &v.value);
    let y = T::deserialize(&mut it);
    assert!(it.len() == 0, "C18 deserialize consumes exactly the felts serialize appended");
    match y {
        Ok(v) => v,
        Err(_) => {
            assert!(false, "C18 deserialize(serialize(x)) is Ok");
            unreachable!()
        }
    }
}

//@ props=C18
#[kani::proof]
#[kani::unwind(6)]
fn rt_usize() {
    let x: usize = kani::any();
    assert!(roundtrip(&x, 1) == x, "C18 usize: deserialize(serialize(x)) == x");
}
//@ props=C18
#[kani::proof]
#[kani::unwind(6)]
fn rt_u64() {
    let x: u64 = kani::any();
    assert!(roundtrip(&x, 1) == x, "C18 u64: deserialize(serialize(x)) == x");
}
//@ props=C18
#[kani::proof]
#[kani::unwind(6)]
fn rt_statement_idx() {
    let x = StatementIdx(kani::any());
    assert!(roundtrip(&x, 1).0 == x.0, "C18 StatementIdx: deserialize(serialize(x)) == x");
}
//@ props=C18
#[kani::proof]
#[kani::unwind(6)]
fn rt_concrete_type_id() {
    let x = ConcreteTypeId::new(kani::any());
    let y = roundtrip(&x, 1);
    assert!(y.id == x.id && y.debug_name.is_none(), "C18 ConcreteTypeId: same id, debug_name dropped");
}
//@ props=C18
#[kani::proof]
#[kani::unwind(6)]
fn rt_concrete_libfunc_id() {
    let x = ConcreteLibfuncId::new(kani::any());
    let y = roundtrip(&x, 1);
    assert!(y.id == x.id && y.debug_name.is_none(), "C18 ConcreteLibfuncId: same id, debug_name dropped");
}
//@ props=C18
#[kani::proof]
#[kani::unwind(6)]
fn rt_var_id() {
    // one id codec is exercised with a debug name present: it must be dropped, the id kept
    let x = VarId { id: kani::any(), debug_name: if kani::any() { Some("v".into()) } else { None } };
    let y = roundtrip(&x, 1);
    assert!(y.id == x.id && y.debug_name.is_none(), "C18 VarId: same id, debug_name dropped");
}
//@ props=C18
#[kani::proof]
#[kani::unwind(6)]
fn rt_function_id() {
    let x = FunctionId::new(kani::any());
    let y = roundtrip(&x, 1);
    assert!(y.id == x.id && y.debug_name.is_none(), "C18 FunctionId: same id, debug_name dropped");
}
/// Three concrete felts of 2, 3 and 4 digits: 2^64, 2^128, P-1.
fn multi_digit(i: usize) -> BigUint {
    match i {
        0 => BigUint::new(vec![0, 0, 1]),
        1 => wide(0),
        _ => wide(2),
    }
}
const N_MULTI: usize = 3;
/// UserTypeId carries a whole felt and its codec never looks at the digits (clone on both sides).
/// Complete over ids < 2^64; ids of 2..=4 digits on three concrete values (a symbolic two-digit id through
/// both clones exhausts 22 GB under CBMC - measured).
//@ props=C18 bound="id < 2^64 symbolic; wider ids in rt_user_type_id_wide"
#[kani::proof]
#[kani::unwind(6)]
fn rt_user_type_id() {
    let v: u64 = kani::any();
    let x = UserTypeId { id: BigUint::from(v), debug_name: None };
    let y = roundtrip(&x, 1);
    assert!(y.id.to_u64() == Some(v) && y.debug_name.is_none(), "C18 UserTypeId: same id, debug_name dropped");
}
//@ props=C18 bound="ids 2^64, 2^128, P-1 (2, 3 and 4 digits)"
#[kani::proof]
#[kani::unwind(6)]
fn rt_user_type_id_wide() {
    for i in 0..N_MULTI {
        let x = UserTypeId { id: multi_digit(i), debug_name: None };
        let y = roundtrip(&x, 1);
        assert!(same_felt(&y.id, &multi_digit(i)) && y.debug_name.is_none(), "C18 UserTypeId (multi-digit felt): same id, debug_name dropped");
    }
}
//@ props=C18
#[kani::proof]
#[kani::unwind(6)]
fn rt_branch_target() {
    let t = if kani::any() {
        BranchTarget::Fallthrough
    } else {
        let i: usize = kani::any();
        kani::assume(i != usize::MAX); // P1
        kani::cover!(i == usize::MAX - 1, "reach:P1 largest admitted statement index");
        BranchTarget::Statement(StatementIdx(i))
    };
    assert!(roundtrip(&t, 1) == t, "C18 BranchTarget: deserialize(serialize(x)) == x");
}
/// P1 documented: the excluded value does collide with the sentinel (so the exclusion is needed and
/// exact: it is the only value of the type that does not round-trip).
//@ props=C18
#[kani::proof]
#[kani::unwind(6)]
fn rt_branch_target_sentinel_collision() {
    let t = BranchTarget::Statement(StatementIdx(usize::MAX));
    assert!(roundtrip(&t, 1) == BranchTarget::Fallthrough, "C18 BranchTarget: Statement(usize::MAX) decodes as the Fallthrough sentinel (declared exception P1)");
}
//@ props=C18
#[kani::proof]
#[kani::unwind(6)]
fn rt_version_id() {
    let x = VersionId { major: kani::any(), minor: kani::any(), patch: kani::any() };
    assert!(roundtrip(&x, 3) == x, "C18 VersionId: deserialize(serialize(x)) == x");
}
//@ props=C18 bound="user type id < 2^64 symbolic; wider ids: native unit n_felt_serde_bigint (three round trips of multi-digit ids exhaust the SAT solver memory - measured)"
#[kani::proof]
#[kani::unwind(6)]
fn rt_generic_arg_user_type() {
    let v: u64 = kani::any();
    let x = GenericArg::UserType(UserTypeId { id: BigUint::from(v), debug_name: None });
    match roundtrip(&x, 2) {
        GenericArg::UserType(y) => assert!(y.id.to_u64() == Some(v) && y.debug_name.is_none(), "C18 GenericArg::UserType: same id"),
        _ => assert!(false, "C18 GenericArg::UserType: variant preserved"),
    }
}
//@ props=C18
#[kani::proof]
#[kani::unwind(6)]
fn rt_generic_arg_type() {
    let v: u64 = kani::any();
    match roundtrip(&GenericArg::Type(ConcreteTypeId::new(v)), 2) {
        GenericArg::Type(y) => assert!(y.id == v && y.debug_name.is_none(), "C18 GenericArg::Type: same id"),
        _ => assert!(false, "C18 GenericArg::Type: variant preserved"),
    }
}
//@ props=C18
#[kani::proof]
#[kani::unwind(6)]
fn rt_generic_arg_user_func() {
    let v: u64 = kani::any();
    match roundtrip(&GenericArg::UserFunc(FunctionId::new(v)), 2) {
        GenericArg::UserFunc(y) => assert!(y.id == v && y.debug_name.is_none(), "C18 GenericArg::UserFunc: same id"),
        _ => assert!(false, "C18 GenericArg::UserFunc: variant preserved"),
    }
}
//@ props=C18
#[kani::proof]
#[kani::unwind(6)]
fn rt_generic_arg_libfunc() {
    let v: u64 = kani::any();
    match roundtrip(&GenericArg::Libfunc(ConcreteLibfuncId::new(v)), 2) {
        GenericArg::Libfunc(y) => assert!(y.id == v && y.debug_name.is_none(), "C18 GenericArg::Libfunc: same id"),
        _ => assert!(false, "C18 GenericArg::Libfunc: variant preserved"),
    }
}

// ---------------------------------------------------------------- C14 totality of deserialize
fn fits_usize(v: u128) -> bool { v <= usize::MAX as u128 }
fn fits_u64(v: u128) -> bool { v <= u64::MAX as u128 }
fn small(k: u8) -> BigUint { BigUint::from(k) }

/// Runs the real `T::deserialize` on an iterator over the first `n` of the given felts (the iterator
/// type is the one `version_id_from_felt252s` builds: a slice iterator mapped to `&BigUint`).
/// Returns the result and the number of felts it consumed.
fn deser_n<T: Felt252Serde>(felts: &[&BigUint; 4], n: usize) -> (Result<T, Felt252SerdeError>, usize) {
    let mut it = felts[..n].iter().map(|f| *f);
    let y = T::deserialize(&mut it);
    (y, n - it.len())
}
/// Symbolic iterator length 0..=4 (the slice has a fixed shape; only its length is symbolic).
fn any_len() -> usize {
    let n: usize = kani::any();
    kani::assume(n <= 4);
    kani::cover!(n == 0, "reach:exhausted iterator");
    kani::cover!(n == 4, "reach:four felts");
    n
}
/// One-felt codec whose felt must fit an integer type, on every u128-valued felt followed by 0..=3
/// felts of the next elements. `decoded_as(x, v)` says that x is the value the specification assigns
/// to the felt v.
fn total_one_felt<T: Felt252Serde>(fits: fn(u128) -> bool, decoded_as: fn(&T, u128) -> bool) {
    let v: u128 = kani::any();
    let (f0, f1, f2) = (BigUint::from(v), small(0), small(3));
    let felts = [&f0, &f1, &f2, &f1];
    let n = any_len();
    let (y, consumed) = deser_n::<T>(&felts, n);
    assert!(consumed == if n == 0 { 0 } else { 1 }, "C14 deserialize consumes exactly its one felt (none when exhausted)");
    match &y {
        Ok(x) => assert!(n >= 1 && fits(v) && decoded_as(x, v), "C14 Ok only when a felt is present and fits; decoded value is the felt's value"),
        Err(_) => assert!((n == 0 || !fits(v)) && is_invalid_input(&y), "C14 Err(InvalidInputForDeserialization) exactly when exhausted or the felt does not fit"),
    }
}
/// The same codec on the wide constants (>= 2^128): never fits.
fn total_one_felt_wide<T: Felt252Serde>(w: &[BigUint; N_WIDE]) {
    let s = small(1);
    for i in 0..N_WIDE {
        let felts = [&w[i], &s, &w[(i + 1) % N_WIDE], &s];
        let (y, consumed) = deser_n::<T>(&felts, 3);
        assert!(consumed == 1 && is_invalid_input(&y), "C14 wide felt (>= 2^128): Err(InvalidInputForDeserialization), one felt consumed, no panic");
    }
}
fn wides() -> [BigUint; N_WIDE] { [wide(0), wide(1), wide(2), wide(3)] }

//@ props=C14
#[kani::proof]
#[kani::unwind(3)]
fn total_usize() {
    total_one_felt::<usize>(fits_usize, |x, v| *x as u128 == v);
}
//@ props=C14
#[kani::proof]
#[kani::unwind(3)]
fn total_u64() {
    total_one_felt::<u64>(fits_u64, |x, v| *x as u128 == v);
}
//@ props=C14
#[kani::proof]
#[kani::unwind(3)]
fn total_statement_idx() {
    total_one_felt::<StatementIdx>(fits_usize, |x, v| x.0 as u128 == v);
}
//@ props=C14
#[kani::proof]
#[kani::unwind(3)]
fn total_concrete_type_id() {
    total_one_felt::<ConcreteTypeId>(fits_u64, |x, v| x.id as u128 == v && x.debug_name.is_none());
}
//@ props=C14
#[kani::proof]
#[kani::unwind(3)]
fn total_concrete_libfunc_id() {
    total_one_felt::<ConcreteLibfuncId>(fits_u64, |x, v| x.id as u128 == v && x.debug_name.is_none());
}
//@ props=C14
#[kani::proof]
#[kani::unwind(3)]
fn total_var_id() {
    total_one_felt::<VarId>(fits_u64, |x, v| x.id as u128 == v && x.debug_name.is_none());
}
//@ props=C14
#[kani::proof]
#[kani::unwind(3)]
fn total_function_id() {
    total_one_felt::<FunctionId>(fits_u64, |x, v| x.id as u128 == v && x.debug_name.is_none());
}
//@ props=C14
#[kani::proof]
#[kani::unwind(3)]
fn total_branch_target() {
    total_one_felt::<BranchTarget>(fits_usize, |x, v| match x {
        BranchTarget::Fallthrough => v == usize::MAX as u128,
        BranchTarget::Statement(i) => i.0 as u128 == v && v != usize::MAX as u128,
    });
}
/// All integer-valued one-felt codecs on the four wide constants (concrete inputs), in two harnesses.
//@ props=C14
#[kani::proof]
#[kani::unwind(6)]
fn total_one_felt_wide_ints() {
    let w = wides();
    total_one_felt_wide::<usize>(&w);
    total_one_felt_wide::<u64>(&w);
    total_one_felt_wide::<StatementIdx>(&w);
    total_one_felt_wide::<BranchTarget>(&w);
}
//@ props=C14
#[kani::proof]
#[kani::unwind(6)]
fn total_one_felt_wide_ids() {
    let w = wides();
    total_one_felt_wide::<ConcreteTypeId>(&w);
    total_one_felt_wide::<ConcreteLibfuncId>(&w);
    total_one_felt_wide::<VarId>(&w);
    total_one_felt_wide::<FunctionId>(&w);
}
/// UserTypeId takes any felt whatsoever: Ok iff a felt is present; the id is that felt.
//@ props=C14
#[kani::proof]
#[kani::unwind(3)]
fn total_user_type_id() {
    let v: u128 = kani::any();
    let (f0, f1) = (BigUint::from(v), small(9));
    let felts = [&f0, &f1, &f1, &f1];
    let n = any_len();
    let (y, consumed) = deser_n::<UserTypeId>(&felts, n);
    assert!(consumed == if n == 0 { 0 } else { 1 }, "C14 UserTypeId: consumes exactly its one felt (none when exhausted)");
    match &y {
        Ok(x) => assert!(n >= 1 && x.id.to_u128() == Some(v) && x.debug_name.is_none(), "C14 UserTypeId: Ok only when a felt is present; id is the felt, no debug name"),
        Err(_) => assert!(n == 0 && is_invalid_input(&y), "C14 UserTypeId: Err(InvalidInputForDeserialization) exactly when exhausted"),
    }
}
//@ props=C14
#[kani::proof]
#[kani::unwind(6)]
fn total_user_type_id_wide() {
    let w = wides();
    let s = small(1);
    for i in 0..N_WIDE {
        let felts = [&w[i], &s, &s, &s];
        let (y, consumed) = deser_n::<UserTypeId>(&felts, 2);
        assert!(consumed == 1, "C14 UserTypeId (wide felt): consumes exactly one felt");
        match y {
            Ok(x) => assert!(same_felt(&x.id, &w[i]) && x.debug_name.is_none(), "C14 UserTypeId (wide felt): id is the felt"),
            Err(_) => assert!(false, "C14 UserTypeId (wide felt): accepted, no panic"),
        }
    }
}
/// VersionId = three usize felts; decoding stops at the first felt that is missing or does not fit.
//@ props=C14
#[kani::proof]
#[kani::unwind(3)]
fn total_version_id() {
    let v: [u128; 3] = kani::any();
    let (f0, f1, f2, f3) = (BigUint::from(v[0]), BigUint::from(v[1]), BigUint::from(v[2]), small(7));
    let felts = [&f0, &f1, &f2, &f3];
    let n = any_len();
    let (y, consumed) = deser_n::<VersionId>(&felts, n);
    // number of leading felts that are present and fit usize
    let good = if n < 1 || !fits_usize(v[0]) { 0 } else if n < 2 || !fits_usize(v[1]) { 1 } else if n < 3 || !fits_usize(v[2]) { 2 } else { 3 };
    let want_ok = good == 3;
    let want_consumed = if want_ok { 3 } else if good < n { good + 1 } else { n };
    assert!(consumed == want_consumed, "C14 VersionId: consumes its three felts, or stops at the first missing/oversize one");
    match &y {
        Ok(x) => assert!(want_ok && x.major as u128 == v[0] && x.minor as u128 == v[1] && x.patch as u128 == v[2], "C14 VersionId: Ok only when three felts are present and fit usize; (major, minor, patch) in order"),
        Err(_) => assert!(!want_ok && is_invalid_input(&y), "C14 VersionId: Err(InvalidInputForDeserialization) exactly when a felt is missing or does not fit"),
    }
}
//@ props=C14
#[kani::proof]
#[kani::unwind(6)]
fn total_version_id_wide() {
    let w = wides();
    let s = small(2);
    for pos in 0..3 {
        for i in 0..N_WIDE {
            let mut felts = [&s, &s, &s, &s];
            felts[pos] = &w[i];
            let (y, consumed) = deser_n::<VersionId>(&felts, 4);
            assert!(consumed == pos + 1 && is_invalid_input(&y), "C14 VersionId: wide felt at any of the three positions => Err, stops there, no panic");
        }
    }
}

// ---------------------------------------------------------------- GenericArg: tag table and totality
/// The tag table of the specification (DESIGN 4/C18): 0 UserType, 1 Type, 2 Value >= 0, 3 UserFunc,
/// 4 Libfunc, 5 Value < 0 (magnitude).
fn spec_tag(x: &GenericArg) -> u64 {
    match x {
        GenericArg::UserType(_) => 0,
        GenericArg::Type(_) => 1,
        GenericArg::Value(v) => if v.sign() == num_bigint::Sign::Minus { 5 } else { 2 },
        GenericArg::UserFunc(_) => 3,
        GenericArg::Libfunc(_) => 4,
    }
}
fn emitted_tag(x: &GenericArg) -> Option<u64> {
    let mut out: Vec<BigUintAsHex> = Vec::new();
    let r = x.serialize(&mut out);
    assert!(r.is_ok() && out.len() == 2, "C18 GenericArg: serialize emits tag and payload (two felts)");
    out[0].value.to_u64()
}
/// serialize side of the table, ids symbolic
//@ props=C18
#[kani::proof]
#[kani::unwind(6)]
fn tag_table_serialize() {
    let id: u64 = kani::any();
    let args = [
        GenericArg::UserType(UserTypeId { id: BigUint::from(id), debug_name: None }),
        GenericArg::Type(ConcreteTypeId::new(id)),
        GenericArg::UserFunc(FunctionId::new(id)),
        GenericArg::Libfunc(ConcreteLibfuncId::new(id)),
    ];
    assert!(emitted_tag(&args[0]) == Some(0), "C18 GenericArg tag table: UserType is serialized with tag 0");
    assert!(emitted_tag(&args[1]) == Some(1), "C18 GenericArg tag table: Type is serialized with tag 1");
    assert!(emitted_tag(&args[2]) == Some(3), "C18 GenericArg tag table: UserFunc is serialized with tag 3");
    assert!(emitted_tag(&args[3]) == Some(4), "C18 GenericArg tag table: Libfunc is serialized with tag 4");
}
/// Value tags on concrete samples (the BigInt sign code with symbolic values is out of CBMC's reach;
/// boundary magnitudes are in the native unit n_felt_serde_bigint).
//@ props=C18 bound="Value in {0, 7, -7}"
#[kani::proof]
#[kani::unwind(6)]
fn tag_table_serialize_value_samples() {
    assert!(emitted_tag(&GenericArg::Value(BigInt::from(0))) == Some(2), "C18 GenericArg tag table: Value(0) is serialized with tag 2");
    assert!(emitted_tag(&GenericArg::Value(BigInt::from(7))) == Some(2), "C18 GenericArg tag table: Value(7) is serialized with tag 2");
    assert!(emitted_tag(&GenericArg::Value(BigInt::from(-7))) == Some(5), "C18 GenericArg tag table: Value(-7) is serialized with tag 5");
}
/// deserialize side of the table and totality: tag and payload are arbitrary u128-valued felts, the
/// iterator has 0..=4 felts. P3: tags 2 and 5 excluded here.
#[kani::proof]
#[kani::unwind(3)]
fn total_generic_arg() {
    let tag: u128 = kani::any();
    let pay: u128 = kani::any();
    kani::assume(tag != 2 && tag != 5); // P3
    kani::cover!(tag == 4, "reach:P3 admitted tag");
    kani::cover!(tag > u64::MAX as u128, "reach:P3 oversize tag");
    let (f0, f1, f2) = (BigUint::from(tag), BigUint::from(pay), small(1));
    let felts = [&f0, &f1, &f2, &f2];
    let n = any_len();
    let (y, consumed) = deser_n::<GenericArg>(&felts, n);
    let known_tag = tag == 0 || tag == 1 || tag == 3 || tag == 4;
    let want_consumed = if n == 0 { 0 } else if !known_tag || n == 1 { 1 } else { 2 };
    let want_ok = known_tag && n >= 2 && (tag == 0 || fits_u64(pay));
    assert!(consumed == want_consumed, "C14 GenericArg: consumes tag and payload only (stops after an unknown tag or at exhaustion)");
    match &y {
        Ok(x) => {
            assert!(want_ok, "C14 GenericArg: Ok only for a tag of the table with a payload that fits");
            assert!(spec_tag(x) as u128 == tag, "C18 GenericArg tag table: deserialize maps each tag back to its variant");
            let same_payload = match x {
                GenericArg::UserType(i) => i.id.to_u128() == Some(pay) && i.debug_name.is_none(),
                GenericArg::Type(i) => i.id as u128 == pay && i.debug_name.is_none(),
                GenericArg::UserFunc(i) => i.id as u128 == pay && i.debug_name.is_none(),
                GenericArg::Libfunc(i) => i.id as u128 == pay && i.debug_name.is_none(),
                GenericArg::Value(_) => false,
            };
            assert!(same_payload, "C14 GenericArg: decoded id is the payload felt");
        }
        Err(_) => assert!(!want_ok && is_invalid_input(&y), "C14 GenericArg: Err(InvalidInputForDeserialization) exactly when exhausted, tag >= 6 (or not a usize), or the payload does not fit"),
    }
}
/// wide constants as tag (=> Err after one felt) and as payload (u64 ids: Err; UserType: accepted)
//@ props=C14
#[kani::proof]
#[kani::unwind(6)]
fn total_generic_arg_wide() {
    let w = wides();
    let s = small(1);
    for i in 0..N_WIDE {
        let felts = [&w[i], &s, &s, &s];
        let (y, consumed) = deser_n::<GenericArg>(&felts, 4);
        assert!(consumed == 1 && is_invalid_input(&y), "C14 GenericArg: wide tag => Err(InvalidInputForDeserialization) after one felt, no panic");
    }
    for (tag, i) in [(1u8, 0usize), (3, 2), (4, 3)] {
        let t = small(tag);
        let felts = [&t, &w[i], &s, &s];
        let (y, consumed) = deser_n::<GenericArg>(&felts, 4);
        assert!(consumed == 2 && is_invalid_input(&y), "C14 GenericArg: wide payload for a u64 id => Err(InvalidInputForDeserialization) after two felts, no panic");
    }
    for i in [0usize, 2] {
        let t = small(0);
        let felts = [&t, &w[i], &s, &s];
        let (y, consumed) = deser_n::<GenericArg>(&felts, 4);
        assert!(consumed == 2, "C14 GenericArg::UserType: wide payload consumes two felts");
        match y {
            Ok(GenericArg::UserType(u)) => assert!(same_felt(&u.id, &w[i]), "C14 GenericArg::UserType: wide payload accepted, id is the felt"),
            _ => assert!(false, "C14 GenericArg::UserType: wide payload accepted"),
        }
    }
}
/// tags 2 and 5 on concrete samples: Value(payload) and Value(-payload); tag 5 with payload 0 is Value(0)
//@ bound="tags 2 and 5 with payload in {0, 7}"
#[kani::proof]
#[kani::unwind(6)]
fn total_generic_arg_value_samples() {
    let s = small(1);
    for (tag, pay, neg) in [(2u8, 7u8, false), (5, 7, true), (2, 0, false), (5, 0, false)] {
        let (t, p) = (small(tag), small(pay));
        let felts = [&t, &p, &s, &s];
        let (y, consumed) = deser_n::<GenericArg>(&felts, 3);
        assert!(consumed == 2, "C14 GenericArg::Value: consumes tag and magnitude");
        match y {
            Ok(GenericArg::Value(v)) => {
                assert!(v.magnitude().to_u64() == Some(pay as u64), "C18 GenericArg tag table: tags 2 and 5 decode the magnitude");
                assert!((v.sign() == num_bigint::Sign::Minus) == neg, "C18 GenericArg tag table: tag 2 => Value >= 0, tag 5 => negated value");
            }
            _ => assert!(false, "C14 GenericArg::Value: tags 2 and 5 with a payload are accepted"),
        }
        let (y, consumed) = deser_n::<GenericArg>(&felts, 1);
        assert!(consumed == 1 && is_invalid_input(&y), "C14 GenericArg::Value: missing magnitude => Err(InvalidInputForDeserialization)");
    }
}

// ---------------------------------------------------------------- vec_with_bounded_capacity (C14)
const MAX_REMAINING: usize = 1 << 40; // P2 (A3)
fn check_bounded_capacity<T>() {
    let size: usize = kani::any();
    let max_remaining_size: usize = kani::any();
    kani::assume(max_remaining_size <= MAX_REMAINING); // P2
    kani::cover!(max_remaining_size == MAX_REMAINING && size == MAX_REMAINING, "reach:P2 largest admitted allocation");
    kani::cover!(size > max_remaining_size, "reach:P2 rejected size");
    let r = vec_with_bounded_capacity::<T>(size, max_remaining_size);
    match &r {
        Ok(v) => {
            assert!(size <= max_remaining_size, "C14 vec_with_bounded_capacity: Ok only when size <= max_remaining_size (allocation bounded by the remaining input)");
            assert!(v.len() == 0, "C14 vec_with_bounded_capacity: the vector is empty");
            assert!(v.capacity() == size, "C14 vec_with_bounded_capacity: requested capacity == size");
        }
        Err(_) => assert!(size > max_remaining_size && is_invalid_input(&r), "C14 vec_with_bounded_capacity: Err(InvalidInputForDeserialization) exactly when size > max_remaining_size"),
    }
}
//@ props=C14
#[kani::proof]
#[kani::unwind(2)]
fn bounded_capacity_var_id() { check_bounded_capacity::<VarId>(); }
//@ props=C14
#[kani::proof]
#[kani::unwind(2)]
fn bounded_capacity_generic_arg() { check_bounded_capacity::<GenericArg>(); }
//@ props=C14
#[kani::proof]
#[kani::unwind(2)]
fn bounded_capacity_function() { check_bounded_capacity::<cairo_lang_sierra::program::Function>(); }
/// P2 documented: without the bound the real function panics (`capacity overflow`).
//@ props=C14
#[kani::proof]
#[kani::should_panic]
fn pre_bounded_capacity_panics_without_p2() {
    let _ = vec_with_bounded_capacity::<VarId>(usize::MAX / 2, usize::MAX);
}

// ---------------------------------------------------------------- version_id_from_felt252s (C14)
fn hexes(v: [u128; 6]) -> [BigUintAsHex; 8] {
    [hex(BigUint::from(v[0])), hex(BigUint::from(v[1])), hex(BigUint::from(v[2])), hex(BigUint::from(v[3])),
     hex(BigUint::from(v[4])), hex(BigUint::from(v[5])), hex(small(1)), hex(small(2))]
}
//@ props=C14 bound="slices of length 0..=8 (only the first six elements and the length are read)"
#[kani::proof]
#[kani::unwind(3)]
fn version_ids_from_felts() {
    let v: [u128; 6] = kani::any();
    // not dropped: the drop glue of an 8-array is the only loop that would need a larger unwinding bound
    let arr = std::mem::ManuallyDrop::new(hexes(v));
    let n: usize = kani::any();
    kani::assume(n <= 8);
    kani::cover!(n == 6, "reach:exactly the six version felts");
    kani::cover!(n == 5, "reach:one felt short");
    let r = version_id_from_felt252s(&arr[..n]);
    let fit = fits_usize(v[0]) && fits_usize(v[1]) && fits_usize(v[2]) && fits_usize(v[3]) && fits_usize(v[4]) && fits_usize(v[5]);
    match &r {
        Ok((sierra, compiler, rest)) => {
            assert!(n >= 6 && fit, "C14 version_id_from_felt252s: Ok only when len >= 6 and the six values fit usize");
            assert!(sierra.major as u128 == v[0] && sierra.minor as u128 == v[1] && sierra.patch as u128 == v[2]
                && compiler.major as u128 == v[3] && compiler.minor as u128 == v[4] && compiler.patch as u128 == v[5],
                "C14 version_id_from_felt252s: sierra version = felts 0..3, compiler version = felts 3..6");
            assert!(rest.len() == n - 6 && (n == 6 || std::ptr::eq(&rest[0], &arr[6])), "C14 version_id_from_felt252s: remaining is exactly the input after the sixth felt");
        }
        Err(_) => assert!(!(n >= 6 && fit) && is_invalid_input(&r), "C14 version_id_from_felt252s: Err(InvalidInputForDeserialization) exactly when len < 6 or a value does not fit"),
    }
}
//@ props=C14 bound="length 8, one wide constant at each of the six positions"
#[kani::proof]
#[kani::unwind(8)]
fn version_ids_from_felts_wide() {
    let w = wides();
    for pos in 0..6 {
        let mut arr = std::mem::ManuallyDrop::new(hexes([1, 2, 3, 4, 5, 6]));
        arr[pos] = hex(w[pos % N_WIDE].clone());
        let r = version_id_from_felt252s(&arr[..]);
        assert!(is_invalid_input(&r), "C14 version_id_from_felt252s: a wide felt among the six => Err(InvalidInputForDeserialization), no panic");
    }
}
