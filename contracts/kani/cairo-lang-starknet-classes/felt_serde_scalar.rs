// K unit (C18 + C14): the scalar element codecs of the private trait `Felt252Serde`
// (crates/cairo-lang-starknet-classes/src/felt252_serde.rs), `vec_with_bounded_capacity` and
// `version_id_from_felt252s`. Injected as a child module of felt252_serde.rs.
//
// Oracles (from the property statements, not from the bodies):
//  C18  a value survives serialisation: serialize appends exactly felts(T) felts and does not touch
//       what is already in the output (frame); deserialize on exactly those felts gives back the value
//       (ids: equal `id`, `debug_name` dropped = "up to a consistent renaming") and consumes them all.
//  C14  deserialize is total on untrusted felts: for any felt (any u128 value, or one of the wide
//       constants 2^128, 2^200, P-1, 2^256-1) and any iterator of 0..=4 felts it returns, never panics;
//       Err(InvalidInputForDeserialization) exactly when the iterator is exhausted / the value does not
//       fit the target integer / the GenericArg tag is not in 0..=5; it consumes exactly the felts of
//       its own element (never reads into the next element).
//
// Why u128 + wide constants is enough (stated argument, DESIGN 4/C14): these codecs only call
// `BigUint::to_usize/to_u64` (branch on the digit count) or clone the felt; digits beyond the second
// never influence control flow. Symbolic digit vectors do not terminate under CBMC (DESIGN 3).
//
// Stated preconditions (each with a reachability cover, and a should_panic / collision harness that
// shows the excluded input really misbehaves):
//  P1  BranchTarget::Statement(StatementIdx(usize::MAX)) is excluded from the inverse-pair claim: it
//      collides with the Fallthrough sentinel (unreachable for valid programs, next.0 < statements.len()).
//  P2  vec_with_bounded_capacity: max_remaining_size <= 2^40 (A3: it is the length of an in-memory felt
//      slice). Without it Vec::with_capacity panics with `capacity overflow`.
//  P3  GenericArg tags 2 and 5 (Value, BigInt sign code) are excluded from the symbolic harnesses (out of
//      CBMC's reach); they are covered on concrete samples here and by the native unit n_felt_serde_bigint.
#![allow(dead_code, unused_imports)]
use cairo_lang_sierra::ids::{ConcreteLibfuncId, ConcreteTypeId, FunctionId, UserTypeId, VarId};
use cairo_lang_sierra::program::{BranchTarget, GenericArg, StatementIdx};
use cairo_lang_utils::bigint::BigUintAsHex;
use num_bigint::{BigInt, BigUint};
use num_traits::ToPrimitive;

use super::{Felt252Serde, Felt252SerdeError, vec_with_bounded_capacity, version_id_from_felt252s};
use crate::compiler_version::VersionId;

// ---------------------------------------------------------------- felts
/// The four fixed wide felts (little-endian u32 digits): 2^128, 2^200, P-1, 2^256-1,
/// P = 2^251 + 17*2^192 + 1.
fn wide(i: usize) -> BigUint {
    match i {
        0 => BigUint::new(vec![0, 0, 0, 0, 1]),
        1 => BigUint::new(vec![0, 0, 0, 0, 0, 0, 256]),
        2 => BigUint::new(vec![0, 0, 0, 0, 0, 0, 17, 0x0800_0000]),
        _ => BigUint::new(vec![u32::MAX; 8]),
    }
}
const N_WIDE: usize = 4;
fn hex(v: BigUint) -> BigUintAsHex { BigUintAsHex { value: v } }
fn is_invalid_input<T>(r: &Result<T, Felt252SerdeError>) -> bool {
    matches!(r, Err(Felt252SerdeError::InvalidInputForDeserialization))
}

// ---------------------------------------------------------------- C18 inverse pair
/// Serializes `x` behind a one-felt prefix, checks the frame, deserializes exactly the appended felts
/// and checks full consumption. Returns the decoded value for the caller's equality check.
fn roundtrip<T: Felt252Serde>(x: &T, felts: usize) -> T {
    let p: u64 = kani::any();
    let mut out: Vec<BigUintAsHex> = vec![hex(BigUint::from(p))];
    let r = x.serialize(&mut out);
    assert!(r.is_ok(), "C18 serialize succeeds");
    assert!(out.len() == 1 + felts, "C18 serialize appends exactly felts(T) elements");
    assert!(out[0].value.to_u64() == Some(p), "C18 serialize leaves the prefix untouched");
    let mut it = out[1..].iter().map(|v| &v.value);
    let y = T::deserialize(&mut it);
    assert!(it.len() == 0, "C18 deserialize consumes exactly the felts serialize appended");
    match y {
        Ok(v) => v,
        Err(_) => {
            assert!(false, "C18 deserialize(serialize(x)) is Ok");
            unreachable!()
        }
    }
}

#[kani::proof]
#[kani::unwind(12)]
fn rt_usize() {
    let x: usize = kani::any();
    assert!(roundtrip(&x, 1) == x, "C18 usize: deserialize(serialize(x)) == x");
}
#[kani::proof]
#[kani::unwind(12)]
fn rt_u64() {
    let x: u64 = kani::any();
    assert!(roundtrip(&x, 1) == x, "C18 u64: deserialize(serialize(x)) == x");
}
#[kani::proof]
#[kani::unwind(12)]
fn rt_statement_idx() {
    let x = StatementIdx(kani::any());
    assert!(roundtrip(&x, 1).0 == x.0, "C18 StatementIdx: deserialize(serialize(x)) == x");
}
#[kani::proof]
#[kani::unwind(12)]
fn rt_concrete_type_id() {
    let x = ConcreteTypeId::new(kani::any());
    let y = roundtrip(&x, 1);
    assert!(y.id == x.id && y.debug_name.is_none(), "C18 ConcreteTypeId: same id, debug_name dropped");
}
#[kani::proof]
#[kani::unwind(12)]
fn rt_concrete_libfunc_id() {
    let x = ConcreteLibfuncId::new(kani::any());
    let y = roundtrip(&x, 1);
    assert!(y.id == x.id && y.debug_name.is_none(), "C18 ConcreteLibfuncId: same id, debug_name dropped");
}
#[kani::proof]
#[kani::unwind(12)]
fn rt_var_id() {
    // one id codec is exercised with a debug name present: it must be dropped, the id kept
    let x = VarId { id: kani::any(), debug_name: if kani::any() { Some("v".into()) } else { None } };
    let y = roundtrip(&x, 1);
    assert!(y.id == x.id && y.debug_name.is_none(), "C18 VarId: same id, debug_name dropped");
}
#[kani::proof]
#[kani::unwind(12)]
fn rt_function_id() {
    let x = FunctionId::new(kani::any());
    let y = roundtrip(&x, 1);
    assert!(y.id == x.id && y.debug_name.is_none(), "C18 FunctionId: same id, debug_name dropped");
}
/// UserTypeId carries a whole felt: any u128 value, then each wide constant.
#[kani::proof]
#[kani::unwind(12)]
fn rt_user_type_id() {
    let v: u128 = kani::any();
    let x = UserTypeId { id: BigUint::from(v), debug_name: None };
    let y = roundtrip(&x, 1);
    assert!(y.id.to_u128() == Some(v) && y.debug_name.is_none(), "C18 UserTypeId: same id, debug_name dropped");
}
#[kani::proof]
#[kani::unwind(12)]
fn rt_user_type_id_wide() {
    for i in 0..N_WIDE {
        let x = UserTypeId { id: wide(i), debug_name: None };
        let y = roundtrip(&x, 1);
        assert!(y.id == wide(i) && y.debug_name.is_none(), "C18 UserTypeId (wide felt): same id, debug_name dropped");
    }
}
#[kani::proof]
#[kani::unwind(12)]
fn rt_branch_target() {
    let t = if kani::any() {
        BranchTarget::Fallthrough
    } else {
        let i: usize = kani::any();
        kani::assume(i != usize::MAX); // P1
        kani::cover!(i == usize::MAX - 1, "reach:P1 largest admitted statement index");
        BranchTarget::Statement(StatementIdx(i))
    };
    assert!(roundtrip(&t, 1) == t, "C18 BranchTarget: deserialize(serialize(x)) == x");
}
/// P1 documented: the excluded value does collide with the sentinel (so the exclusion is needed and
/// exact: it is the only value of the type that does not round-trip).
#[kani::proof]
#[kani::unwind(12)]
fn rt_branch_target_sentinel_collision() {
    let t = BranchTarget::Statement(StatementIdx(usize::MAX));
    assert!(roundtrip(&t, 1) == BranchTarget::Fallthrough, "C18 BranchTarget: Statement(usize::MAX) decodes as the Fallthrough sentinel (declared exception P1)");
}
#[kani::proof]
#[kani::unwind(12)]
fn rt_version_id() {
    let x = VersionId { major: kani::any(), minor: kani::any(), patch: kani::any() };
    assert!(roundtrip(&x, 3) == x, "C18 VersionId: deserialize(serialize(x)) == x");
}
#[kani::proof]
#[kani::unwind(12)]
fn rt_generic_arg_user_type() {
    let v: u128 = kani::any();
    let x = GenericArg::UserType(UserTypeId { id: BigUint::from(v), debug_name: None });
    match roundtrip(&x, 2) {
        GenericArg::UserType(y) => assert!(y.id.to_u128() == Some(v) && y.debug_name.is_none(), "C18 GenericArg::UserType: same id"),
        _ => assert!(false, "C18 GenericArg::UserType: variant preserved"),
    }
}
#[kani::proof]
#[kani::unwind(12)]
fn rt_generic_arg_type() {
    let v: u64 = kani::any();
    match roundtrip(&GenericArg::Type(ConcreteTypeId::new(v)), 2) {
        GenericArg::Type(y) => assert!(y.id == v && y.debug_name.is_none(), "C18 GenericArg::Type: same id"),
        _ => assert!(false, "C18 GenericArg::Type: variant preserved"),
    }
}
#[kani::proof]
#[kani::unwind(12)]
fn rt_generic_arg_user_func() {
    let v: u64 = kani::any();
    match roundtrip(&GenericArg::UserFunc(FunctionId::new(v)), 2) {
        GenericArg::UserFunc(y) => assert!(y.id == v && y.debug_name.is_none(), "C18 GenericArg::UserFunc: same id"),
        _ => assert!(false, "C18 GenericArg::UserFunc: variant preserved"),
    }
}
#[kani::proof]
#[kani::unwind(12)]
fn rt_generic_arg_libfunc() {
    let v: u64 = kani::any();
    match roundtrip(&GenericArg::Libfunc(ConcreteLibfuncId::new(v)), 2) {
        GenericArg::Libfunc(y) => assert!(y.id == v && y.debug_name.is_none(), "C18 GenericArg::Libfunc: same id"),
        _ => assert!(false, "C18 GenericArg::Libfunc: variant preserved"),
    }
}

// ---------------------------------------------------------------- C14 totality of deserialize
fn fits_usize(v: u128) -> bool { v <= usize::MAX as u128 }
fn fits_u64(v: u128) -> bool { v <= u64::MAX as u128 }
fn small(k: u8) -> BigUint { BigUint::from(k) }

/// Runs the real `T::deserialize` on an iterator over the first `n` of four felts.
/// Returns the result and the number of felts it consumed.
fn deser_n<T: Felt252Serde>(felts: &[BigUint; 4], n: usize) -> (Result<T, Felt252SerdeError>, usize) {
    let mut it = felts[..n].iter();
    let y = T::deserialize(&mut it);
    (y, n - it.len())
}
/// Symbolic iterator length 0..=4 (the slice has a fixed shape; only its length is symbolic).
fn any_len() -> usize {
    let n: usize = kani::any();
    kani::assume(n <= 4);
    kani::cover!(n == 0, "reach:exhausted iterator");
    kani::cover!(n == 4, "reach:four felts");
    n
}
/// One-felt codec whose felt must fit an integer type. `decoded_as(x, v)` says that x is the value the
/// specification assigns to the felt v.
fn total_one_felt<T: Felt252Serde>(fits: fn(u128) -> bool, decoded_as: fn(&T, u128) -> bool) {
    // (a) every u128-valued felt, followed by felts of the next elements
    let v: u128 = kani::any();
    let felts = [BigUint::from(v), wide(0), small(3), wide(3)];
    let n = any_len();
    let (y, consumed) = deser_n::<T>(&felts, n);
    assert!(consumed == if n == 0 { 0 } else { 1 }, "C14 deserialize consumes exactly its one felt (none when exhausted)");
    match &y {
        Ok(x) => assert!(n >= 1 && fits(v) && decoded_as(x, v), "C14 Ok only when a felt is present and fits; decoded value is the felt's value"),
        Err(_) => assert!((n == 0 || !fits(v)) && is_invalid_input(&y), "C14 Err(InvalidInputForDeserialization) exactly when exhausted or the felt does not fit"),
    }
    // (b) the wide constants never fit
    for i in 0..N_WIDE {
        let felts = [wide(i), small(1), small(2), small(3)];
        let (y, consumed) = deser_n::<T>(&felts, 2);
        assert!(consumed == 1 && is_invalid_input(&y), "C14 wide felt (>= 2^128): Err(InvalidInputForDeserialization), one felt consumed, no panic");
    }
}

#[kani::proof]
#[kani::unwind(12)]
fn total_usize() {
    total_one_felt::<usize>(fits_usize, |x, v| *x as u128 == v);
}
#[kani::proof]
#[kani::unwind(12)]
fn total_u64() {
    total_one_felt::<u64>(fits_u64, |x, v| *x as u128 == v);
}
#[kani::proof]
#[kani::unwind(12)]
fn total_statement_idx() {
    total_one_felt::<StatementIdx>(fits_usize, |x, v| x.0 as u128 == v);
}
#[kani::proof]
#[kani::unwind(12)]
fn total_concrete_type_id() {
    total_one_felt::<ConcreteTypeId>(fits_u64, |x, v| x.id as u128 == v && x.debug_name.is_none());
}
#[kani::proof]
#[kani::unwind(12)]
fn total_concrete_libfunc_id() {
    total_one_felt::<ConcreteLibfuncId>(fits_u64, |x, v| x.id as u128 == v && x.debug_name.is_none());
}
#[kani::proof]
#[kani::unwind(12)]
fn total_var_id() {
    total_one_felt::<VarId>(fits_u64, |x, v| x.id as u128 == v && x.debug_name.is_none());
}
#[kani::proof]
#[kani::unwind(12)]
fn total_function_id() {
    total_one_felt::<FunctionId>(fits_u64, |x, v| x.id as u128 == v && x.debug_name.is_none());
}
#[kani::proof]
#[kani::unwind(12)]
fn total_branch_target() {
    total_one_felt::<BranchTarget>(fits_usize, |x, v| match x {
        BranchTarget::Fallthrough => v == usize::MAX as u128,
        BranchTarget::Statement(i) => i.0 as u128 == v && v != usize::MAX as u128,
    });
}
/// VersionId = three usize felts; decoding stops at the first felt that is missing or does not fit.
#[kani::proof]
#[kani::unwind(12)]
fn total_version_id() {
    let v: [u128; 3] = kani::any();
    let felts = [BigUint::from(v[0]), BigUint::from(v[1]), BigUint::from(v[2]), wide(2)];
    let n = any_len();
    let (y, consumed) = deser_n::<VersionId>(&felts, n);
    let mut want_consumed = 0;
    let mut want_ok = true;
    for i in 0..3 {
        if i >= n { want_ok = false; break; }
        want_consumed += 1;
        if !fits_usize(v[i]) { want_ok = false; break; }
    }
    assert!(consumed == want_consumed, "C14 VersionId: consumes its three felts, or stops at the first missing/oversize one");
    match &y {
        Ok(x) => assert!(want_ok && x.major as u128 == v[0] && x.minor as u128 == v[1] && x.patch as u128 == v[2], "C14 VersionId: Ok only when three felts are present and fit usize; (major, minor, patch) in order"),
        Err(_) => assert!(!want_ok && is_invalid_input(&y), "C14 VersionId: Err(InvalidInputForDeserialization) exactly when a felt is missing or does not fit"),
    }
}
#[kani::proof]
#[kani::unwind(12)]
fn total_version_id_wide() {
    for pos in 0..3 {
        for i in 0..N_WIDE {
            let mut felts = [small(1), small(2), small(3), small(4)];
            felts[pos] = wide(i);
            let (y, consumed) = deser_n::<VersionId>(&felts, 4);
            assert!(consumed == pos + 1 && is_invalid_input(&y), "C14 VersionId: wide felt at any of the three positions => Err, stops there, no panic");
        }
    }
}
// XXX-EXPERIMENTS-BEGIN
#[kani::proof]
#[kani::unwind(8)]
fn x_v1() {
    let v: u128 = kani::any();
    let b = BigUint::from(v);
    let vals: Vec<&BigUint> = vec![&b];
    let mut it = vals.into_iter();
    let y = usize::deserialize(&mut it);
    assert!(it.len() == 0);
    if fits_usize(v) { assert!(y == Ok(v as usize)); } else { assert!(y.is_err()); }
}
#[kani::proof]
#[kani::unwind(8)]
fn x_v2() {
    let v: u128 = kani::any();
    let felts = [BigUint::from(v), small(1), small(2), small(3)];
    let mut it = felts[..2].iter();
    let y = usize::deserialize(&mut it);
    assert!(it.len() == 1);
    if fits_usize(v) { assert!(y == Ok(v as usize)); } else { assert!(y.is_err()); }
}
#[kani::proof]
#[kani::unwind(8)]
fn x_v3() {
    let v: u128 = kani::any();
    let felts = [BigUint::from(v), small(1), small(2), small(3)];
    let n: usize = kani::any();
    kani::assume(n <= 4);
    let mut it = felts[..n].iter();
    let y = usize::deserialize(&mut it);
    if n > 0 && fits_usize(v) { assert!(y == Ok(v as usize)); } else { assert!(y.is_err()); }
}
#[kani::proof]
#[kani::unwind(8)]
fn x_v4() {
    let v: u128 = kani::any();
    let b = BigUint::from(v);
    let mut it = std::iter::once(&b);
    let y = usize::deserialize(&mut it);
    assert!(it.len() == 0);
    if fits_usize(v) { assert!(y == Ok(v as usize)); } else { assert!(y.is_err()); }
}
#[kani::proof]
#[kani::unwind(8)]
fn x_v5() {
    let v: u128 = kani::any();
    let b = BigUint::from(v);
    let y = b.to_usize();
    if fits_usize(v) { assert!(y == Some(v as usize)); } else { assert!(y.is_none()); }
}
// XXX-EXPERIMENTS-END
