// N unit (C16), BOUNDED stand-in and counter-example finder. Two roles:
//  * the opcode-extension bits of `InstructionRepr::encode` and the equality words[1] == imm on
//    sample immediates (BigInt `|=` / `<<` / `==` are out of CBMC's reach, see c16_encode.rs);
//  * when a Kani obligation of c16_encode fails, this enumerator supplies a concrete failing
//    instruction replayed on the real code (CBMC trace extraction takes > 15 min there).
// End-to-end through the same oracle as the Kani harnesses, over a stated finite domain:
//   offsets in {-32768,-32767,-2,-1,0,1,2,32766,32767} + 6 seeded random values, both registers,
//   Blake2s x {finalize}, QM31 `a = b (+|*) c` with c a cell or an immediate, inc_ap,
//   3 concrete machine states.
#![allow(dead_code, unused_imports)]
use num_bigint::BigInt;
use num_traits::ToPrimitive;

use crate::assembler::*;
use crate::instructions::*;
use crate::operand::*;

mod oracle_imports {
    pub use crate::assembler::*;
    pub use crate::instructions::*;
    pub use crate::operand::*;
}
#[path = "../../kani/cairo-lang-casm/c16_oracle.rs"]
mod oracle;
use oracle::*;

fn offsets() -> Vec<i16> {
    let mut v: Vec<i16> = vec![-32768, -32767, -2, -1, 0, 1, 2, 32766, 32767];
    let seed: u64 = std::env::var("VERIF_SEED").ok().and_then(|s| s.parse().ok()).unwrap_or(0);
    let mut x = seed.wrapping_mul(6364136223846793005).wrapping_add(1442695040888963407);
    for _ in 0..6 {
        x = x.wrapping_mul(6364136223846793005).wrapping_add(1442695040888963407);
        v.push((x >> 33) as i16);
    }
    v
}
fn cells() -> Vec<CellRef> {
    let mut v = vec![];
    for o in offsets() {
        v.push(CellRef { register: Register::AP, offset: o });
        v.push(CellRef { register: Register::FP, offset: o });
    }
    v
}
fn states() -> [St; 3] {
    [St { pc: 0, ap: 100, fp: 50 }, St { pc: 12345, ap: 1 << 30, fp: (1 << 30) - 77 }, St { pc: 7, ap: 40000, fp: 40000 }]
}

/// Returns None when the obligation holds, Some(reason) otherwise.
fn check_one(ins: &Instruction, ext: u128) -> Option<String> {
    let r = std::panic::catch_unwind(|| {
        let words = ins.assemble().encode();
        let size = ins.body.op_size();
        if words.len() != size { return Some(format!("words.len() {} != op_size {}", words.len(), size)); }
        if size != if imm_of(ins).is_some() { 2 } else { 1 } { return Some("op_size != 1 + has_immediate".into()); }
        if let Some(imm) = imm_of(ins) { if &words[1] != imm { return Some("immediate word changed".into()); } }
        let w = match words[0].to_u128() { Some(w) => w, None => return Some("word does not fit u128".into()) };
        if w >> 63 != ext { return Some(format!("extension bits {} != {}", w >> 63, ext)); }
        let d = match spec_decode(w) { Some(d) => d, None => return Some("word does not decode".into()) };
        for st in states() {
            if vm_step(d, st) != Some(ref_step(ins, st)) { return Some("vm_step(decode(word)) != meaning of the text".into()); }
        }
        None
    });
    match r { Ok(x) => x, Err(_) => Some("panic in assemble/encode".into()) }
}

fn report(id: &str, cases: u64, fail: Option<(String, String)>) {
    let bound = "offsets {-32768,-32767,-2,-1,0,1,2,32766,32767}+6 seeded, both registers, 3 machine states, 4 immediates";
    match fail {
        None => println!("VERIF-N id=N/n_c16_shapes/{} status=ok cases={} distinct={} bound=\"{}\"", id, cases, cases, bound),
        Some((input, why)) => println!(
            "VERIF-N id=N/n_c16_shapes/{} status=fail key=\"{}\" input=\"{}\" detail=\"{}: {}\" bound=\"{}\"",
            id, why, input.replace('"', "'"), input.replace('"', "'"), why, bound
        ),
    }
}
fn imms() -> Vec<BigInt> { vec![BigInt::from(0), BigInt::from(-1), BigInt::from(u64::MAX), BigInt::from(1) << 251u32] }
fn dois(cs: &[CellRef]) -> Vec<DerefOrImmediate> {
    let mut v: Vec<DerefOrImmediate> = cs.iter().map(|c| DerefOrImmediate::Deref(*c)).collect();
    for x in imms() { v.push(DerefOrImmediate::Immediate(x.into())); }
    v
}
fn res_operands(cs: &[CellRef], thin: usize) -> Vec<ResOperand> {
    let mut v = vec![];
    for c in cs { v.push(ResOperand::Deref(*c)); }
    for c in cs { for o in offsets() { v.push(ResOperand::DoubleDeref(*c, o)); } }
    for x in imms() { v.push(ResOperand::Immediate(x.into())); }
    for a in cs.iter().step_by(thin) { for b in dois(cs) { for op in [Operation::Add, Operation::Mul] {
        v.push(ResOperand::BinOp(BinOpOperand { op: op.clone(), a: *a, b: b.clone() }));
    }}}
    v
}
struct Runner { cases: u64, fail: Option<(String, String)> }
impl Runner {
    fn new() -> Self { std::panic::set_hook(Box::new(|_| {})); Runner { cases: 0, fail: None } }
    /// Returns false once a failing case was found.
    fn case(&mut self, i: Instruction, ext: u128) -> bool {
        if self.fail.is_some() { return false; }
        self.cases += 1;
        if let Some(why) = check_one(&i, ext) { self.fail = Some((format!("{}", i), why)); return false; }
        true
    }
    fn done(self, id: &str) { report(id, self.cases, self.fail); }
}

#[test]
fn __verif_n_c16_assert_eq() {
    let cs = cells();
    let ops = res_operands(&cs, 1);
    let mut r = Runner::new();
    'o: for a in cs.iter().step_by(2) { for b in &ops { for inc in [false, true] {
        if !r.case(Instruction::new(InstructionBody::AssertEq(AssertEqInstruction { a: *a, b: b.clone() }), inc), 0) { break 'o; }
    }}}
    r.done("assert_eq");
}
#[test]
fn __verif_n_c16_add_ap() {
    let cs = cells();
    let mut r = Runner::new();
    for b in res_operands(&cs, 1) {
        if !r.case(Instruction::new(InstructionBody::AddAp(AddApInstruction { operand: b }), false), 0) { break; }
    }
    r.done("add_ap");
}
#[test]
fn __verif_n_c16_control_flow() {
    let cs = cells();
    let ds = dois(&cs);
    let mut r = Runner::new();
    for d in &ds { for rel in [false, true] {
        r.case(Instruction::new(InstructionBody::Call(CallInstruction { target: d.clone(), relative: rel }), false), 0);
        for inc in [false, true] {
            r.case(Instruction::new(InstructionBody::Jump(JumpInstruction { target: d.clone(), relative: rel }), inc), 0);
        }
    }}
    for d in &ds { for c in &cs { for inc in [false, true] {
        r.case(Instruction::new(InstructionBody::Jnz(JnzInstruction { jump_offset: d.clone(), condition: *c }), inc), 0);
    }}}
    r.case(Instruction::new(InstructionBody::Ret(RetInstruction {}), false), 0);
    r.done("control_flow");
}
#[test]
fn __verif_n_c16_ext_blake2s() {
    let cs = cells();
    let mut r = Runner::new();
    'o: for state in &cs { for bc in &cs { for msg in &cs { for fin in [false, true] {
        let i = Instruction::new(InstructionBody::Blake2sCompress(Blake2sCompressInstruction { state: *state, byte_count: *bc, message: *msg, finalize: fin }), true);
        if !r.case(i, if fin { 2 } else { 1 }) { break 'o; }
    }}}}
    r.done("ext_blake2s");
}
#[test]
fn __verif_n_c16_ext_qm31() {
    let cs = cells();
    let ds = dois(&cs);
    let mut r = Runner::new();
    'o: for a in cs.iter().step_by(2) { for b in &cs { for c in &ds { for op in [Operation::Add, Operation::Mul] { for inc in [false, true] {
        let i = Instruction::new(InstructionBody::QM31AssertEq(AssertEqInstruction { a: *a, b: ResOperand::BinOp(BinOpOperand { op: op.clone(), a: *b, b: c.clone() }) }), inc);
        if !r.case(i, 3) { break 'o; }
    }}}}}
    r.done("ext_qm31");
}
