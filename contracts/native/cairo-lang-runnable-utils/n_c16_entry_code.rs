// N unit (C16), BOUNDED stand-in for the entry code that the runner / executable wrap around a
// compiled program (`create_entry_code_from_params`, built with the CASM builder: label resolution,
// relative offsets as sums of op_size). Contract, from the property statement ("relative jump/call
// targets land on the instruction they name"): for every code offset (small, around 2^15, around
// 2^16, up to 2^24 words - a distance of 2^31 words, where the builder's i32 arithmetic ends, is not a
// program that exists), several parameter lists (no builtins, range check + gas, a felt, an array),
// testing configuration:
//   the header contains exactly one `call rel imm` to the function, and
//   (offset of that call inside the header) + imm == (header size) + code_offset;
//   every other relative immediate jump of the header lands on an instruction start of the header.
#![allow(dead_code, unused_imports)]
use std::collections::HashSet;
use std::panic::{catch_unwind, AssertUnwindSafe};

use cairo_lang_casm::instructions::{Instruction, InstructionBody};
use cairo_lang_casm::operand::DerefOrImmediate;
use cairo_lang_sierra::extensions::NamedType;
use cairo_lang_sierra::ids::GenericTypeId;

use super::{create_entry_code_from_params, EntryCodeConfig};

fn imm(d: &DerefOrImmediate) -> Option<i128> { match d { DerefOrImmediate::Immediate(v) => i128::try_from(v.value.clone()).ok(), _ => None } }

#[test]
fn __verif_n_c16_entry_code() {
    std::panic::set_hook(Box::new(|_| {}));
    let offsets: Vec<usize> = vec![0, 1, 100, 32760, 32761, 32762, 32763, 32764, 32765, 32766, 32767, 32768, 32769, 40_000, 65_530, 65_531, 65_532, 65_533, 65_534, 65_535, 65_536, 70_000, 1 << 20, 1 << 24];
    let g = |s: &'static str| GenericTypeId::new_inline(s);
    let param_sets: Vec<(&str, Vec<(GenericTypeId, i16)>, Vec<(GenericTypeId, i16)>)> = vec![
        ("() -> ()", vec![], vec![]),
        ("(felt252) -> (felt252)", vec![(g("felt252"), 1)], vec![(g("felt252"), 1)]),
        ("(RangeCheck, GasBuiltin, felt252) -> (RangeCheck, GasBuiltin, felt252)", vec![(g("RangeCheck"), 1), (g("GasBuiltin"), 1), (g("felt252"), 1)], vec![(g("RangeCheck"), 1), (g("GasBuiltin"), 1), (g("felt252"), 1)]),
        ("(Pedersen, Bitwise, u128) -> (Pedersen, Bitwise, u128)", vec![(g("Pedersen"), 1), (g("Bitwise"), 1), (g("u128"), 1)], vec![(g("Pedersen"), 1), (g("Bitwise"), 1), (g("u128"), 1)]),
        ("(Array) -> (Array)", vec![(g("Array"), 2)], vec![(g("Array"), 2)]),
    ];
    let (mut cases, mut built) = (0u64, 0u64);
    let mut fails: Vec<(String, String)> = vec![];
    for (pname, params, rets) in &param_sets {
        // (the executable configuration fixes the function's signature; the testing one - what the runner uses - takes any)
        for (cname, config) in [("testing", EntryCodeConfig::testing())] {
            for &code_offset in &offsets {
                cases += 1;
                let what = format!("entry code for {pname}, {cname} configuration, function {code_offset} words into the program");
                let r = catch_unwind(AssertUnwindSafe(|| create_entry_code_from_params(params, rets, code_offset, config.clone())));
                let header = match r { Err(_) => { if !fails.iter().any(|f| f.1.starts_with("panic")) { fails.push((what, "panic while building the entry code".into())); } continue; } Ok(Err(_)) => continue, Ok(Ok((h, _))) => h };
                built += 1;
                let mut starts: HashSet<usize> = HashSet::new();
                let mut o = 0usize;
                for ins in &header { starts.insert(o); o += ins.body.op_size(); }
                let size = o;
                let mut calls_out = 0;
                let mut o = 0usize;
                let mut why = None;
                for ins in &header {
                    let t = match &ins.body {
                        InstructionBody::Call(c) if c.relative => imm(&c.target),
                        InstructionBody::Jump(j) if j.relative => imm(&j.target),
                        InstructionBody::Jnz(j) => imm(&j.jump_offset),
                        _ => None,
                    };
                    if let Some(d) = t {
                        let target = o as i128 + d;
                        if target >= size as i128 || target < 0 {
                            // leaves the header: it has to be THE call into the program
                            calls_out += 1;
                            if !matches!(ins.body, InstructionBody::Call(_)) || target != (size + code_offset) as i128 { why = Some(format!("`{ins}` at header offset {o} transfers control to pc {target}, the function starts at pc {} (header {size} + {code_offset})", size + code_offset)); }
                        } else if !starts.contains(&(target as usize)) { why = Some(format!("`{ins}` at header offset {o} lands at {target}, in the middle of a header instruction")); }
                    }
                    o += ins.body.op_size();
                }
                if why.is_none() && calls_out != 1 { why = Some(format!("the header has {calls_out} relative transfers out of itself, expected exactly the call of the function")); }
                if let Some(w) = why { if !fails.iter().any(|f| f.1.chars().take(25).eq(w.chars().take(25))) { fails.push((what, w)); } }
            }
        }
    }
    let bound = format!("{cases} entry codes ({} code offsets incl. the 2^15 and 2^16 boundaries x {} parameter lists), {built} built", offsets.len(), param_sets.len());
    for (k, (input, why)) in fails.iter().enumerate() {
        println!("VERIF-N id=N/n_c16_entry_code/call_lands_on_function:{} status=fail key=\"{}\" input=\"{}\" detail=\"{}: {}\" bound=\"{bound}\"", k + 1, why.chars().take(60).collect::<String>().replace('"', "'"), input.replace('"', "'"), input.replace('"', "'"), why.replace('"', "'"));
    }
    if fails.is_empty() {
        if built == 0 { println!("VERIF-N id=N/n_c16_entry_code/call_lands_on_function status=unknown"); } else { println!("VERIF-N id=N/n_c16_entry_code/call_lands_on_function status=ok cases={cases} distinct={built} bound=\"{bound}\""); }
    }
}
