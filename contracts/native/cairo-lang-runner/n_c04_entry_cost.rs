// N unit (C04), BOUNDED stand-in for the caller-side half of the property: "the gas deducted from
// the gas counter PLUS the statically declared entry cost of the called function is at least the
// actual cost of the trace". The entry cost is charged by the external caller - here the runner's
// `SierraCasmRunner::initial_required_gas` - which reads Metadata through an indexmap (out of
// Kani's reach) and needs a compiled program. Contract, from the property statement:
//   initial_required_gas(f) == sum over ALL tokens t of declared_cost[f][t] * price(t)
//   price table (published): Const 1, Pedersen 4050, Poseidon 491, Bitwise 583, EcOp 4085,
//                            AddMod 230, MulMod 604, Blake 3334   (checked exhaustively)
//   for each run: 100*steps + 70*range_checks + sum_b price(b)*uses(b) <= (g - gas_left) + 100
#![allow(dead_code, unused_imports)]
use std::panic::{catch_unwind, AssertUnwindSafe};

use cairo_lang_sierra::extensions::gas::CostTokenType;
use cairo_lang_sierra::ProgramParser;
use cairo_vm::types::builtin_name::BuiltinName;
use num_traits::ToPrimitive;
use starknet_types_core::felt::Felt as Felt252;

use crate::{token_gas_cost, Arg, RunResultValue, SierraCasmRunner};

fn published_price(t: CostTokenType) -> Option<usize> {
    Some(match t {
        CostTokenType::Const => 1,
        CostTokenType::Pedersen => 4050,
        CostTokenType::Poseidon => 491,
        CostTokenType::Bitwise => 583,
        CostTokenType::EcOp => 4085,
        CostTokenType::AddMod => 230,
        CostTokenType::MulMod => 604,
        CostTokenType::Blake => 3334,
        _ => return None, // pre-cost tokens (steps/holes/range checks) are never charged as such
    })
}

/// foo(Pedersen, GasBuiltin, felt252) with `k` pedersen calls and no withdraw_gas: the Pedersen
/// tokens are part of the declared entry cost.
fn program(k: usize) -> String {
    let mut s = String::from("type felt252 = felt252;\ntype Pedersen = Pedersen;\ntype GasBuiltin = GasBuiltin;\n\nlibfunc pedersen = pedersen;\nlibfunc dup<felt252> = dup<felt252>;\nlibfunc store_temp<Pedersen> = store_temp<Pedersen>;\nlibfunc store_temp<GasBuiltin> = store_temp<GasBuiltin>;\nlibfunc store_temp<felt252> = store_temp<felt252>;\n\n");
    // vars: [0] pedersen, [1] gas, [2] x ; acc in [10+i]
    let mut ped = 0usize; // current pedersen var id
    let mut acc = 2usize;
    let mut next = 10usize;
    for _ in 0..k {
        s += &format!("dup<felt252>([{acc}]) -> ([{acc}], [{}]);\n", next);
        s += &format!("pedersen([{ped}], [{acc}], [{}]) -> ([{}], [{}]);\n", next, next + 1, next + 2);
        s += &format!("store_temp<felt252>([{}]) -> ([{}]);\n", next + 2, next + 2);
        ped = next + 1;
        acc = next + 2;
        next += 3;
    }
    s += &format!("store_temp<Pedersen>([{ped}]) -> ([{ped}]);\nstore_temp<GasBuiltin>([1]) -> ([1]);\nstore_temp<felt252>([{acc}]) -> ([{acc}]);\nreturn([{ped}], [1], [{acc}]);\n\n");
    s += "test::foo@0([0]: Pedersen, [1]: GasBuiltin, [2]: felt252) -> (Pedersen, GasBuiltin, felt252);\n";
    s
}

#[test]
fn __verif_n_c04_price_table() {
    // exhaustive over the token enum: finite domain, so this one is complete
    let mut n = 0;
    let mut fail = None;
    for t in CostTokenType::iter_casm_tokens() {
        n += 1;
        if Some(token_gas_cost(*t)) != published_price(*t) { fail = Some(format!("{t:?}: token_gas_cost {} != published {:?}", token_gas_cost(*t), published_price(*t))); }
    }
    match fail {
        None => println!("VERIF-N id=N/n_c04_entry_cost/price_table status=ok cases={n} distinct={n} bound=\"every chargeable cost token (exhaustive)\""),
        Some(w) => println!("VERIF-N id=N/n_c04_entry_cost/price_table status=fail key=\"price\" input=\"{w}\" detail=\"{w}\" bound=\"every chargeable cost token\""),
    }
}

#[test]
fn __verif_n_c04_entry_cost() {
    std::panic::set_hook(Box::new(|_| {}));
    let mut cases = 0u64;
    let mut fail: Option<(String, String)> = None;
    for k in 0..4usize {
        cases += 1;
        let r = catch_unwind(AssertUnwindSafe(|| -> Option<String> {
            let runner = SierraCasmRunner::new(ProgramParser::new().parse(&program(k)).unwrap(), Some(Default::default()), Default::default(), None).ok()?;
            let func = runner.find_function("foo").ok()?;
            let declared = &runner.builder.metadata().gas_info.function_costs[&func.id];
            let mut want = 0usize;
            for (t, v) in declared.iter() { want += (*v as usize) * published_price(*t)?; }
            let got = runner.initial_required_gas(func)?;
            if got != want { return Some(format!("initial_required_gas = {got}, declared entry cost priced by the table = {want} ({declared:?})")); }
            // the inequality of the property on an actual run
            let available = 1_000_000usize;
            let res = runner.run_function_with_starknet_context(func, vec![Arg::Value(Felt252::from(7))], Some(available), Default::default()).ok()?;
            if !matches!(res.value, RunResultValue::Success(_)) { return Some("run did not succeed".into()); }
            let left = res.gas_counter?.to_usize()?;
            let b = &res.used_resources.basic_resources;
            let uses = |n: BuiltinName| b.builtin_instance_counter.get(&n).copied().unwrap_or(0);
            let trace = 100 * b.n_steps + 70 * uses(BuiltinName::range_check) + 4050 * uses(BuiltinName::pedersen);
            if trace > (available - left) + 100 { return Some(format!("undercharged: trace cost {trace} > gas charged {} + 100", available - left)); }
            // and a call with less gas than the entry cost is refused
            if want > 0 && runner.run_function_with_starknet_context(func, vec![Arg::Value(Felt252::from(7))], Some(want - 1), Default::default()).is_ok() { return Some(format!("call with {} gas (< entry cost {want}) was not refused", want - 1)); }
            None
        }));
        let why = match r { Err(_) => Some("panic".to_string()), Ok(w) => w };
        if let Some(w) = why { fail = Some((format!("function with {k} pedersen calls before any withdraw_gas"), w)); break; }
    }
    let bound = "hand-written Sierra functions with 0..=3 pedersen calls in the entry cost, one run each";
    match fail {
        None => println!("VERIF-N id=N/n_c04_entry_cost/entry_cost status=ok cases={cases} distinct={cases} bound=\"{bound}\""),
        Some((input, why)) => println!("VERIF-N id=N/n_c04_entry_cost/entry_cost status=fail key=\"{}\" input=\"{input}\" detail=\"{input}: {}\" bound=\"{bound}\"", why.replace('"', "'"), why.replace('"', "'")),
    }
}

/// The inequality of the property on runs of the repository's own gas-metered programs (loops with
/// withdraw_gas): 100*steps + 70*range_checks + sum_b price(b)*uses(b) <= (g - gas_left) + 100.
#[test]
fn __verif_n_c04_trace_cost_covered() {
    std::panic::set_hook(Box::new(|_| {}));
    let mut root = std::path::PathBuf::from(env!("CARGO_MANIFEST_DIR"));
    root.pop();
    root.pop();
    // (file, function name fragment, argument lists)
    let progs: Vec<(&str, &str, Vec<Vec<u64>>)> = vec![
        ("tests/test_data/fib_gas.sierra", "fib", vec![vec![1, 1, 0], vec![1, 1, 1], vec![1, 1, 7], vec![1, 1, 40], vec![2, 3, 100]]),
        ("tests/test_data/hash_chain_gas.sierra", "hash_chain", vec![vec![0], vec![1], vec![3], vec![20]]),
    ];
    let mut cases = 0u64;
    let mut fail: Option<(String, String)> = None;
    'o: for (file, fname, arglists) in progs {
        let Ok(src) = std::fs::read_to_string(root.join(file)) else { continue };
        for args in arglists {
            cases += 1;
            let what = format!("{file}::{fname}({args:?})");
            let r = catch_unwind(AssertUnwindSafe(|| -> Option<String> {
                let runner = SierraCasmRunner::new(ProgramParser::new().parse(&src).ok()?, Some(Default::default()), Default::default(), None).ok()?;
                let func = runner.find_function(fname).ok()?;
                let available = 10_000_000usize;
                let res = runner.run_function_with_starknet_context(func, args.iter().map(|a| Arg::Value(Felt252::from(*a))).collect(), Some(available), Default::default()).ok()?;
                let left = res.gas_counter?.to_usize()?;
                let b = &res.used_resources.basic_resources;
                let uses = |n: BuiltinName| b.builtin_instance_counter.get(&n).copied().unwrap_or(0);
                let trace = 100 * b.n_steps + 70 * uses(BuiltinName::range_check) + 4050 * uses(BuiltinName::pedersen) + 491 * uses(BuiltinName::poseidon) + 583 * uses(BuiltinName::bitwise);
                if trace > (available - left) + 100 { return Some(format!("undercharged: trace cost {trace} ({} steps) > gas charged {} + 100", b.n_steps, available - left)); }
                None
            }));
            let why = match r { Err(_) => Some("panic".to_string()), Ok(w) => w };
            if let Some(w) = why { fail = Some((what, w)); break 'o; }
        }
    }
    let bound = "fib_gas.sierra x 5 inputs, hash_chain_gas.sierra x 4 inputs (10^7 gas)";
    match fail {
        None => println!("VERIF-N id=N/n_c04_entry_cost/trace_cost_covered status=ok cases={cases} distinct={cases} bound=\"{bound}\""),
        Some((input, why)) => println!("VERIF-N id=N/n_c04_entry_cost/trace_cost_covered status=fail key=\"{}\" input=\"{input}\" detail=\"{input}: {}\" bound=\"{bound}\"", why.replace('"', "'"), why.replace('"', "'")),
    }
}

/// `initialize_vm` writes the run-time price table that compiled `withdraw_gas` / `redeposit_gas`
/// code reads through `get_builtin_costs`. Contract (the layout the compiled code assumes, written
/// here as data, not taken from the code): slot 0 Pedersen, 1 Bitwise, 2 EcOp, 3 Poseidon,
/// 4 AddMod, 5 MulMod, 6 Blake, each holding the published price; the cell after the program holds
/// the pointer to the table. Exhaustive over the 7 slots.
#[test]
fn __verif_n_c04_builtin_cost_table() {
    use cairo_vm::types::relocatable::Relocatable;
    use cairo_vm::vm::vm_core::VirtualMachine;
    std::panic::set_hook(Box::new(|_| {}));
    let want: [(usize, usize, &str); 7] = [(0, 4050, "Pedersen"), (1, 583, "Bitwise"), (2, 4085, "EcOp"), (3, 491, "Poseidon"), (4, 230, "AddMod"), (5, 604, "MulMod"), (6, 3334, "Blake")];
    let r = catch_unwind(AssertUnwindSafe(|| -> Option<String> {
        let mut vm = VirtualMachine::new(false, false);
        let prog = vm.add_memory_segment();
        let data_len = 5usize;
        if crate::initialize_vm(&mut vm, data_len).is_err() { return Some("initialize_vm failed".into()); }
        let table = match vm.get_relocatable(Relocatable { segment_index: prog.segment_index, offset: data_len }) { Ok(t) => t, Err(_) => return Some("no pointer to the builtin cost table after the program".into()) };
        for (slot, price, name) in want {
            match vm.get_integer(Relocatable { segment_index: table.segment_index, offset: table.offset + slot }) {
                Ok(v) if *v == Felt252::from(price) => {}
                Ok(v) => return Some(format!("slot {slot} ({name}) holds {} instead of the published price {price}", *v)),
                Err(_) => return Some(format!("slot {slot} ({name}) is not initialised")),
            }
        }
        None
    }));
    let why = match r { Err(_) => Some("panic".to_string()), Ok(w) => w };
    match why {
        None => println!("VERIF-N id=N/n_c04_entry_cost/builtin_cost_table status=ok cases=7 distinct=7 bound=\"all 7 slots of the run-time builtin price table (exhaustive)\""),
        Some(w) => println!("VERIF-N id=N/n_c04_entry_cost/builtin_cost_table status=fail key=\"{}\" input=\"initialize_vm(vm, 5)\" detail=\"{}\" bound=\"all 7 slots\"", w.replace('"', "'"), w.replace('"', "'")),
    }
}
