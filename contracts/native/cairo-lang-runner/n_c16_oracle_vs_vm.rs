// N unit (C16), BOUNDED validation of assumption A5: the oracle that every C16 proof is stated
// against - `spec_decode` (word layout) and `vm_step` (state transition), written from the Cairo
// machine definition - is compared with what the REAL cairo-vm does. Programs are run on the real
// VM; for EVERY step of the relocated trace the instruction word at pc is decoded with the oracle
// and the oracle's transition, evaluated on the real final memory (Cairo memory is write-once),
// must give exactly the next (pc, ap, fp) of the trace, the asserted equation must hold in memory
// and a call must have written (fp, return pc). Corpus: hand-written CASM covering every operand
// form plus compiled Sierra examples (thousands of steps).
#![allow(dead_code, unused_imports)]
use std::panic::{catch_unwind, AssertUnwindSafe};

use cairo_lang_casm::casm;
use cairo_lang_casm::inline::CasmContext;
use cairo_lang_sierra::ProgramParser;
use cairo_lang_sierra_to_casm::compiler::{CairoProgram, CairoProgramDebugInfo};
use num_bigint::BigUint;
use num_traits::ToPrimitive;
use starknet_types_core::felt::Felt as Felt252;

use crate::casm_run::{run_function, RunFunctionResult};
use crate::{build_hints_dict, initialize_vm, Arg, CairoHintProcessor, SierraCasmRunner, StarknetState};

mod oracle_imports {
    pub use cairo_lang_casm::assembler::*;
    pub use cairo_lang_casm::instructions::*;
    pub use cairo_lang_casm::operand::*;
}
#[path = "../../kani/cairo-lang-casm/c16_oracle.rs"]
mod oracle;
use oracle::*;

struct Mem<'a>(&'a [Option<Felt252>]);
impl Mem<'_> {
    fn get(&self, a: i64) -> Option<Felt252> { if a < 0 { None } else { self.0.get(a as usize).copied().flatten() } }
    fn addr(&self, a: i64) -> Option<i64> { self.get(a)?.to_biguint().to_i64() }
}
fn eval(m: &Mem, v: Val, pc: i64) -> Option<Felt252> {
    Some(match v {
        Val::Cell(a) => m.get(a)?,
        Val::Imm => m.get(pc + 1)?,
        Val::Add(a, b, imm) => m.get(a)? + if imm { m.get(pc + 1)? } else { m.get(b)? },
        Val::Mul(a, b, imm) => m.get(a)? * if imm { m.get(pc + 1)? } else { m.get(b)? },
        Val::DD(a, off) => m.get(m.addr(a)? + off as i64)?,
        Val::None => return None,
    })
}
fn felt_i64(f: Felt252) -> Option<i64> {
    // small positive or small negative (mod P) values
    if let Some(v) = f.to_biguint().to_i64() { return Some(v); }
    (-f).to_biguint().to_i64().map(|v| -v)
}

/// Checks one run; returns the number of steps checked or the first disagreement.
fn conform(res: &RunFunctionResult) -> Result<usize, String> {
    let m = Mem(&res.memory);
    let t = &res.relocated_trace;
    for i in 0..t.len().saturating_sub(1) {
        let (pc, ap, fp) = (t[i].pc as i64, t[i].ap as i64, t[i].fp as i64);
        let (npc, nap, nfp) = (t[i + 1].pc as i64, t[i + 1].ap as i64, t[i + 1].fp as i64);
        let w = m.get(pc).ok_or(format!("step {i}: no instruction word at pc {pc}"))?.to_biguint().to_u128().ok_or(format!("step {i}: instruction word does not fit 128 bits"))?;
        let d = spec_decode(w).ok_or(format!("step {i}: the VM executed word {w:#x} which the layout oracle does not decode"))?;
        let s = vm_step(d, St { pc, ap, fp }).ok_or(format!("step {i}: the VM executed {d:?}, which the oracle's vm_step rejects"))?;
        let bad = |what: &str| format!("step {i} at pc {pc} ({d:?}): {what}");
        let want_pc = match s.pc {
            Next::Seq(n) => pc + n,
            Next::Abs(v) => felt_i64(eval(&m, v, pc).ok_or(bad("unknown jump target"))?).ok_or(bad("jump target"))?,
            Next::Rel(v) => pc + felt_i64(eval(&m, v, pc).ok_or(bad("unknown jump offset"))?).ok_or(bad("jump offset"))?,
            Next::JnzRel(c, v, n) => if m.get(c).ok_or(bad("unknown condition cell"))? != Felt252::from(0) { pc + felt_i64(eval(&m, v, pc).ok_or(bad("unknown jnz offset"))?).ok_or(bad("jnz offset"))? } else { pc + n },
        };
        if want_pc != npc { return Err(bad(&format!("oracle next pc {want_pc}, VM next pc {npc}"))); }
        let want_ap = match s.ap { ApNext::Same => ap, ApNext::Plus(k) => ap + k, ApNext::PlusRes(v) => ap + felt_i64(eval(&m, v, pc).ok_or(bad("unknown ap increment"))?).ok_or(bad("ap increment"))? };
        if want_ap != nap { return Err(bad(&format!("oracle next ap {want_ap}, VM next ap {nap}"))); }
        let want_fp = match s.fp { FpNext::Same => fp, FpNext::ApPlus2 => ap + 2, FpNext::FromCell(a) => m.addr(a).ok_or(bad("unknown saved fp"))? };
        if want_fp != nfp { return Err(bad(&format!("oracle next fp {want_fp}, VM next fp {nfp}"))); }
        if let Some((dst, v)) = s.assert_eq {
            if !s.qm31 { // QM31 arithmetic is not the felt arithmetic evaluated here
                let (l, r) = (m.get(dst).ok_or(bad("asserted cell unknown after the step"))?, eval(&m, v, pc).ok_or(bad("asserted value unknown after the step"))?);
                if l != r { return Err(bad(&format!("oracle says [{dst}] == res, memory has {l} vs {r}"))); }
            }
        }
        if let Some((a, b, size)) = s.call_writes {
            if m.addr(a) != Some(fp) || m.addr(b) != Some(pc + size) { return Err(bad("call did not write (fp, return pc) where the oracle says")); }
        }
    }
    Ok(t.len().saturating_sub(1))
}

fn run_casm(ctx: CasmContext) -> Option<RunFunctionResult> {
    let program = CairoProgram { instructions: ctx.instructions, consts_info: Default::default(), debug_info: CairoProgramDebugInfo { sierra_statement_info: vec![] } }.assemble();
    let (hints_dict, string_to_hint) = build_hints_dict(&program.hints);
    let mut hp = CairoHintProcessor { runner: None, user_args: vec![], starknet_state: StarknetState::default(), string_to_hint, run_resources: Default::default(), syscalls_used_resources: Default::default(), no_temporary_segments: true, markers: Default::default(), panic_traceback: Default::default() };
    run_function(program.bytecode.iter(), vec![], |_| Ok(()), &mut hp, hints_dict).ok()
}

#[test]
fn __verif_n_c16_oracle_vs_vm() {
    std::panic::set_hook(Box::new(|_| {}));
    let mut steps = 0usize;
    let mut runs = 0u64;
    let mut fail: Option<(String, String)> = None;
    // hand-written CASM: every operand form, both registers, call/ret, jumps, jnz both ways, ap +=
    let snippets: Vec<(&str, CasmContext)> = vec![
        ("asserts", casm! {
            [ap] = 10, ap++;
            [ap] = 20, ap++;
            [ap] = [ap - 1] + [ap - 2], ap++;
            [ap] = [fp + 0] * [ap - 2], ap++;
            [ap] = [ap - 1] + 7, ap++;
            [ap] = [fp + 1] * 3, ap++;
            [ap + 1] = [ap - 1];
            [fp + 6] = [fp + 0], ap++;
            ap += 1;
            [ap] = [fp + 2], ap++;
            [ap - 1] = [fp + 2];
            ret;
        }),
        ("control", casm! {
            [ap] = 1, ap++;
            jmp rel 2 if [ap - 1] != 0;
            [ap] = 5, ap++;
            [ap] = 0, ap++;
            jmp rel 4 if [ap - 1] != 0, ap++;
            [ap - 1] = 9;
            jmp rel 4;
            [ap] = 3, ap++;
            [ap] = 4, ap++;
            ap += 3;
            [ap] = 2, ap++;
            ap += [ap - 1];
            [ap] = 6, ap++;
            ret;
        }),
        ("calls", casm! {
            [ap] = 11, ap++;
            call rel 5;
            [ap] = [ap - 1] + 1, ap++;
            ret;
            // callee: reads its argument at [fp - 3], double deref through the saved fp at [fp - 2]
            [ap] = [fp - 3], ap++;
            [ap] = [[fp - 2] + 0], ap++;
            [ap] = [ap - 1] + [ap - 2], ap++;
            ret;
        }),
    ];
    for (name, ctx) in snippets {
        runs += 1;
        match catch_unwind(AssertUnwindSafe(|| run_casm(ctx).map(|r| conform(&r)))) {
            Ok(Some(Ok(n))) => steps += n,
            Ok(Some(Err(w))) => { fail = Some((format!("casm snippet `{name}`"), w)); break; }
            Ok(None) => { fail = Some((format!("casm snippet `{name}`"), "the VM run failed (bad test program)".into())); break; }
            Err(_) => { fail = Some((format!("casm snippet `{name}`"), "panic".into())); break; }
        }
    }
    // compiled Sierra programs
    let mut root = std::path::PathBuf::from(env!("CARGO_MANIFEST_DIR"));
    root.pop();
    root.pop();
    let progs: Vec<(&str, &str, Vec<u64>)> = vec![
        ("crates/cairo-lang-sierra/examples/fib_no_gas.sierra", "Fibonacci", vec![1, 1, 300]),
        ("tests/test_data/fib_gas.sierra", "fib", vec![1, 1, 150]),
        ("tests/test_data/hash_chain_gas.sierra", "hash_chain", vec![40]),
        ("tests/test_data/fib_local.sierra", "fib", vec![1, 1, 9]),
        ("tests/test_data/fib_box.sierra", "fib", vec![1, 1, 8]),
        ("tests/test_data/fib_struct.sierra", "fib", vec![1, 1, 8]),
        ("tests/test_data/fib_match.sierra", "fib", vec![7]),
        ("tests/test_data/enum_flow.sierra", "main", vec![]),
    ];
    if fail.is_none() {
        for (file, fname, args) in progs {
            let Ok(src) = std::fs::read_to_string(root.join(file)) else { continue };
            let r = catch_unwind(AssertUnwindSafe(|| -> Option<Result<usize, String>> {
                let program = ProgramParser::new().parse(&src).ok()?;
                let gas = src.contains("GasBuiltin");
                let runner = SierraCasmRunner::new(program, if gas { Some(Default::default()) } else { None }, Default::default(), None).ok()?;
                let f = runner.find_function(fname).ok()?;
                let (mut hp, ctx) = runner.prepare_starknet_context(f, args.iter().map(|a| Arg::Value(Felt252::from(*a))).collect(), if gas { Some(10_000_000) } else { None }, StarknetState::default()).ok()?;
                let data_len = ctx.bytecode.len();
                let res = run_function(ctx.bytecode.iter(), ctx.builtins.clone(), |vm| initialize_vm(vm, data_len), &mut hp, ctx.hints_dict.clone()).ok()?;
                Some(conform(&res))
            }));
            match r {
                Ok(Some(Ok(n))) => { runs += 1; steps += n; }
                Ok(Some(Err(w))) => { fail = Some((format!("{file}::{fname}({args:?})"), w)); break; }
                Ok(None) => {} // program needs another setup: skipped
                Err(_) => { fail = Some((format!("{file}::{fname}"), "panic".into())); break; }
            }
        }
    }
    let bound = format!("{runs} runs on the real VM, {steps} trace steps compared");
    match fail {
        None => println!("VERIF-N id=N/n_c16_oracle_vs_vm/trace_conformance status=ok cases={} distinct={runs} bound=\"{bound}\"", steps.max(1)),
        Some((input, why)) => println!("VERIF-N id=N/n_c16_oracle_vs_vm/trace_conformance status=fail key=\"{}\" input=\"{input}\" detail=\"{input}: oracle and cairo-vm disagree: {}\" bound=\"{bound}\"", why.replace('"', "'").chars().take(120).collect::<String>(), why.replace('"', "'")),
    }
}
