// N unit (C04 + C17), BOUNDED stand-in for the two trace-level statements that no contract here can
// reach (they quantify over executions of compiled programs):
//   C04  100*steps + 70*range_checks + sum_b price(b)*uses(b) <= (g - gas_left) + 100
//   C17  for every dynamic call instance of a function f with a declared ap change k:
//        ap_at_ret - ap_at_entry == k; every executed pc of the program lies in the recorded byte
//        range of exactly one Sierra statement.
// Corpus: Cairo programs (below: recursion, loops, arrays, dictionaries and their squashing, hashes,
// bitwise, u256/u512 arithmetic, EC operations, byte arrays, circuits, panics) compiled by the real
// compiler with automatic gas withdrawal, run on the real VM on a few inputs each, under BOTH
// metadata solvers (linear and equation solver) - C04: "whichever gas solver produced the cost
// metadata". Prices are read from the runner's own table (token_gas_cost), "priced by the same table".
#![allow(dead_code, unused_imports)]
use std::collections::HashMap;
use std::panic::{catch_unwind, AssertUnwindSafe};

use cairo_lang_runnable_utils::builder::RunnableBuilder;
use cairo_lang_sierra::extensions::gas::CostTokenType;
use cairo_lang_sierra::program::{Program, StatementIdx};
use cairo_lang_sierra_to_casm::compiler::StatementKindDebugInfo;
use cairo_lang_sierra_to_casm::metadata::MetadataComputationConfig;
use cairo_vm::types::builtin_name::BuiltinName;
use num_traits::ToPrimitive;
use starknet_types_core::felt::Felt as Felt252;

use crate::casm_run::{run_function, RunFunctionResult};
use crate::{initialize_vm, token_gas_cost, Arg, PreparedStarknetContext, SierraCasmRunner, StarknetState};

/// (name, Cairo source, [(function, argument lists)])
fn corpus() -> Vec<(&'static str, &'static str, Vec<(&'static str, Vec<Vec<u128>>)>)> {
    vec![
        ("recursion", r#"
fn fib(n: felt252) -> felt252 { if n == 0 { 1 } else if n == 1 { 1 } else { fib(n - 1) + fib(n - 2) } }
fn fact(n: u64) -> u64 { if n == 0 { 1 } else { n * fact(n - 1) } }
"#, vec![("fib", vec![vec![0], vec![1], vec![7], vec![12]]), ("fact", vec![vec![0], vec![5], vec![20], vec![25]])]),
        ("arrays", r#"
fn sum_to(n: u32) -> u32 {
    let mut arr = array![];
    let mut i = 0_u32;
    while i != n { arr.append(i); i += 1; };
    let mut s = 0_u32;
    let mut span = arr.span();
    loop { match span.pop_front() { Option::Some(x) => { s += *x; }, Option::None => { break; } } };
    match span.pop_back() { Option::Some(x) => *x, Option::None => s }
}
fn index(n: u32) -> felt252 { let arr = array![10, 20, 30]; *arr.at(n) }
"#, vec![("sum_to", vec![vec![0], vec![1], vec![10], vec![100]]), ("index", vec![vec![0], vec![2], vec![3]])]),
        ("dicts", r#"
use core::dict::Felt252Dict;
fn dict_ops(n: felt252) -> felt252 {
    let mut d: Felt252Dict<felt252> = Default::default();
    let mut i = 0;
    while i != n { d.insert(i, i * 2); d.insert(0, i); i += 1; };
    d.get(0) + d.get(n - 1) + d.get(1000)
}
fn two_dicts(n: u64) -> u64 {
    let mut a: Felt252Dict<u64> = Default::default();
    let mut b: Felt252Dict<u64> = Default::default();
    let mut i = 0_u64;
    while i != n { a.insert(i.into(), i); b.insert((i % 3).into(), a.get(i.into()) + b.get(0)); i += 1; };
    a.get(0) + b.get(1)
}
"#, vec![("dict_ops", vec![vec![1], vec![2], vec![10], vec![40]]), ("two_dicts", vec![vec![0], vec![1], vec![7], vec![30]])]),
        ("hashes", r#"
fn hash_loop(n: felt252) -> felt252 {
    let mut h = 0;
    let mut i = 0;
    while i != n {
        h = core::pedersen::pedersen(h, i);
        let (a, _, _) = core::poseidon::hades_permutation(h, i, 2);
        h = a;
        i += 1;
    };
    h
}
fn poseidon_span(n: u32) -> felt252 {
    let mut arr = array![];
    let mut i = 0_u32;
    while i != n { arr.append(i.into()); i += 1; };
    core::poseidon::poseidon_hash_span(arr.span())
}
"#, vec![("hash_loop", vec![vec![0], vec![1], vec![5], vec![30]]), ("poseidon_span", vec![vec![0], vec![1], vec![2], vec![9]])]),
        ("ints", r#"
fn u256_ops(a: u128, b: u128) -> u128 {
    let x = u256 { low: a, high: b };
    let y = u256 { low: b, high: 1 };
    let q = x / y;
    let r = x % y;
    let m = (a & b) | (a ^ b);
    (q.low ^ r.low) & m
}
fn u256_mul(a: u128, b: u128) -> u128 { let x = u256 { low: a, high: 0 } * u256 { low: b, high: 0 }; x.high }
fn small_ints(a: u8, b: u8) -> u8 { let c = a / (b | 1); let d = a % (b | 1); c + d }
fn sqrt(a: u128) -> u64 { core::num::traits::Sqrt::sqrt(a) }
fn wide(a: u128, b: u128) -> u128 {
    let x = core::num::traits::WideMul::wide_mul(u256 { low: a, high: b }, u256 { low: b, high: a });
    let (q, r) = core::integer::u512_safe_div_rem_by_u256(x, u256 { low: 7, high: 1 }.try_into().unwrap());
    q.limb0 ^ r.low
}
"#, vec![("u256_ops", vec![vec![0, 0], vec![5, 9], vec![u128::MAX, u128::MAX]]), ("u256_mul", vec![vec![3, 4], vec![u128::MAX, 2], vec![u128::MAX, u128::MAX]]),
         ("small_ints", vec![vec![0, 0], vec![255, 1], vec![200, 100]]), ("sqrt", vec![vec![0], vec![17], vec![u128::MAX]]), ("wide", vec![vec![0, 0], vec![3, 5], vec![u128::MAX, u128::MAX]])]),
        ("ec", r#"
use core::ec::{EcPointTrait, EcStateTrait};
fn ec_mul(k: felt252) -> felt252 {
    let g = EcPointTrait::new(core::ec::stark_curve::GEN_X, core::ec::stark_curve::GEN_Y).unwrap();
    let mut s = EcStateTrait::init();
    s.add_mul(k, g.try_into().unwrap());
    match s.finalize_nz() { Option::Some(p) => { let (x, _) = p.coordinates(); x }, Option::None => 0 }
}
"#, vec![("ec_mul", vec![vec![0], vec![1], vec![12345]])]),
        ("enums_boxes", r#"
#[derive(Copy, Drop)]
enum Shape { Dot, Line: u32, Rect: (u32, u32), Cube: (u32, u32, u32) }
fn area(k: u32, a: u32) -> u32 {
    let s = if k == 0 { Shape::Dot } else if k == 1 { Shape::Line(a) } else if k == 2 { Shape::Rect((a, a + 1)) } else { Shape::Cube((a, a, a)) };
    let b = BoxTrait::new(s);
    match b.unbox() { Shape::Dot => 0, Shape::Line(l) => l, Shape::Rect((x, y)) => x * y, Shape::Cube((x, y, z)) => x * y * z }
}
fn nullable(n: u32) -> u32 {
    let v: Nullable<u32> = if n == 0 { Default::default() } else { NullableTrait::new(n) };
    match core::nullable::match_nullable(v) { core::nullable::FromNullableResult::Null => 7, core::nullable::FromNullableResult::NotNull(b) => b.unbox() }
}
"#, vec![("area", vec![vec![0, 3], vec![1, 3], vec![2, 3], vec![3, 3], vec![3, 100000]]), ("nullable", vec![vec![0], vec![9]])]),
        ("byte_arrays", r#"
fn fmt(n: u32) -> u32 {
    let s: ByteArray = format!("value {} and {:?}", n, n + 1);
    let mut t: ByteArray = "prefix: ";
    t.append(@s);
    t.len()
}
fn rev(n: u32) -> u32 {
    let mut b: ByteArray = "";
    let mut i = 0_u32;
    while i != n { b.append_byte((i % 200).try_into().unwrap()); i += 1; };
    b.rev().len()
}
"#, vec![("fmt", vec![vec![0], vec![123456789]]), ("rev", vec![vec![0], vec![1], vec![31], vec![70]])]),
        ("panics", r#"
fn checked(a: u8, b: u8) -> u8 { assert!(a != 3, "three"); a + b }
fn deep(n: u32) -> u32 { if n == 0 { let arr: Array<u32> = array![]; *arr.at(0) } else { deep(n - 1) + 1 } }
"#, vec![("checked", vec![vec![1, 2], vec![3, 0], vec![200, 100]]), ("deep", vec![vec![0], vec![5], vec![50]])]),
        ("locals", r#"
#[inline(never)]
fn mix(a: felt252, b: felt252, c: felt252) -> felt252 { a * b + c }
fn locals(n: felt252) -> felt252 {
    let a = mix(n, 2, 3);
    let b = mix(a, n, 5);
    let c = mix(b, a, n);
    let d = if n == 0 { mix(a, b, c) } else { mix(c, b, a) + mix(a, a, a) };
    a + b + c + d
}
"#, vec![("locals", vec![vec![0], vec![1], vec![99]])]),
        ("signed_and_bounded", r#"
fn signed(a: felt252, b: felt252) -> felt252 {
    let x: i128 = match a.try_into() { Option::Some(v) => v, Option::None => -5 };
    let y: i64 = match b.try_into() { Option::Some(v) => v, Option::None => 7 };
    let z: i128 = x - y.into();
    let w: i8 = if z > 100 { 100 } else if z < -100 { -100 } else { z.try_into().unwrap() };
    let q: i16 = w.into() * 3;
    let (d, r) = core::traits::DivRem::div_rem(1000_u32, (b.try_into().unwrap_or(3_u32) | 1).try_into().unwrap());
    q.into() + d.into() + r.into()
}
fn wide_mul(a: u64, b: u64) -> u64 { let p: u128 = core::num::traits::WideMul::wide_mul(a, b); (p % 1000000007).try_into().unwrap() }
fn overflowing(a: u8, b: u8) -> u8 {
    let (s, o1) = core::num::traits::OverflowingAdd::overflowing_add(a, b);
    let (m, o2) = core::num::traits::OverflowingMul::overflowing_mul(a, b);
    let w = core::num::traits::WrappingSub::wrapping_sub(a, b);
    if o1 { if o2 { s ^ m } else { w } } else { s | w }
}
"#, vec![("signed", vec![vec![5, 3], vec![0, 0], vec![1000000, 1]]), ("wide_mul", vec![vec![0, 0], vec![u64::MAX as u128, u64::MAX as u128], vec![12345, 6789]]), ("overflowing", vec![vec![0, 0], vec![200, 100], vec![255, 255]])]),
        ("structs_and_spans", r#"
#[derive(Copy, Drop)]
struct P { x: u32, y: u32 }
#[derive(Drop)]
struct Bag { items: Array<P>, total: u64 }
fn build(n: u32) -> u64 {
    let mut bag = Bag { items: array![], total: 0 };
    let mut i = 0_u32;
    while i != n { bag.items.append(P { x: i, y: i * 2 }); bag.total += (i * 3).into(); i += 1; };
    let span = bag.items.span();
    let half = span.slice(0, span.len() / 2);
    let mut acc = bag.total;
    for p in half { acc += (*p.x + *p.y).into(); };
    match span.get(n) { Option::Some(b) => acc + (*b.unbox().x).into(), Option::None => acc }
}
fn early(n: u32) -> u32 {
    let mut i = 0_u32;
    let r = loop { if i == n { break i * 2; } if i == 17 { break 1000; } i += 1; };
    if r > 500 { return r - 1; }
    r + 1
}
"#, vec![("build", vec![vec![0], vec![1], vec![9], vec![40]]), ("early", vec![vec![0], vec![5], vec![30]])]),
        ("many_variants", r#"
#[derive(Copy, Drop)]
enum Op { A, B: u8, C: u16, D: u32, E: u64, F: u128, G: felt252, H: (u8, u8), I: (u64, u64, u64), J }
fn pick(k: u8) -> Op {
    if k == 0 { Op::A } else if k == 1 { Op::B(1) } else if k == 2 { Op::C(2) } else if k == 3 { Op::D(3) } else if k == 4 { Op::E(4) }
    else if k == 5 { Op::F(5) } else if k == 6 { Op::G(6) } else if k == 7 { Op::H((7, 7)) } else if k == 8 { Op::I((8, 8, 8)) } else { Op::J }
}
fn eval(k: u8) -> felt252 {
    match pick(k) { Op::A => 0, Op::B(v) => v.into(), Op::C(v) => v.into(), Op::D(v) => v.into(), Op::E(v) => v.into(), Op::F(v) => v.into(), Op::G(v) => v,
        Op::H((a, b)) => (a + b).into(), Op::I((a, b, c)) => (a + b + c).into(), Op::J => 99 }
}
fn eval_snap(k: u8) -> felt252 { let o = pick(k); let s = @o; match s { Op::A => 1, Op::I((a, _, _)) => (*a).into(), Op::J => 2, _ => 3 } }
"#, vec![("eval", vec![vec![0], vec![4], vec![7], vec![8], vec![9]]), ("eval_snap", vec![vec![0], vec![8], vec![9], vec![3]])]),
        ("felt_and_div", r#"
fn inv_sum(n: felt252) -> felt252 {
    let mut i = 1;
    let mut acc = 0;
    while i != n + 1 { acc += core::felt252_div(1, i.try_into().unwrap()); i += 1; };
    acc
}
fn u256_sqrt_sum(a: u128, b: u128) -> u128 {
    let r: u128 = core::num::traits::Sqrt::sqrt(u256 { low: a, high: b });
    let s: u64 = core::num::traits::Sqrt::sqrt(a);
    r + s.into()
}
fn byte_rev(a: u128) -> u128 { core::integer::u128_byte_reverse(a) }
"#, vec![("inv_sum", vec![vec![0], vec![1], vec![12]]), ("u256_sqrt_sum", vec![vec![0, 0], vec![99, 7], vec![u128::MAX, u128::MAX]]), ("byte_rev", vec![vec![0], vec![0x0102030405060708]])]),
        ("dict_in_struct", r#"
use core::dict::Felt252Dict;
#[derive(Destruct)]
struct Cache { hits: Felt252Dict<u32>, misses: u32 }
fn touch(ref c: Cache, k: felt252) { let v = c.hits.get(k); if v == 0 { c.misses += 1; } c.hits.insert(k, v + 1); }
fn run_cache(n: u32) -> u32 {
    let mut c = Cache { hits: Default::default(), misses: 0 };
    let mut i = 0_u32;
    while i != n { touch(ref c, (i % 5).into()); touch(ref c, i.into()); i += 1; };
    c.misses + c.hits.get(0)
}
fn nullable_dict(n: u32) -> u32 {
    let mut d: Felt252Dict<Nullable<Span<u32>>> = Default::default();
    let mut i = 0_u32;
    while i != n { d.insert(i.into(), NullableTrait::new(array![i, i + 1].span())); i += 1; };
    match core::nullable::match_nullable(d.get(0)) { core::nullable::FromNullableResult::Null => 0, core::nullable::FromNullableResult::NotNull(b) => b.unbox().len() }
}
"#, vec![("run_cache", vec![vec![0], vec![1], vec![12], vec![60]]), ("nullable_dict", vec![vec![0], vec![3], vec![25]])]),
        ("circuits", r#"
use core::circuit::{
    AddInputResultTrait, CircuitElement, CircuitInput, CircuitInputs, CircuitModulus, CircuitOutputsTrait, EvalCircuitTrait, circuit_add, circuit_inverse,
    circuit_mul, circuit_sub, u384, u96,
};
fn pick(x: u128) -> u96 { let r = x % 7; if r == 0 { 0 } else if r == 1 { 1 } else if r == 2 { 2 } else if r == 3 { 3 } else if r == 4 { 4 } else if r == 5 { 5 } else { 6 } }
fn circ(a: u128, b: u128) -> felt252 {
    let in1 = CircuitElement::<CircuitInput<0>> {};
    let in2 = CircuitElement::<CircuitInput<1>> {};
    let add = circuit_add(in1, in2);
    let inv = circuit_inverse(add);
    let sub = circuit_sub(inv, in2);
    let mul = circuit_mul(inv, sub);
    let modulus = TryInto::<_, CircuitModulus>::try_into([7, 0, 0, 0]).unwrap();
    let a: u96 = pick(a);
    let b: u96 = pick(b);
    match (mul,).new_inputs().next([a, 0, 0, 0]).next([b, 0, 0, 0]).done().eval(modulus) {
        Result::Ok(outputs) => { let r: u384 = outputs.get_output(mul); r.limb0.into() + r.limb1.into() },
        Result::Err(_) => 1000,
    }
}
fn inv_loop(x: u128, n: u32) -> felt252 {
    // n evaluations of a one-gate circuit (the inverse of x mod 55): fails for x sharing a factor with 55
    let mut acc = 0;
    let mut i = 0_u32;
    while i != n {
        let in1 = CircuitElement::<CircuitInput<0>> {};
        let inv = circuit_inverse(in1);
        let modulus = TryInto::<_, CircuitModulus>::try_into([55, 0, 0, 0]).unwrap();
        let v: u96 = pick55(x);
        acc += match (inv,).new_inputs().next([v, 0, 0, 0]).done().eval(modulus) {
            Result::Ok(outputs) => { let r: u384 = outputs.get_output(inv); r.limb0.into() },
            Result::Err(_) => 1000,
        };
        i += 1;
    };
    acc
}
fn pick55(x: u128) -> u96 { let r = x % 4; if r == 0 { 0 } else if r == 1 { 7 } else if r == 2 { 11 } else { 5 } }
"#, vec![("circ", vec![vec![3, 6], vec![1, 6], vec![2, 2]]), ("inv_loop", vec![vec![1, 1], vec![2, 1], vec![2, 4], vec![0, 2], vec![3, 3]])]),
    ]
}

/// Programs of the repository's examples/ directory (read at run time): (file, function, argument lists).
fn repo_examples() -> Vec<(&'static str, &'static str, Vec<Vec<u128>>)> {
    vec![
        ("fib", "fib", vec![vec![1, 1, 0], vec![1, 1, 10], vec![1, 2, 40]]),
        ("fib_counter", "fib", vec![vec![1, 1, 0], vec![1, 1, 12]]),
        ("fib_local", "fib", vec![vec![0], vec![1], vec![9]]),
        ("fib_loop", "fib", vec![vec![1, 1, 0], vec![1, 1, 25]]),
        ("fib_match", "fib", vec![vec![0], vec![1], vec![8]]),
        ("fib_struct", "fib", vec![vec![1, 1, 7]]),
        ("fib_u128", "fib", vec![vec![1, 1, 0], vec![1, 1, 50], vec![1, 1, 200]]),
        ("fib_u128_checked", "fib", vec![vec![1, 1, 10], vec![1, 1, 200]]),
        ("fib_unary", "fib", vec![vec![0], vec![6]]),
        ("hash_chain", "hash_chain", vec![vec![0], vec![3]]),
        ("hash_chain_gas", "hash_chain", vec![vec![0], vec![3], vec![15]]),
        ("enum_flow", "main", vec![vec![]]),
        ("pedersen_test", "test_pedersen", vec![vec![]]),
        ("trim_unused_params", "overwritten_in_loop", vec![vec![0], vec![5]]),
    ]
}

fn compile_cairo(name: &str, code: &str) -> Result<Program, String> {
    let mut dir = std::path::PathBuf::from(env!("CARGO_MANIFEST_DIR"));
    dir.pop();
    dir.pop();
    dir.push("__verif_cairo_tmp");
    std::fs::create_dir_all(&dir).map_err(|e| e.to_string())?;
    let path = dir.join(format!("{name}.cairo"));
    std::fs::write(&path, code).map_err(|e| e.to_string())?;
    let r = cairo_lang_compiler::compile_cairo_project_at_path(&path, cairo_lang_compiler::CompilerConfig { replace_ids: true, ..Default::default() }, Default::default());
    let _ = std::fs::remove_file(&path);
    r.map_err(|e| format!("{e:?}"))
}

fn price(b: BuiltinName) -> Option<usize> {
    Some(match b {
        BuiltinName::range_check => 70,
        BuiltinName::range_check96 => 56,
        BuiltinName::pedersen => token_gas_cost(CostTokenType::Pedersen),
        BuiltinName::poseidon => token_gas_cost(CostTokenType::Poseidon),
        BuiltinName::bitwise => token_gas_cost(CostTokenType::Bitwise),
        BuiltinName::ec_op => token_gas_cost(CostTokenType::EcOp),
        BuiltinName::add_mod => token_gas_cost(CostTokenType::AddMod),
        BuiltinName::mul_mod => token_gas_cost(CostTokenType::MulMod),
        _ => return None,
    })
}

/// One run: returns (C04 defect, C17 defect).
fn one_run(program: &Program, config: &MetadataComputationConfig, fname: &str, args: &[u128], available: usize) -> Result<(Option<String>, Option<String>, usize), String> {
    let runner = SierraCasmRunner::new(program.clone(), Some(config.clone()), Default::default(), None).map_err(|e| format!("runner: {e}"))?;
    let func = runner.find_function(fname).map_err(|e| format!("find: {e}"))?;
    let argv: Vec<Arg> = args.iter().map(|a| Arg::Value(Felt252::from(*a))).collect();
    // C04
    let res = runner.run_function_with_starknet_context(func, argv.clone(), Some(available), Default::default()).map_err(|e| format!("run: {e}"))?;
    let mut c04 = None;
    if let Some(left) = res.gas_counter.and_then(|g| g.to_usize()) {
        let b = &res.used_resources.basic_resources;
        let mut trace = 100 * b.n_steps;
        for (name, uses) in b.builtin_instance_counter.iter() { if let Some(p) = price(*name) { trace += p * uses; } }
        let charged = available - left;
        if trace > charged + 100 { c04 = Some(format!("undercharged: trace cost {trace} ({} steps, builtins {:?}) > gas charged {charged} + 100", b.n_steps, b.builtin_instance_counter)); }
        // "no program can execute more than (available gas / step price) steps"
        else if 100 * b.n_steps > available + 100 { c04 = Some(format!("{} steps executed with only {available} gas available", b.n_steps)); }
    }
    // C17
    let builder = RunnableBuilder::new(program.clone(), Some(config.clone())).map_err(|e| format!("builder: {e}"))?;
    let info = &builder.casm_program().debug_info.sierra_statement_info;
    let declared = &builder.metadata().ap_change_info.function_ap_change;
    let (mut hp, PreparedStarknetContext { hints_dict, bytecode, builtins }) = runner.prepare_starknet_context(func, argv, Some(available), StarknetState::default()).map_err(|e| format!("prepare: {e}"))?;
    let data_len = bytecode.len();
    let RunFunctionResult { relocated_trace: tr, .. } = run_function(bytecode.iter(), builtins, |vm| initialize_vm(vm, data_len), &mut hp, hints_dict).map_err(|e| format!("vm: {e}"))?;
    let load = tr.last().map(|e| e.pc + 1).unwrap_or(0);
    let code_end = info.iter().map(|i| i.end_offset).max().unwrap_or(0);
    // offset -> statement (each offset in exactly one range)
    let mut stmt_of: Vec<Option<usize>> = vec![None; code_end];
    let mut c17 = None;
    for (i, s) in info.iter().enumerate() {
        for o in s.start_offset..s.end_offset {
            if stmt_of[o].is_some() && c17.is_none() { c17 = Some(format!("byte offset {o} lies in the recorded ranges of statements {} and {i}", stmt_of[o].unwrap())); }
            stmt_of[o] = Some(i);
        }
    }
    let is_ret = |pc: usize| pc >= load && pc - load < code_end && stmt_of[pc - load].is_some_and(|i| matches!(info[i].additional_kind_info, StatementKindDebugInfo::Return(_)));
    let mut by_fp: HashMap<usize, Vec<usize>> = HashMap::new();
    for (i, e) in tr.iter().enumerate() {
        if e.pc >= load && e.pc - load < code_end && stmt_of[e.pc - load].is_none() && c17.is_none() { c17 = Some(format!("executed pc at program offset {} is outside every recorded statement range", e.pc - load)); }
        if is_ret(e.pc) { by_fp.entry(e.fp).or_default().push(i); }
    }
    let mut instances = 0usize;
    let entry_of: HashMap<usize, (&cairo_lang_sierra::ids::FunctionId, usize)> = program.funcs.iter().filter_map(|f| declared.get(&f.id).map(|k| (load + info[f.entry_point.0].start_offset, (&f.id, *k)))).collect();
    // entry offsets shared by two functions are ambiguous: skip them
    let mut seen_entry: HashMap<usize, usize> = HashMap::new();
    for f in &program.funcs { *seen_entry.entry(load + info[f.entry_point.0].start_offset).or_default() += 1; }
    for i in 1..tr.len() {
        let e = &tr[i];
        let Some((fid, k)) = entry_of.get(&e.pc) else { continue };
        if seen_entry.get(&e.pc).copied().unwrap_or(0) != 1 { continue; }
        // a call instance: the previous step was a `call` (it sets fp = ap + 2)
        if e.fp != tr[i - 1].ap + 2 || e.ap != e.fp { continue; }
        let Some(rets) = by_fp.get(&e.fp) else { continue };
        let j = rets.partition_point(|&x| x <= i);
        let Some(&r) = rets.get(j) else { continue };
        instances += 1;
        let actual = tr[r].ap - e.ap;
        if actual != *k && c17.is_none() { c17 = Some(format!("call instance of {fid}: the metadata declares ap change {k}, the run moved ap by {actual}")); }
    }
    Ok((c04, c17, instances))
}

#[test]
fn __verif_n_trace_corpus() {
    static LAST: std::sync::Mutex<String> = std::sync::Mutex::new(String::new());
    std::panic::set_hook(Box::new(|info| { *LAST.lock().unwrap() = format!("{info}").chars().take(300).collect(); }));
    let thorough = std::env::var("VERIF_TIER").map(|t| t == "thorough").unwrap_or(false);
    let configs: Vec<(&str, MetadataComputationConfig)> = vec![
        ("linear solvers", MetadataComputationConfig::default()),
        ("equation solvers", MetadataComputationConfig { linear_gas_solver: false, linear_ap_change_solver: false, ..Default::default() }),
    ];
    let mut progs: Vec<(String, String, Vec<(&'static str, Vec<Vec<u128>>)>)> = corpus().into_iter().map(|(n, c, f)| (n.to_string(), c.to_string(), f)).collect();
    {
        let mut root = std::path::PathBuf::from(env!("CARGO_MANIFEST_DIR"));
        root.pop();
        root.pop();
        for (file, fname, args) in repo_examples() {
            if let Ok(code) = std::fs::read_to_string(root.join("examples").join(format!("{file}.cairo"))) { progs.push((format!("examples_{file}"), code, vec![(fname, args)])); }
        }
    }
    let budgets: &[usize] = if thorough { &[100_000_000, 200_000, 30_000, 5_000] } else { &[100_000_000, 30_000] };
    let results: Vec<(u64, usize, Vec<(&'static str, String, String)>, Vec<String>)> = std::thread::scope(|sc| {
        let hs: Vec<_> = progs.iter().map(|(name, code, fns)| { let configs = &configs; sc.spawn(move || {
            let name = name.as_str();
            let mut cases = 0u64;
            let mut instances = 0usize;
            let mut fails: Vec<(&'static str, String, String)> = vec![];
            let mut skipped: Vec<String> = vec![];
            let program = match catch_unwind(AssertUnwindSafe(|| compile_cairo(name, code))) { Ok(Ok(p)) => p, Ok(Err(e)) => { skipped.push(format!("{name}: does not compile: {}", e.chars().take(300).collect::<String>())); return (cases, instances, fails, skipped); }, Err(_) => { skipped.push(format!("{name}: compiler panicked")); return (cases, instances, fails, skipped); } };
            for (cname, config) in configs.iter() {
                for (fname, arglists) in fns {
                    for (ai, args) in arglists.iter().enumerate() {
                        if !thorough && ai >= 4 { continue; }
                        for &available in budgets {
                        let what = format!("{name}.cairo::{fname}({args:?}), {cname}, {available} gas");
                        let full = format!("{name}::{fname}");
                        let h = std::thread::Builder::new().stack_size(256 << 20).spawn({ let program = program.clone(); let config = config.clone(); let args = args.clone(); move || catch_unwind(AssertUnwindSafe(|| one_run(&program, &config, &full, &args, available))) }).unwrap();
                        match h.join() {
                            Ok(Ok(Ok((c04, c17, n)))) => {
                                cases += 1;
                                instances += n;
                                if let Some(w) = c04 { fails.push(("C04", what.clone(), w)); }
                                if let Some(w) = c17 { fails.push(("C17", what.clone(), w)); }
                            }
                            Ok(Ok(Err(e))) => skipped.push(format!("{what}: {e}")),
                            _ => skipped.push(format!("{what}: harness or toolchain panicked: {}", LAST.lock().unwrap())),
                        }
                        }
                    }
                }
            }
            (cases, instances, fails, skipped)
        }) }).collect();
        hs.into_iter().map(|h| h.join().unwrap()).collect()
    });
    let cases: u64 = results.iter().map(|r| r.0).sum();
    let instances: usize = results.iter().map(|r| r.1).sum();
    for r in &results { for s in &r.3 { println!("VERIF-N id=N/n_trace_corpus/skip status=skip why=\"{}\"", s.replace('"', "'").replace('\n', " ")); } }
    let n_skipped: usize = results.iter().map(|r| r.3.len()).sum();
    let bound = format!("{} Cairo programs compiled with automatic gas withdrawal, {cases} runs (function x input x solver pair; {n_skipped} skipped), {instances} dynamic call instances", progs.len());
    for (prop, id) in [("C04", "trace_cost_covered"), ("C17", "trace_ap_change")] {
        let mine: Vec<_> = results.iter().flat_map(|r| r.2.iter()).filter(|f| f.0 == prop).collect();
        let mut seen = std::collections::BTreeSet::new();
        for (_, input, why) in &mine {
            let key: String = why.chars().take(70).collect::<String>().replace('"', "'");
            if !seen.insert(key.clone()) { continue; }
            println!("VERIF-N id=N/n_trace_corpus/{id}:{} props={prop} status=fail key=\"{key}\" input=\"{}\" detail=\"{}: {}\" bound=\"{bound}\"", seen.len(), input.replace('"', "'"), input.replace('"', "'"), why.replace('"', "'"));
        }
        if mine.is_empty() {
            if cases == 0 { println!("VERIF-N id=N/n_trace_corpus/{id} props={prop} status=unknown"); }
            else { println!("VERIF-N id=N/n_trace_corpus/{id} props={prop} status=ok cases={cases} distinct={} bound=\"{bound}\"", progs.len()); }
        }
    }
}

/// Hand-written Sierra shapes that the Cairo compiler never emits but that `compile()` accepts, run
/// on the VM with the same two trace-level checks (C17's quantifier is "forall programs").
fn handwritten() -> Vec<(&'static str, &'static str, &'static str, Vec<Vec<u128>>)> {
    vec![
        ("finalize_locals without locals, after ap has moved", "main", r#"
type felt252 = felt252;
libfunc st = store_temp<felt252>;
libfunc dupf = dup<felt252>;
libfunc dropf = drop<felt252>;
libfunc fin = finalize_locals;
libfunc call_lf = function_call<user@late_finalize>;
dupf([0]) -> ([0], [1]);
st([1]) -> ([1]);
dropf([1]) -> ();
fin() -> ();
st([0]) -> ([0]);
return([0]);
st([1]) -> ([2]);
st([0]) -> ([0]);
call_lf([0]) -> ([3]);
dropf([3]) -> ();
st([2]) -> ([2]);
return([2]);
late_finalize@0([0]: felt252) -> (felt252);
main@6([0]: felt252, [1]: felt252) -> (felt252);
"#, vec![vec![7, 5], vec![0, 0]]),
        ("locals allocated late and a call across them", "main", r#"
type felt252 = felt252;
type UF = Uninitialized<felt252>;
libfunc st = store_temp<felt252>;
libfunc dupf = dup<felt252>;
libfunc dropf = drop<felt252>;
libfunc al = alloc_local<felt252>;
libfunc fin = finalize_locals;
libfunc sl = store_local<felt252>;
libfunc call_id = function_call<user@id>;
st([0]) -> ([0]);
return([0]);
al() -> ([2]);
fin() -> ();
sl([2], [1]) -> ([3]);
st([0]) -> ([0]);
call_id([0]) -> ([4]);
dropf([4]) -> ();
st([3]) -> ([3]);
return([3]);
id@0([0]: felt252) -> (felt252);
main@2([0]: felt252, [1]: felt252) -> (felt252);
"#, vec![vec![1, 9]]),
        ("dummy_function_call with a declared known ap change", "h", r#"
type felt252 = felt252;
libfunc st = store_temp<felt252>;
libfunc dummy = dummy_function_call<user@g, 0, 1, felt252, 1, felt252>;
st([0]) -> ([0]);
return([0]);
st([0]) -> ([0]);
dummy([0]) -> ([1]);
st([1]) -> ([1]);
return([1]);
g@0([0]: felt252) -> (felt252);
h@2([0]: felt252) -> (felt252);
"#, vec![vec![3]]),
    ]
}

#[test]
fn __verif_n_trace_handwritten() {
    std::panic::set_hook(Box::new(|_| {}));
    let configs: Vec<(&str, MetadataComputationConfig)> = vec![
        ("linear solvers", MetadataComputationConfig::default()),
        ("equation solvers", MetadataComputationConfig { linear_gas_solver: false, linear_ap_change_solver: false, ..Default::default() }),
    ];
    let (mut cases, mut instances) = (0u64, 0usize);
    let mut fails: Vec<(String, String)> = vec![];
    let mut skipped = 0u64;
    for (name, fname, text, arglists) in handwritten() {
        let Ok(program) = cairo_lang_sierra::ProgramParser::new().parse(text) else { skipped += 1; println!("VERIF-N id=N/n_trace_corpus/skip status=skip why=\"hand-written `{name}` does not parse\""); continue };
        for (cname, config) in &configs {
            for args in &arglists {
                let what = format!("hand-written Sierra `{name}`: {fname}({args:?}), {cname}");
                let h = std::thread::Builder::new().stack_size(256 << 20).spawn({ let (program, config, args, fname) = (program.clone(), config.clone(), args.clone(), fname.to_string()); move || catch_unwind(AssertUnwindSafe(|| one_run(&program, &config, &fname, &args, 100_000_000))) }).unwrap();
                match h.join() {
                    Ok(Ok(Ok((_, c17, n)))) => { cases += 1; instances += n; if let Some(w) = c17 { if !fails.iter().any(|f| f.0.contains(name)) { fails.push((what, w)); } } }
                    Ok(Ok(Err(e))) => { skipped += 1; println!("VERIF-N id=N/n_trace_corpus/skip status=skip why=\"{}: {}\"", what.replace('"', "'"), e.replace('"', "'").replace('\n', " ")); }
                    _ => skipped += 1,
                }
            }
        }
    }
    let bound = format!("{cases} runs of {} hand-written Sierra shapes ({skipped} skipped), {instances} dynamic call instances", handwritten().len());
    // one obligation per shape, so that a shape that is a recorded finding stays one named obligation
    for (name, ..) in handwritten() {
        let id: String = name.chars().take(60).collect::<String>().replace(' ', "_").replace(',', "");
        match fails.iter().find(|f| f.0.contains(name)) {
            Some((input, why)) => println!("VERIF-N id=N/n_trace_corpus/handwritten_ap_change:{id} props=C17 status=fail key=\"{name}\" input=\"{}\" detail=\"{}: {}\" bound=\"{bound}\"", input.replace('"', "'"), input.replace('"', "'"), why.replace('"', "'")),
            None if cases == 0 => println!("VERIF-N id=N/n_trace_corpus/handwritten_ap_change:{id} props=C17 status=unknown"),
            None => println!("VERIF-N id=N/n_trace_corpus/handwritten_ap_change:{id} props=C17 status=ok cases={} distinct={} bound=\"{bound}\"", cases, instances.max(1)),
        }
    }
}
