// N unit (C18), BOUNDED twin of the Verus unit `canonical_replacer`: for programs whose declared
// ids are pairwise distinct per kind, CanonicalReplacer::from_program numbers the i-th declared
// type / libfunc / function with i (the numbering Program::serialize demands), the renaming is
// injective, and replace_* keeps the debug name.
#![allow(dead_code, unused_imports)]
use std::panic::{catch_unwind, AssertUnwindSafe};

use cairo_lang_sierra::ids::{ConcreteLibfuncId, ConcreteTypeId, FunctionId};
use cairo_lang_sierra::program::Program;
use cairo_lang_sierra::ProgramParser;

use super::CanonicalReplacer;
use crate::replace_ids::SierraIdReplacer;

#[test]
fn __verif_n_c18_replacer_twin() {
    std::panic::set_hook(Box::new(|_| {}));
    let mut root = std::path::PathBuf::from(env!("CARGO_MANIFEST_DIR"));
    root.pop();
    root.pop();
    let mut files = vec![];
    for d in ["tests/test_data", "crates/cairo-lang-sierra/examples", "crates/cairo-lang-starknet/test_data"] {
        if let Ok(rd) = std::fs::read_dir(root.join(d)) { for e in rd.filter_map(|e| e.ok()) { if e.path().extension().map(|x| x == "sierra").unwrap_or(false) { files.push(e.path()); } } }
    }
    files.sort();
    let thorough = std::env::var("VERIF_TIER").map(|t| t == "thorough").unwrap_or(false);
    if !thorough { files.truncate(14); }
    let mut cases = 0u64;
    let mut fail: Option<(String, String)> = None;
    for f in &files {
        let Ok(src) = std::fs::read_to_string(f) else { continue };
        let Ok(p) = ProgramParser::new().parse(&src) else { continue };
        cases += 1;
        let r = catch_unwind(AssertUnwindSafe(|| -> Option<String> {
            let rep = CanonicalReplacer::from_program(&p);
            for (i, d) in p.type_declarations.iter().enumerate() {
                let n = rep.replace_type_id(&d.id);
                if n.id != i as u64 { return Some(format!("type declaration {i} is numbered {}", n.id)); }
                if n.debug_name != d.id.debug_name { return Some("debug name changed".into()); }
            }
            for (i, d) in p.libfunc_declarations.iter().enumerate() {
                let n = rep.replace_libfunc_id(&d.id);
                if n.id != i as u64 || n.debug_name != d.id.debug_name { return Some(format!("libfunc declaration {i} is numbered {}", n.id)); }
            }
            for (i, d) in p.funcs.iter().enumerate() {
                let n = rep.replace_function_id(&d.id);
                if n.id != i as u64 || n.debug_name != d.id.debug_name { return Some(format!("function {i} is numbered {}", n.id)); }
            }
            None
        }));
        let why = match r { Err(_) => Some("panic".to_string()), Ok(w) => w };
        if let Some(w) = why { fail = Some((f.display().to_string(), w)); break; }
    }
    let bound = format!("{cases} Sierra programs of the repository");
    match fail {
        None => println!("VERIF-N id=N/n_c18_replacer_twin/canonical_numbering status=ok cases={cases} distinct={cases} bound=\"{bound}\""),
        Some((input, why)) => println!("VERIF-N id=N/n_c18_replacer_twin/canonical_numbering status=fail key=\"{}\" input=\"{input}\" detail=\"{input}: {}\" bound=\"{bound}\"", why.replace('"', "'"), why.replace('"', "'")),
    }
}
