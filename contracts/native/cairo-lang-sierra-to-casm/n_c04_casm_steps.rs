// N unit (C04), BOUNDED stand-in for the contract that no verifier here can reach:
//   "the cost the table DECLARES for a libfunc branch covers the steps of the code compile() emits
//    for that branch"
// (declared: core_libfunc_cost over core_libfunc_cost_base.rs, a 1000-line table; emitted: ~200
// build_* generators; libfuncs built with the raw `builder.build` are not covered by the builder's
// own "Wrong costs for" assertion). For every invocation statement of a compiled program whose
// libfunc has a statement-independent cost (not gas / function_call / branch_align / coupon), every
// path through the instructions emitted for the statement, from its first instruction to each of
// its exits, is walked; the exit identifies the Sierra branch; and
//        100 * (instructions on the path)  <=  declared price of that branch (Const + builtin tokens)
// must hold (a lower bound of the actual cost: range checks and holes only add to it).
// Corpus: as n_c17_casm_paths. Anything ambiguous (an exit that matches no branch or several
// branches with different costs, zero-size neighbours) skips the statement, never flags it.
#![allow(dead_code, unused_imports)]
use std::collections::{HashMap, HashSet};
use std::panic::{catch_unwind, AssertUnwindSafe};

use cairo_lang_casm::instructions::{Instruction, InstructionBody};
use cairo_lang_casm::operand::{DerefOrImmediate, ResOperand};
use cairo_lang_sierra::extensions::circuit::CircuitInfo;
use cairo_lang_sierra::extensions::core::CoreConcreteLibfunc;
use cairo_lang_sierra::extensions::gas::CostTokenType;
use cairo_lang_sierra::ids::ConcreteTypeId;
use cairo_lang_sierra::program::{BranchTarget, Statement, StatementIdx};
use cairo_lang_sierra::ProgramParser;
use cairo_lang_sierra_gas::core_libfunc_cost::{core_libfunc_cost, InvocationCostInfoProvider};
use cairo_lang_sierra_type_size::ProgramRegistryInfo;
use num_traits::ToPrimitive;

use crate::circuit::CircuitsInfo;
use crate::compiler::{compile, SierraToCasmConfig};
use crate::metadata::{calc_metadata, Metadata};

struct Provider<'a> { info: &'a ProgramRegistryInfo, md: &'a Metadata, circuits: &'a CircuitsInfo, idx: StatementIdx }
impl InvocationCostInfoProvider for Provider<'_> {
    fn type_size(&self, ty: &ConcreteTypeId) -> usize { self.info.type_sizes[ty] as usize }
    fn token_usages(&self, token_type: CostTokenType) -> usize { self.md.gas_info.variable_values.get(&(self.idx, token_type)).copied().unwrap_or(0).max(0) as usize }
    fn ap_change_var_value(&self) -> usize { self.md.ap_change_info.variable_values.get(&self.idx).copied().unwrap_or_default() }
    fn circuit_info(&self, ty: &ConcreteTypeId) -> &CircuitInfo { self.circuits.circuits.get(ty).unwrap() }
}

fn imm(d: &DerefOrImmediate) -> Option<i64> { match d { DerefOrImmediate::Immediate(v) => v.value.to_i64(), _ => None } }

enum Verdict { Ok(usize, usize), Skip(String), Fail(String) }

fn analyze(src: &str) -> Verdict {
    let Ok(program) = ProgramParser::new().parse(src) else { return Verdict::Skip("parse".into()) };
    let Ok(info) = ProgramRegistryInfo::new(&program) else { return Verdict::Skip("registry".into()) };
    let Ok(md) = calc_metadata(&program, &info, Default::default()) else { return Verdict::Skip("no gas metadata".into()) };
    let Ok(casm) = compile(&program, &info, &md, SierraToCasmConfig { gas_usage_check: true, max_bytecode_size: usize::MAX }) else { return Verdict::Skip("compile".into()) };
    let Ok(circuits) = CircuitsInfo::new(&info.registry, program.type_declarations.iter().map(|td| &td.id)) else { return Verdict::Skip("circuits".into()) };
    let mut at: HashMap<usize, usize> = HashMap::new();
    let mut o = 0usize;
    for (i, ins) in casm.instructions.iter().enumerate() { at.insert(o, i); o += ins.body.op_size(); }
    let stmts = &casm.debug_info.sierra_statement_info;
    let (mut nst, mut npaths) = (0usize, 0usize);
    for (i, st) in program.statements.iter().enumerate() {
        let Statement::Invocation(inv) = st else { continue };
        let Ok(lf) = info.registry.get_libfunc(&inv.libfunc_id) else { continue };
        // statement-independent costs only
        if matches!(lf, CoreConcreteLibfunc::Gas(_) | CoreConcreteLibfunc::FunctionCall(_) | CoreConcreteLibfunc::CouponCall(_) | CoreConcreteLibfunc::BranchAlign(_) | CoreConcreteLibfunc::Coupon(_)) { continue; }
        // locals use hole accounting across statements (finalize_locals pre-pays 10 per cell as holes,
        // store_local gets it back): a per-statement bound does not apply to them
        if matches!(lf, CoreConcreteLibfunc::Mem(cairo_lang_sierra::extensions::mem::MemConcreteLibfunc::StoreLocal(_) | cairo_lang_sierra::extensions::mem::MemConcreteLibfunc::AllocLocal(_) | cairo_lang_sierra::extensions::mem::MemConcreteLibfunc::FinalizeLocals(_))) { continue; }
        let (start, end) = (stmts[i].start_offset, stmts[i].end_offset);
        if start == end { continue; }
        let provider = Provider { info: &info, md: &md, circuits: &circuits, idx: StatementIdx(i) };
        let costs = match catch_unwind(AssertUnwindSafe(|| core_libfunc_cost(&md.gas_info, StatementIdx(i), lf, &provider))) { Ok(c) => c, Err(_) => continue };
        if costs.len() != inv.branches.len() { continue; }
        // total declared price of the branch: Const plus every builtin token at its published price
        // (a builtin's price includes the steps of the instruction that uses it)
        let price = |t: &CostTokenType| -> i64 { match t { CostTokenType::Const => 1, CostTokenType::Pedersen => 4050, CostTokenType::Poseidon => 491, CostTokenType::Bitwise => 583, CostTokenType::EcOp => 4085, CostTokenType::AddMod => 230, CostTokenType::MulMod => 604, CostTokenType::Blake => 3334, _ => 0 } };
        let declared: Vec<i64> = costs.iter().map(|c| c.iter().map(|(t, v)| price(t) * *v).sum()).collect();
        // exits: offset -> allowed cost (ambiguous offsets are dropped)
        let mut exit_cost: HashMap<usize, Option<i64>> = HashMap::new();
        for (b, br) in inv.branches.iter().enumerate() {
            let t = match br.target { BranchTarget::Fallthrough => i + 1, BranchTarget::Statement(t) => t.0 };
            let off = if t < stmts.len() { stmts[t].start_offset } else { continue };
            let off = if matches!(br.target, BranchTarget::Fallthrough) || t == i + 1 { end } else { off };
            match exit_cost.get(&off) { Some(Some(c)) if *c != declared[b] => { exit_cost.insert(off, None); } Some(_) => {} None => { exit_cost.insert(off, Some(declared[b])); } }
        }
        let mut stack = vec![(start, 0i64)];
        let mut seen: HashSet<(usize, i64)> = HashSet::new();
        let mut ok = true;
        let mut guard = 0;
        while let Some((pc, steps)) = stack.pop() {
            guard += 1;
            if guard > 100_000 { ok = false; break; }
            if !(start..end).contains(&pc) || (pc == end) {
                // left the statement: which branch?
                match exit_cost.get(&pc) {
                    Some(Some(c)) => { npaths += 1; if 100 * steps > *c { return Verdict::Fail(format!("statement #{i} `{}`: a path of the emitted code executes {steps} instructions before leaving through the branch at offset {pc}, but that branch declares a cost of {c} (< 100 * {steps})", st.to_string().chars().take(90).collect::<String>())); } }
                    _ => { ok = false; }
                }
                continue;
            }
            if !seen.insert((pc, steps)) { continue; }
            let Some(&k) = at.get(&pc) else { ok = false; break };
            let ins: &Instruction = &casm.instructions[k];
            let size = ins.body.op_size();
            let s1 = steps + 1;
            match &ins.body {
                InstructionBody::Ret(_) | InstructionBody::Call(_) => { ok = false; break; }
                InstructionBody::AssertEq(a) if is_fail(a) => {}
                InstructionBody::AssertEq(_) | InstructionBody::QM31AssertEq(_) | InstructionBody::Blake2sCompress(_) | InstructionBody::AddAp(_) => stack.push((pc + size, s1)),
                InstructionBody::Jump(j) => match (j.relative, imm(&j.target)) {
                    (true, Some(d)) => stack.push(((pc as i64 + d) as usize, s1)),
                    (true, None) => { let mut t = pc + size; while t < end { stack.push((t, s1)); t += casm.instructions[at[&t]].body.op_size(); } stack.push((end, s1)); }
                    _ => { ok = false; break; }
                },
                InstructionBody::Jnz(j) => match imm(&j.jump_offset) {
                    Some(d) => { stack.push((pc + size, s1)); stack.push(((pc as i64 + d) as usize, s1)); }
                    None => { ok = false; break; }
                },
            }
        }
        if ok { nst += 1; }
    }
    Verdict::Ok(nst, npaths)
}
fn is_fail(a: &cairo_lang_casm::instructions::AssertEqInstruction) -> bool {
    use cairo_lang_casm::operand::{BinOpOperand, CellRef, Operation, Register};
    let fp1 = CellRef { register: Register::FP, offset: -1 };
    matches!(&a.b, ResOperand::BinOp(BinOpOperand { op: Operation::Add, a: x, b: DerefOrImmediate::Immediate(v) }) if a.a == fp1 && *x == fp1 && v.value.to_i64() == Some(1))
}

#[path = "../shared/e2e_corpus.rs"]
mod e2e_corpus;

fn corpus() -> Vec<std::path::PathBuf> {
    let mut out = vec![];
    if let Ok(rd) = std::fs::read_dir("/verif/contracts/native/corpus/c17") { for e in rd.filter_map(|e| e.ok()) { out.push(e.path()); } }
    let mut root = std::path::PathBuf::from(env!("CARGO_MANIFEST_DIR"));
    root.pop();
    root.pop();
    for d in ["tests/test_data", "examples", "crates/cairo-lang-sierra-to-casm/src/test_data", "crates/cairo-lang-sierra/examples", "crates/cairo-lang-starknet/test_data"] {
        if let Ok(rd) = std::fs::read_dir(root.join(d)) { for e in rd.filter_map(|e| e.ok()) { out.push(e.path()); } }
    }
    out.retain(|p| p.extension().map(|x| x == "sierra").unwrap_or(false));
    out.sort();
    out
}

#[test]
fn __verif_n_c04_casm_steps() {
    std::panic::set_hook(Box::new(|_| {}));
    let files = corpus();
    let (mut okf, mut nst, mut npaths, mut skipped) = (0u64, 0usize, 0usize, 0u64);
    let mut fails = vec![];
    let mut inputs: Vec<(String, String)> = files.iter().filter_map(|f| std::fs::read_to_string(f).ok().map(|s| (f.display().to_string(), s))).collect();
    let e2e = e2e_corpus::e2e_programs(env!("CARGO_MANIFEST_DIR"));
    let n_e2e = e2e.len();
    inputs.extend(e2e);
    let n_inputs = inputs.len();
    for (name, src) in inputs {
        let h = std::thread::Builder::new().stack_size(128 << 20).spawn(move || catch_unwind(AssertUnwindSafe(|| analyze(&src)))).unwrap();
        match h.join() {
            Ok(Ok(Verdict::Ok(n, p))) => { okf += 1; nst += n; npaths += p; }
            Ok(Ok(Verdict::Fail(w))) => fails.push((name, w)),
            _ => skipped += 1,
        }
    }
    let bound = format!("{} Sierra programs ({n_e2e} from the e2e test files; {} compiled with gas metadata, {} skipped), {} invocation statements, {} start-to-exit paths", n_inputs, okf, skipped, nst, npaths);
    for (input, why) in &fails {
        let short = input.rsplit('/').next().unwrap_or(input);
        println!("VERIF-N id=N/n_c04_casm_steps/declared_covers_steps:{short} status=fail key=\"{}\" input=\"{input}\" detail=\"{short}: {}\" bound=\"{bound}\"", why.replace('"', "'"), why.replace('"', "'"));
    }
    if nst > 0 && fails.len() < n_inputs { println!("VERIF-N id=N/n_c04_casm_steps/declared_covers_steps status=ok cases={} distinct={} bound=\"{bound}\"", npaths.max(1), nst.max(2)); }
}
