// N unit (C04), BOUNDED stand-in: gas metadata is an INPUT of `compile` (computed by unverified
// solvers, or supplied by a caller), and `validate_metadata` + the gas-wallet check are what stand
// between a wrong solution and underpriced code. `validate_metadata` needs a ProgramRegistry, so no
// verifier here can run it. Contract, from the property statement:
//   * honest metadata is accepted;
//   * metadata with a negative function cost or a negative gas variable is rejected;
//   * metadata naming an unknown function, a statement outside the program, or attaching gas /
//     ap variables to a statement that cannot carry them is rejected;
//   * for straight-line functions (no withdraw_gas: the declared entry cost must pay for everything)
//     lowering ANY token of the declared entry cost by one makes `compile` reject the program.
#![allow(dead_code, unused_imports)]
use std::panic::{catch_unwind, AssertUnwindSafe};

use cairo_lang_sierra::extensions::gas::CostTokenType;
use cairo_lang_sierra::ids::FunctionId;
use cairo_lang_sierra::program::StatementIdx;
use cairo_lang_sierra::ProgramParser;
use cairo_lang_sierra_type_size::ProgramRegistryInfo;

use crate::compiler::{compile, validate_metadata, SierraToCasmConfig};
use crate::metadata::{calc_metadata, Metadata};

fn straight_line(k: usize) -> String {
    let mut s = String::from("type felt252 = felt252;\ntype Pedersen = Pedersen;\ntype GasBuiltin = GasBuiltin;\n\nlibfunc pedersen = pedersen;\nlibfunc dup<felt252> = dup<felt252>;\nlibfunc store_temp<Pedersen> = store_temp<Pedersen>;\nlibfunc store_temp<GasBuiltin> = store_temp<GasBuiltin>;\nlibfunc store_temp<felt252> = store_temp<felt252>;\n\n");
    let (mut ped, mut acc, mut next) = (0usize, 2usize, 10usize);
    for _ in 0..k {
        s += &format!("dup<felt252>([{acc}]) -> ([{acc}], [{next}]);\npedersen([{ped}], [{acc}], [{next}]) -> ([{}], [{}]);\nstore_temp<felt252>([{}]) -> ([{}]);\n", next + 1, next + 2, next + 2, next + 2);
        ped = next + 1; acc = next + 2; next += 3;
    }
    s += &format!("store_temp<Pedersen>([{ped}]) -> ([{ped}]);\nstore_temp<GasBuiltin>([1]) -> ([1]);\nstore_temp<felt252>([{acc}]) -> ([{acc}]);\nreturn([{ped}], [1], [{acc}]);\n\ntest::foo@0([0]: Pedersen, [1]: GasBuiltin, [2]: felt252) -> (Pedersen, GasBuiltin, felt252);\n");
    s
}

fn clone_md(program: &cairo_lang_sierra::program::Program, info: &ProgramRegistryInfo) -> Metadata { calc_metadata(program, info, Default::default()).unwrap() }

#[test]
fn __verif_n_c04_metadata_validation() {
    std::panic::set_hook(Box::new(|_| {}));
    let mut root = std::path::PathBuf::from(env!("CARGO_MANIFEST_DIR"));
    root.pop();
    root.pop();
    let mut sources: Vec<(String, String, bool)> = (0..3).map(|k| (format!("straight-line function with {k} pedersen calls"), straight_line(k), true)).collect();
    if let Ok(s) = std::fs::read_to_string(root.join("tests/test_data/fib_gas.sierra")) { sources.push(("fib_gas.sierra".into(), s, false)); }
    if let Ok(s) = std::fs::read_to_string(root.join("tests/test_data/hash_chain_gas.sierra")) { sources.push(("hash_chain_gas.sierra".into(), s, false)); }
    let cfg = || SierraToCasmConfig { gas_usage_check: true, max_bytecode_size: usize::MAX };
    let mut cases = 0u64;
    let mut fail: Option<(String, String)> = None;
    'o: for (name, src, straight) in sources {
        let r = catch_unwind(AssertUnwindSafe(|| -> Option<(String, String)> {
            let program = ProgramParser::new().parse(&src).ok()?;
            let info = ProgramRegistryInfo::new(&program).ok()?;
            let honest = clone_md(&program, &info);
            let mut n = 0u64;
            let mut check = |what: String, md: &Metadata, want_ok: bool| -> Option<(String, String)> {
                n += 1;
                let v = validate_metadata(&program, &info.registry, md).is_ok();
                let c = compile(&program, &info, md, cfg()).is_ok();
                if want_ok && !(v && c) { return Some((format!("{name}: {what}"), format!("honest metadata rejected (validate={v}, compile={c})"))); }
                if !want_ok && c { return Some((format!("{name}: {what}"), format!("compile accepted tampered metadata (validate_metadata accepted={v})"))); }
                None
            };
            if let Some(f) = check("honest metadata".into(), &honest, true) { return Some(f); }
            // negative / lowered function costs
            for (fid, costs) in honest.gas_info.function_costs.iter() {
                for (tok, val) in costs.iter() {
                    let mut md = clone_md(&program, &info);
                    md.gas_info.function_costs.get_mut(fid).unwrap().insert(*tok, -1);
                    if let Some(f) = check(format!("function cost [{tok:?}] := -1"), &md, false) { return Some(f); }
                    if straight && *val > 0 {
                        let mut md = clone_md(&program, &info);
                        md.gas_info.function_costs.get_mut(fid).unwrap().insert(*tok, *val - 1);
                        if let Some(f) = check(format!("declared entry cost [{tok:?}] lowered from {val} to {}", *val - 1), &md, false) { return Some(f); }
                    }
                }
            }
            // negative gas variables, gas variables on statements that cannot carry them
            for ((idx, tok), _) in honest.gas_info.variable_values.iter() {
                let mut md = clone_md(&program, &info);
                md.gas_info.variable_values.insert((*idx, *tok), -1);
                if let Some(f) = check(format!("gas variable at #{} [{tok:?}] := -1", idx.0), &md, false) { return Some(f); }
            }
            let mut md = clone_md(&program, &info);
            md.gas_info.variable_values.insert((StatementIdx(0), CostTokenType::Const), 5);
            if !matches!(program.statements.first(), None) && !honest.gas_info.variable_values.contains_key(&(StatementIdx(0), CostTokenType::Const)) {
                if let Some(f) = check("gas variable attached to statement #0".into(), &md, false) { return Some(f); }
            }
            let mut md = clone_md(&program, &info);
            md.gas_info.variable_values.insert((StatementIdx(program.statements.len() + 3), CostTokenType::Const), 5);
            if let Some(f) = check("gas variable attached to a statement outside the program".into(), &md, false) { return Some(f); }
            let mut md = clone_md(&program, &info);
            md.ap_change_info.variable_values.insert(StatementIdx(program.statements.len() + 3), 1);
            if let Some(f) = check("ap-change variable attached to a statement outside the program".into(), &md, false) { return Some(f); }
            let mut md = clone_md(&program, &info);
            md.gas_info.function_costs.insert(FunctionId::new(987654), Default::default());
            if let Some(f) = check("cost declared for an unknown function".into(), &md, false) { return Some(f); }
            let mut md = clone_md(&program, &info);
            md.ap_change_info.function_ap_change.insert(FunctionId::new(987654), 0);
            if let Some(f) = check("ap change declared for an unknown function".into(), &md, false) { return Some(f); }
            cases += n;
            None
        }));
        match r { Err(_) => { fail = Some((name.clone(), "panic".into())); break 'o; } Ok(Some(f)) => { fail = Some(f); break 'o; } Ok(None) => {} }
    }
    let bound = "3 straight-line functions + fib_gas + hash_chain_gas; every single tampering listed in the unit";
    match fail {
        None => println!("VERIF-N id=N/n_c04_metadata/metadata_validation status=ok cases={cases} distinct={cases} bound=\"{bound}\""),
        Some((input, why)) => println!("VERIF-N id=N/n_c04_metadata/metadata_validation status=fail key=\"{}\" input=\"{}\" detail=\"{}: {}\" bound=\"{bound}\"", why.replace('"', "'"), input.replace('"', "'"), input.replace('"', "'"), why.replace('"', "'")),
    }
}
