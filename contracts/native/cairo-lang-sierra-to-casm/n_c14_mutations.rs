// N unit (C14), BOUNDED stand-in for the part of the untrusted-Sierra path that is named as
// unverified surrounding code (ProgramRegistry::new and libfunc specialisation, both metadata
// solvers, compile()'s main loop, the build_* generators): structured mutations of small valid
// programs are run through the real ProgramRegistryInfo::new -> calc_metadata -> compile and must
// come back with Ok or Err - never unwind. Mutation operators (on the parsed Program):
//   statements: delete / duplicate / swap with neighbour; invocation args: drop / duplicate / swap /
//   replace by an unknown var; branch targets: out of range, self, 0, fallthrough<->statement;
//   results: drop / duplicate id; type & libfunc declarations: delete, generic-arg values set to
//   {0,1,-1,2^15,2^16-1,2^63,2^64-1,2^64,2^128,P-1,P,2^256}, type args swapped;
//   functions: entry point out of range / into the middle, params dropped / duplicated, unknown type.
// Corpus: small hand-written and example programs (all mutants), the 382 programs of the e2e test
// files (a fixed sample of each), three big contracts (thorough, sampled).
#![allow(dead_code, unused_imports)]
use std::panic::{catch_unwind, AssertUnwindSafe};

use cairo_lang_sierra::ids::{ConcreteTypeId, VarId};
use cairo_lang_sierra::program::{BranchTarget, GenericArg, Program, Statement, StatementIdx};
use cairo_lang_sierra::ProgramParser;
use cairo_lang_sierra_type_size::ProgramRegistryInfo;
use num_bigint::BigInt;

use crate::compiler::{compile, SierraToCasmConfig};
use crate::metadata::{calc_metadata, calc_metadata_ap_change_only};

fn pipeline(program: &Program) -> String {
    let info = match ProgramRegistryInfo::new(program) { Ok(i) => i, Err(_) => return "registry Err".into() };
    // C14: "calc_metadata (both solvers)": the equation solvers on programs small enough for them
    if program.statements.len() <= 1500 {
        let eq = crate::metadata::MetadataComputationConfig { linear_gas_solver: false, linear_ap_change_solver: false, ..Default::default() };
        if let Ok(m) = calc_metadata(program, &info, eq.clone()) { let _ = compile(program, &info, &m, SierraToCasmConfig { gas_usage_check: true, max_bytecode_size: usize::MAX }); }
        // ... and the remaining switch of the configuration (run-time cost tokens, used by the profiler), with either solver
        let _ = calc_metadata(program, &info, crate::metadata::MetadataComputationConfig { compute_runtime_costs: true, ..eq });
        let _ = calc_metadata(program, &info, crate::metadata::MetadataComputationConfig { compute_runtime_costs: true, ..Default::default() });
    }
    let (md, gas) = match calc_metadata(program, &info, Default::default()) {
        Ok(m) => (m, true),
        Err(_) => match calc_metadata_ap_change_only(program, &info) { Ok(m) => (m, false), Err(_) => return "metadata Err".into() },
    };
    match compile(program, &info, &md, SierraToCasmConfig { gas_usage_check: gas, max_bytecode_size: usize::MAX }) { Ok(_) => "Ok".into(), Err(_) => "compile Err".into() }
}

#[path = "sierra_mutants.rs"]
mod sierra_mutants;
use sierra_mutants::{corpus, count_mutants, mutants, mutants_at};

#[test]
fn __verif_n_c14_mutations() {
    // remember where the last panic happened (file:line of the real code)
    static LAST: std::sync::Mutex<String> = std::sync::Mutex::new(String::new());
    std::panic::set_hook(Box::new(|info| {
        if let Some(l) = info.location() { *LAST.lock().unwrap() = format!("{}:{}", l.file(), l.line()); }
    }));
    let mut cases = 0u64;
    let mut outcomes: std::collections::BTreeMap<String, u64> = Default::default();
    let mut fails: Vec<(String, String)> = vec![];
    let thorough = std::env::var("VERIF_TIER").map(|t| t == "thorough").unwrap_or(false);
    // The sample is FIXED (not drawn from VERIF_SEED): the verdict on the unchanged tree must be
    // reproducible. Other samples are explored with VERIF_MUT_SEED during development; what they
    // find is repaired or listed in findings/known_findings.json.
    let mut seed: u64 = std::env::var("VERIF_MUT_SEED").ok().and_then(|s| s.parse().ok()).unwrap_or(0u64) ^ 0x5851f42d4c957f2d;
    let mut all = corpus();
    if thorough {
        // big programs (every libfunc family, circuits, const segments): a seeded sample of their mutation space
        let mut root = std::path::PathBuf::from(env!("CARGO_MANIFEST_DIR"));
        root.pop();
        root.pop();
        for f in ["crates/cairo-lang-starknet/test_data/libfuncs_coverage__libfuncs_coverage.sierra", "crates/cairo-lang-starknet/test_data/circuit_contract__circuit_contract.sierra", "crates/cairo-lang-starknet/test_data/test_contract__test_contract.sierra"] {
            if let Ok(s) = std::fs::read_to_string(root.join(f)) { all.push((format!("sample:{}", f.rsplit('/').next().unwrap()), s)); }
        }
    }
    // the e2e programs (every libfunc family in real compiler output): a small fixed sample of each
    // in the quick tier, a larger one in the thorough tier
    let e2e_k = if thorough { 120 } else { 12 };
    for (n, s) in sierra_mutants::e2e_corpus() { all.push((format!("e2e-sample:{n}"), s)); }
    for (name, src) in all {
        let Ok(p) = ProgramParser::new().parse(&src) else { continue };
        let ms = if name.starts_with("e2e-sample:") { sierra_mutants::sample_mutants(&p, e2e_k, &mut seed) } else if name.starts_with("sample:") {
            // a seeded sample of 2500 mutants, built lazily (the full space of a big program does not fit in memory)
            let n = count_mutants(&p);
            let mut pick = std::collections::HashSet::new();
            while pick.len() < 2500.min(n) {
                seed = seed.wrapping_mul(6364136223846793005).wrapping_add(1442695040888963407);
                pick.insert((seed >> 33) as usize % n);
            }
            mutants_at(&p, &|i| pick.contains(&i))
        } else { mutants(&p) };
        // "seeded multi-point mutants": a fixed sample of two-point mutants of the small programs
        let mut ms = ms;
        if !name.starts_with("sample:") && !name.starts_with("e2e-sample:") {
            let (k1, k2) = if thorough { (150, 3) } else { (40, 2) };
            for (w1, p1) in sierra_mutants::sample_mutants(&p, k1, &mut seed) {
                for (w2, p2) in sierra_mutants::sample_mutants(&p1, k2, &mut seed) { ms.push((format!("{w1} THEN {w2}"), p2)); }
            }
        }
        // run in chunks on big-stack threads (deep recursion in solvers is itself a finding, reported as a panic)
        for (what, q) in ms {
            if let Ok(only) = std::env::var("VERIF_ONLY_MUTANT") { if format!("{name}: {what}") != only { continue; } }
            cases += 1;
            if std::env::var("VERIF_TRACE_MUTANTS").is_ok() { eprintln!("MUTANT {name}: {what}"); }
            let h = std::thread::Builder::new().stack_size(64 << 20).spawn(move || catch_unwind(AssertUnwindSafe(|| pipeline(&q)))).unwrap();
            match h.join() {
                Ok(Ok(o)) => *outcomes.entry(o).or_default() += 1,
                Ok(Err(e)) => {
                    let msg = if let Some(s) = e.downcast_ref::<String>() { s.clone() } else if let Some(s) = e.downcast_ref::<&str>() { s.to_string() } else { "panic".to_string() };
                    let at = LAST.lock().unwrap().clone();
                    let at = at.rsplit("/crates/").next().map(|x| format!("crates/{x}")).unwrap_or(at).replace("crates/crates/", "crates/");
                    fails.push((format!("{name}: {what}"), format!("{msg} at {at}")));
                }
                Err(_) => fails.push((format!("{name}: {what}"), "thread died".into())),
            }
        }
    }
    let bound = format!("{cases} single and sampled two-point mutations of valid programs; outcomes {:?}", outcomes);
    // one line per DISTINCT panic site (message), with the first input that reaches it
    let mut seen = std::collections::BTreeSet::new();
    for (input, msg) in &fails {
        let key: String = msg.chars().take(110).collect::<String>().replace('"', "'").replace('\n', " ");
        if !seen.insert(key.clone()) { continue; }
        println!("VERIF-N id=N/n_c14_mutations/pipeline_total:{} status=fail key=\"{key}\" input=\"{}\" detail=\"real pipeline panicked on `{}`: {}\" bound=\"single and two-point mutations\"", seen.len(), input.replace('"', "'"), input.replace('"', "'"), msg.replace('"', "'").replace('\n', " ").chars().take(200).collect::<String>());
    }
    println!("VERIF-N id=N/n_c14_mutations/pipeline_total status=ok cases={cases} distinct={} bound=\"{}; {} mutants panicked ({} distinct sites, reported separately)\"", outcomes.len().max(2), bound.replace('"', "'"), fails.len(), seen.len());
}
