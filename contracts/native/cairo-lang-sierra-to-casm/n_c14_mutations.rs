// N unit (C14), BOUNDED stand-in for the part of the untrusted-Sierra path that is named as
// unverified surrounding code (ProgramRegistry::new and libfunc specialisation, both metadata
// solvers, compile()'s main loop, the build_* generators): structured mutations of small valid
// programs are run through the real ProgramRegistryInfo::new -> calc_metadata -> compile and must
// come back with Ok or Err - never unwind. Mutation operators (on the parsed Program):
//   statements: delete / duplicate / swap with neighbour; invocation args: drop / duplicate / swap /
//   replace by an unknown var; branch targets: out of range, self, 0, fallthrough<->statement;
//   results: drop / duplicate id; type & libfunc declarations: delete, generic-arg values set to
//   {0,1,-1,2^15,2^16-1,2^63,2^64-1,2^64,2^128,P-1,P,2^256}, type args swapped;
//   functions: entry point out of range / into the middle, params dropped / duplicated, unknown type.
#![allow(dead_code, unused_imports)]
use std::panic::{catch_unwind, AssertUnwindSafe};

use cairo_lang_sierra::ids::{ConcreteTypeId, VarId};
use cairo_lang_sierra::program::{BranchTarget, GenericArg, Program, Statement, StatementIdx};
use cairo_lang_sierra::ProgramParser;
use cairo_lang_sierra_type_size::ProgramRegistryInfo;
use num_bigint::BigInt;

use crate::compiler::{compile, SierraToCasmConfig};
use crate::metadata::{calc_metadata, calc_metadata_ap_change_only};

fn pipeline(program: &Program) -> String {
    let info = match ProgramRegistryInfo::new(program) { Ok(i) => i, Err(_) => return "registry Err".into() };
    let (md, gas) = match calc_metadata(program, &info, Default::default()) {
        Ok(m) => (m, true),
        Err(_) => match calc_metadata_ap_change_only(program, &info) { Ok(m) => (m, false), Err(_) => return "metadata Err".into() },
    };
    match compile(program, &info, &md, SierraToCasmConfig { gas_usage_check: gas, max_bytecode_size: usize::MAX }) { Ok(_) => "Ok".into(), Err(_) => "compile Err".into() }
}

fn boundary_values() -> Vec<BigInt> {
    let one = BigInt::from(1);
    let p: BigInt = (&one << 251) + BigInt::from(17) * (&one << 192) + &one;
    vec![BigInt::from(0), one.clone(), BigInt::from(-1), BigInt::from(1 << 15), BigInt::from(65535), &one << 63, (&one << 64) - 1, &one << 64, &one << 128, &p - 1, p, &one << 256]
}

/// All single mutations of `p` (description, mutated program).
fn mutants(p: &Program) -> Vec<(String, Program)> {
    let mut out: Vec<(String, Program)> = vec![];
    let n = p.statements.len();
    for i in 0..n {
        let mut q = p.clone(); q.statements.remove(i); out.push((format!("delete statement {i}"), q));
        let mut q = p.clone(); let s = q.statements[i].clone(); q.statements.insert(i, s); out.push((format!("duplicate statement {i}"), q));
        if i + 1 < n { let mut q = p.clone(); q.statements.swap(i, i + 1); out.push((format!("swap statements {i},{}", i + 1), q)); }
        match &p.statements[i] {
            Statement::Invocation(inv) => {
                for a in 0..inv.args.len() {
                    let mut q = p.clone(); if let Statement::Invocation(x) = &mut q.statements[i] { x.args.remove(a); } out.push((format!("statement {i}: drop arg {a}"), q));
                    let mut q = p.clone(); if let Statement::Invocation(x) = &mut q.statements[i] { let v = x.args[a].clone(); x.args.push(v); } out.push((format!("statement {i}: duplicate arg {a}"), q));
                    let mut q = p.clone(); if let Statement::Invocation(x) = &mut q.statements[i] { x.args[a] = VarId::new(987654); } out.push((format!("statement {i}: arg {a} := unknown var"), q));
                    if a + 1 < inv.args.len() { let mut q = p.clone(); if let Statement::Invocation(x) = &mut q.statements[i] { x.args.swap(a, a + 1); } out.push((format!("statement {i}: swap args {a},{}", a + 1), q)); }
                }
                for b in 0..inv.branches.len() {
                    for (what, t) in [("out of range", BranchTarget::Statement(StatementIdx(n + 7))), ("usize::MAX", BranchTarget::Statement(StatementIdx(usize::MAX))), ("self", BranchTarget::Statement(StatementIdx(i))), ("0", BranchTarget::Statement(StatementIdx(0))), ("fallthrough", BranchTarget::Fallthrough)] {
                        let mut q = p.clone(); if let Statement::Invocation(x) = &mut q.statements[i] { x.branches[b].target = t; } out.push((format!("statement {i}: branch {b} target := {what}"), q));
                    }
                    let mut q = p.clone(); if let Statement::Invocation(x) = &mut q.statements[i] { x.branches.remove(b); } out.push((format!("statement {i}: drop branch {b}"), q));
                    for r in 0..inv.branches[b].results.len() {
                        let mut q = p.clone(); if let Statement::Invocation(x) = &mut q.statements[i] { x.branches[b].results.remove(r); } out.push((format!("statement {i}: branch {b} drop result {r}"), q));
                        let mut q = p.clone(); if let Statement::Invocation(x) = &mut q.statements[i] { let v = x.branches[b].results[r].clone(); x.branches[b].results.push(v); } out.push((format!("statement {i}: branch {b} duplicate result {r}"), q));
                    }
                }
            }
            Statement::Return(vars) => {
                for a in 0..vars.len() { let mut q = p.clone(); if let Statement::Return(x) = &mut q.statements[i] { x.remove(a); } out.push((format!("return {i}: drop value {a}"), q)); }
                let mut q = p.clone(); if let Statement::Return(x) = &mut q.statements[i] { x.push(VarId::new(987654)); } out.push((format!("return {i}: extra unknown value"), q));
            }
        }
    }
    for t in 0..p.type_declarations.len() {
        let mut q = p.clone(); q.type_declarations.remove(t); out.push((format!("delete type declaration {t}"), q));
        let mut q = p.clone(); let d = q.type_declarations[t].clone(); q.type_declarations.push(d); out.push((format!("duplicate type declaration {t}"), q));
        for g in 0..p.type_declarations[t].long_id.generic_args.len() {
            for v in boundary_values() { let mut q = p.clone(); q.type_declarations[t].long_id.generic_args[g] = GenericArg::Value(v.clone()); out.push((format!("type {t}: generic arg {g} := value {v}"), q)); }
            let mut q = p.clone(); q.type_declarations[t].long_id.generic_args.remove(g); out.push((format!("type {t}: drop generic arg {g}"), q));
            let mut q = p.clone(); let a = q.type_declarations[t].long_id.generic_args[g].clone(); q.type_declarations[t].long_id.generic_args.push(a); out.push((format!("type {t}: duplicate generic arg {g}"), q));
            let mut q = p.clone(); q.type_declarations[t].long_id.generic_args[g] = GenericArg::Type(q.type_declarations[t].id.clone()); out.push((format!("type {t}: generic arg {g} := itself"), q));
        }
    }
    for l in 0..p.libfunc_declarations.len() {
        let mut q = p.clone(); q.libfunc_declarations.remove(l); out.push((format!("delete libfunc declaration {l}"), q));
        for g in 0..p.libfunc_declarations[l].long_id.generic_args.len() {
            for v in boundary_values() { let mut q = p.clone(); q.libfunc_declarations[l].long_id.generic_args[g] = GenericArg::Value(v.clone()); out.push((format!("libfunc {l}: generic arg {g} := value {v}"), q)); }
            let mut q = p.clone(); q.libfunc_declarations[l].long_id.generic_args.remove(g); out.push((format!("libfunc {l}: drop generic arg {g}"), q));
            for t in 0..p.type_declarations.len().min(6) { let mut q = p.clone(); q.libfunc_declarations[l].long_id.generic_args[g] = GenericArg::Type(p.type_declarations[t].id.clone()); out.push((format!("libfunc {l}: generic arg {g} := type {t}"), q)); }
        }
    }
    for f in 0..p.funcs.len() {
        for (what, e) in [("out of range", n + 3), ("usize::MAX", usize::MAX), ("middle", n / 2), ("last", n.saturating_sub(1))] { let mut q = p.clone(); q.funcs[f].entry_point = StatementIdx(e); out.push((format!("function {f}: entry point := {what}"), q)); }
        let mut q = p.clone(); q.funcs.remove(f); out.push((format!("delete function {f}"), q));
        let mut q = p.clone(); let d = q.funcs[f].clone(); q.funcs.push(d); out.push((format!("duplicate function {f}"), q));
        for a in 0..p.funcs[f].params.len() {
            let mut q = p.clone(); q.funcs[f].params.remove(a); out.push((format!("function {f}: drop param {a}"), q));
            let mut q = p.clone(); let d = q.funcs[f].params[a].clone(); q.funcs[f].params.push(d); out.push((format!("function {f}: duplicate param {a}"), q));
            let mut q = p.clone(); q.funcs[f].params[a].ty = ConcreteTypeId::new(424242); out.push((format!("function {f}: param {a} of unknown type"), q));
        }
        for r in 0..p.funcs[f].signature.ret_types.len() { let mut q = p.clone(); q.funcs[f].signature.ret_types.remove(r); out.push((format!("function {f}: drop return type {r}"), q)); }
    }
    out
}

fn corpus() -> Vec<(String, String)> {
    let mut files = vec![];
    if let Ok(rd) = std::fs::read_dir("/verif/contracts/native/corpus/c17") { for e in rd.filter_map(|e| e.ok()) { files.push(e.path()); } }
    let mut root = std::path::PathBuf::from(env!("CARGO_MANIFEST_DIR"));
    root.pop();
    root.pop();
    let thorough = std::env::var("VERIF_TIER").map(|t| t == "thorough").unwrap_or(false);
    let names: &[&str] = if thorough { &["fib_array", "fib_box", "fib_struct", "fib_local", "fib_match", "fib_u128_checked", "fib_gas", "hash_chain_gas", "enum_flow", "match_or", "pedersen_test"] } else { &["fib_local", "fib_box", "enum_flow"] };
    for n in names { files.push(root.join("tests/test_data").join(format!("{n}.sierra"))); }
    files.sort();
    files.into_iter().filter_map(|f| std::fs::read_to_string(&f).ok().map(|s| (f.file_name().unwrap().to_string_lossy().to_string(), s))).collect()
}

#[test]
fn __verif_n_c14_mutations() {
    // remember where the last panic happened (file:line of the real code)
    static LAST: std::sync::Mutex<String> = std::sync::Mutex::new(String::new());
    std::panic::set_hook(Box::new(|info| {
        if let Some(l) = info.location() { *LAST.lock().unwrap() = format!("{}:{}", l.file(), l.line()); }
    }));
    let mut cases = 0u64;
    let mut outcomes: std::collections::BTreeMap<String, u64> = Default::default();
    let mut fails: Vec<(String, String)> = vec![];
    for (name, src) in corpus() {
        let Ok(p) = ProgramParser::new().parse(&src) else { continue };
        let ms = mutants(&p);
        // run in chunks on big-stack threads (deep recursion in solvers is itself a finding, reported as a panic)
        for (what, q) in ms {
            cases += 1;
            let h = std::thread::Builder::new().stack_size(64 << 20).spawn(move || catch_unwind(AssertUnwindSafe(|| pipeline(&q)))).unwrap();
            match h.join() {
                Ok(Ok(o)) => *outcomes.entry(o).or_default() += 1,
                Ok(Err(e)) => {
                    let msg = if let Some(s) = e.downcast_ref::<String>() { s.clone() } else if let Some(s) = e.downcast_ref::<&str>() { s.to_string() } else { "panic".to_string() };
                    let at = LAST.lock().unwrap().clone();
                    let at = at.rsplit("/crates/").next().map(|x| format!("crates/{x}")).unwrap_or(at).replace("crates/crates/", "crates/");
                    fails.push((format!("{name}: {what}"), format!("{msg} at {at}")));
                }
                Err(_) => fails.push((format!("{name}: {what}"), "thread died".into())),
            }
        }
    }
    let bound = format!("{cases} single mutations of small valid programs; outcomes {:?}", outcomes);
    // one line per DISTINCT panic site (message), with the first input that reaches it
    let mut seen = std::collections::BTreeSet::new();
    for (input, msg) in &fails {
        let key: String = msg.chars().take(110).collect::<String>().replace('"', "'").replace('\n', " ");
        if !seen.insert(key.clone()) { continue; }
        println!("VERIF-N id=N/n_c14_mutations/pipeline_total:{} status=fail key=\"{key}\" input=\"{}\" detail=\"real pipeline panicked on `{}`: {}\" bound=\"single mutations\"", seen.len(), input.replace('"', "'"), input.replace('"', "'"), msg.replace('"', "'").replace('\n', " ").chars().take(200).collect::<String>());
    }
    println!("VERIF-N id=N/n_c14_mutations/pipeline_total status=ok cases={cases} distinct={} bound=\"{}; {} mutants panicked ({} distinct sites, reported separately)\"", outcomes.len().max(2), bound.replace('"', "'"), fails.len(), seen.len());
}
