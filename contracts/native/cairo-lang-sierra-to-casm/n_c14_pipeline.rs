// N unit (C14), BOUNDED stand-in and known-input replay. Three parts:
//  1. known_inputs: every Sierra file under /verif/findings/repro/ is run through the real
//     ProgramParser -> ProgramRegistryInfo::new -> calc_metadata -> compile and must come back
//     with Ok or Err (no unwind). This is a replay of known inputs (findings F1-F4), labelled
//     as such; it is what makes "reports the violation again if it ever returns" checkable.
//  2. param_refs: `build_function_parameters_refs` over 1..=3 parameters with sizes from the
//     boundary set {0,1,2,3,16383,16384,32764..=32767} (the body mixes iterator adaptors,
//     a closure and a hash map; neither verifier takes it verbatim).
//  3. refs_on_stack: `check_references_on_stack` at the cell-count boundary (counter-example
//     finder for the Verus unit refs_on_stack, which has no model output).
#![allow(dead_code, unused_imports)]
use std::panic::{catch_unwind, AssertUnwindSafe};

use cairo_lang_casm::cell_expression::CellExpression;
use cairo_lang_casm::operand::{CellRef, Register};
use cairo_lang_sierra::ids::{ConcreteTypeId, FunctionId, VarId};
use cairo_lang_sierra::program::{Function, Param, StatementIdx};
use cairo_lang_sierra::ProgramParser;
use cairo_lang_sierra_type_size::{ProgramRegistryInfo, TypeSizeMap};

use crate::compiler::{compile, SierraToCasmConfig};
use crate::invocations::check_references_on_stack;
use crate::metadata::calc_metadata;
use crate::references::{build_function_parameters_refs, IntroductionPoint, ReferenceExpression, ReferenceValue};

fn quiet() { std::panic::set_hook(Box::new(|_| {})); }

/// Ok(description of the returned value) or Err(panic message)
fn run_pipeline(src: &str) -> Result<String, String> {
    let r = catch_unwind(AssertUnwindSafe(|| {
        let program = match ProgramParser::new().parse(src) { Ok(p) => p, Err(_) => return "parse error".to_string() };
        let info = match ProgramRegistryInfo::new(&program) { Ok(i) => i, Err(e) => return format!("registry: Err({e})") };
        // C14: "calc_metadata (both solvers)" - the equation solvers first, then the linear ones
        let eq = crate::metadata::MetadataComputationConfig { linear_gas_solver: false, linear_ap_change_solver: false, ..Default::default() };
        if let Ok(m) = calc_metadata(&program, &info, eq) { let _ = compile(&program, &info, &m, SierraToCasmConfig { gas_usage_check: true, max_bytecode_size: usize::MAX }); }
        let metadata = match calc_metadata(&program, &info, Default::default()) { Ok(m) => m, Err(e) => return format!("metadata: Err({e})") };
        match compile(&program, &info, &metadata, SierraToCasmConfig { gas_usage_check: true, max_bytecode_size: usize::MAX }) {
            Ok(_) => "compile: Ok".to_string(),
            Err(e) => format!("compile: Err({e})"),
        }
    }));
    r.map_err(|e| {
        if let Some(s) = e.downcast_ref::<String>() { s.clone() } else if let Some(s) = e.downcast_ref::<&str>() { s.to_string() } else { "panic".to_string() }
    })
}

#[test]
fn __verif_n_c14_known_inputs() {
    quiet();
    let dir = "/verif/findings/repro";
    let mut names: Vec<String> = std::fs::read_dir(dir).map(|d| d.filter_map(|e| e.ok()).map(|e| e.file_name().to_string_lossy().to_string()).filter(|n| n.ends_with(".sierra")).collect()).unwrap_or_default();
    names.sort();
    let mut ok = 0;
    // every input in its own big-stack thread (32768-cell programs recurse deeply in the parser),
    // all at once, and with a time limit: C14 also says "never hang" (the thread of an input
    // that does not return is left behind; it ends with the test process)
    let limit = std::time::Duration::from_secs(150);
    let rxs: Vec<_> = names.iter().map(|n| {
        let src = std::fs::read_to_string(format!("{dir}/{n}")).unwrap_or_default();
        let (tx, rx) = std::sync::mpsc::channel();
        std::thread::Builder::new().stack_size(256 << 20).spawn(move || { let _ = tx.send(run_pipeline(&src)); }).unwrap();
        rx
    }).collect();
    let t0 = std::time::Instant::now();
    for (n, rx) in names.iter().zip(rxs) {
        match rx.recv_timeout(limit.saturating_sub(t0.elapsed())).unwrap_or_else(|e| Err(match e { std::sync::mpsc::RecvTimeoutError::Timeout => format!("did not return within {} s", limit.as_secs()), _ => "panic (thread)".into() })) {
            Ok(_) => { ok += 1; println!("VERIF-N id=N/n_c14_pipeline/known_input:{} status=ok cases=1 distinct=1 bound=\"known-input replay of {}/{}\"", n.trim_end_matches(".sierra"), dir, n); }
            Err(msg) => println!(
                "VERIF-N id=N/n_c14_pipeline/known_input:{} status=fail key=\"{}\" input=\"{}/{}\" detail=\"real pipeline panicked: {}\" bound=\"known-input replay\"",
                n.trim_end_matches(".sierra"), n, dir, n, msg.replace('"', "'").replace('\n', " ")
            ),
        }
    }
    println!("VERIF-N id=N/n_c14_pipeline/known_inputs status=ok cases={} distinct={} bound=\"known-input replay of findings/repro/*.sierra ({} files, {} returned Ok/Err)\"", names.len().max(1), names.len().max(1), names.len(), ok);
}

fn ty(i: u64) -> ConcreteTypeId { ConcreteTypeId::new(i) }

#[test]
fn __verif_n_c14_param_refs() {
    quiet();
    let sizes: [i16; 11] = [0, 1, 2, 3, 16383, 16384, 32763, 32764, 32765, 32766, 32767];
    let mut cases = 0u64;
    let mut fail: Option<(String, String)> = None;
    let mut combos: Vec<Vec<i16>> = vec![];
    for a in sizes { combos.push(vec![a]); for b in sizes { combos.push(vec![a, b]); for c in [0i16, 1, 32766, 32767] { combos.push(vec![a, b, c]); } } }
    for combo in combos {
        cases += 1;
        let mut type_sizes = TypeSizeMap::default();
        let params: Vec<Param> = combo.iter().enumerate().map(|(i, s)| { type_sizes.insert(ty(i as u64), *s); Param { id: VarId::new(i as u64), ty: ty(i as u64) } }).collect();
        let func = Function::new(FunctionId::new(0), params, vec![], StatementIdx(0));
        let r = catch_unwind(AssertUnwindSafe(|| build_function_parameters_refs(&func, &type_sizes)));
        let why = match r {
            Err(_) => Some("panic in build_function_parameters_refs".to_string()),
            Ok(Err(_)) => {
                // an error is only justified when the frame does not fit i16 offsets
                let total: i64 = combo.iter().map(|s| *s as i64).sum();
                if -3 - total + 1 >= i16::MIN as i64 { Some("Err although every cell offset fits i16".to_string()) } else { None }
            }
            Ok(Ok(refs)) => {
                // parameter i occupies [fp-3-sum_{j>=i} size_j+1 ..], contiguous, last ends at fp-3
                let mut end: i64 = -3;
                let mut bad = None;
                for (i, s) in combo.iter().enumerate().rev() {
                    let rv = &refs[&VarId::new(i as u64)];
                    if rv.stack_idx.is_some() { bad = Some("stack_idx set".to_string()); }
                    if rv.expression.cells.len() != *s as usize { bad = Some(format!("param {i}: {} cells for size {s}", rv.expression.cells.len())); break; }
                    for (k, c) in rv.expression.cells.iter().enumerate() {
                        let want = end - (*s as i64) + 1 + k as i64;
                        if *c != CellExpression::Deref(CellRef { register: Register::FP, offset: want as i16 }) || want < i16::MIN as i64 {
                            bad = Some(format!("param {i} cell {k} is {c}, expected [fp + {want}]"));
                        }
                    }
                    end -= *s as i64;
                }
                bad
            }
        };
        if let Some(w) = why { fail = Some((format!("param sizes {:?}", combo), w)); break; }
    }
    let bound = "1..=3 params, sizes from {0,1,2,3,16383,16384,32763..=32767}";
    match fail {
        None => println!("VERIF-N id=N/n_c14_pipeline/param_refs status=ok cases={cases} distinct={cases} bound=\"{bound}\""),
        Some((input, why)) => println!("VERIF-N id=N/n_c14_pipeline/param_refs status=fail key=\"{why}\" input=\"{input}\" detail=\"{input}: {why}\" bound=\"{bound}\""),
    }
}

#[test]
fn __verif_n_c14_refs_on_stack() {
    quiet();
    let mut cases = 0u64;
    let mut fail: Option<(String, String)> = None;
    // n contiguous cells [ap-n .. ap-1] split into references of `chunk` cells; expected Ok while representable
    for n in [0usize, 1, 2, 3, 32766, 32767, 32768, 32769, 40000] {
        for chunk in [1usize, 7, 32768] {
            for broken in [false, true] {
                cases += 1;
                let mut refs = vec![];
                let mut cells = vec![];
                for i in 0..n {
                    let off = -(n as i64) + i as i64; // ap-n .. ap-1
                    let off = if broken && i == n / 2 { off + 1 } else { off };
                    cells.push(CellExpression::Deref(CellRef { register: Register::AP, offset: off as i16 }));
                    if cells.len() == chunk || i + 1 == n {
                        refs.push(ReferenceValue {
                            expression: ReferenceExpression { cells: std::mem::take(&mut cells) },
                            ty: ty(0), stack_idx: None,
                            introduction_point: IntroductionPoint { source_statement_idx: None, destination_statement_idx: StatementIdx(0), output_idx: 0 },
                        });
                    }
                }
                let representable = n <= 32768;
                let r = catch_unwind(AssertUnwindSafe(|| check_references_on_stack(&refs).is_ok()));
                let why = match r {
                    Err(_) => Some("panic in check_references_on_stack".to_string()),
                    Ok(ok) => {
                        let want = representable && !(broken && n > 0);
                        if ok != want { Some(format!("returned ok={ok}, contiguous-on-stack={want}")) } else { None }
                    }
                };
                if let Some(w) = why { if fail.is_none() { fail = Some((format!("{n} stack cells in references of {chunk} cells, broken={broken}"), w)); } }
            }
        }
    }
    let bound = "cell counts {0,1,2,3,32766,32767,32768,32769,40000} x reference sizes {1,7,all} x {contiguous, one cell off}";
    match fail {
        None => println!("VERIF-N id=N/n_c14_pipeline/refs_on_stack status=ok cases={cases} distinct={cases} bound=\"{bound}\""),
        Some((input, why)) => println!("VERIF-N id=N/n_c14_pipeline/refs_on_stack status=fail key=\"{why}\" input=\"{input}\" detail=\"{input}: {why}\" bound=\"{bound}\""),
    }
}

/// Generated family "frame edge": the locals of a function are filled up to the end of the frame
/// an i16 offset can address (one filler local of F cells, then single-cell locals), a small struct is
/// assembled from the highest locals, and builders that add member offsets to a local's offset are
/// run on it (local_into_box + struct_boxed_deconstruct, store_temp, into_box + unbox). For every F
/// around 32767 the pipeline has to return (Ok or Err).
#[test]
fn __verif_n_c14_frame_edge() {
    quiet();
    let rep = |ty: &str, n: usize| std::iter::repeat(ty).take(n).collect::<Vec<_>>().join(", ");
    let (mut cases, mut ok) = (0u64, 0u64);
    let mut fails: Vec<(String, String)> = vec![];
    for filler in [0usize, 100, 32740, 32755, 32758, 32759, 32760, 32761, 32762, 32763, 32764, 32765, 32766, 32767] {
        // filler = a*4096 + b*256 + c*16 + d
        let (a, rem) = (filler / 4096, filler % 4096);
        let (b, rem) = (rem / 256, rem % 256);
        let (c, d) = (rem / 16, rem % 16);
        let mut members: Vec<String> = vec![];
        if a > 0 { members.push(rep("A3", a)); }
        if b > 0 { members.push(rep("A2", b)); }
        if c > 0 { members.push(rep("A1", c)); }
        if d > 0 { members.push(rep("felt252", d)); }
        for consumer in ["boxed_deconstruct", "store_temp", "box_unbox"] {
            let tail = match consumer {
                "boxed_deconstruct" => "lib([8]) -> ([9]);\nsbd([9]) -> ([10], [11], [12]);\ndrop_bf([11]) -> ();\ndrop_bf([12]) -> ();\ndrop_ub([1]) -> ();\nst_bf([10]) -> ([10]);\nreturn([10]);\nfoo@0([0]: felt252) -> (BoxF);",
                "store_temp" => "st_s([8]) -> ([9]);\ndrop_s([9]) -> ();\ndrop_ub([1]) -> ();\nreturn();\nfoo@0([0]: felt252) -> ();",
                _ => "ib([8]) -> ([9]);\nub([9]) -> ([10]);\nst_s([10]) -> ([10]);\ndrop_s([10]) -> ();\ndrop_ub([1]) -> ();\nreturn();\nfoo@0([0]: felt252) -> ();",
            };
            let src = format!("type felt252 = felt252;\ntype A1 = Struct<ut@A1, {a1}>;\ntype A2 = Struct<ut@A2, {a2}>;\ntype A3 = Struct<ut@A3, {a3}>;\ntype Big = Struct<ut@Big{big}>;\ntype S = Struct<ut@S, felt252, felt252, felt252>;\ntype UBig = Uninitialized<Big>;\ntype UF = Uninitialized<felt252>;\ntype BoxS = Box<S>;\ntype BoxF = Box<felt252>;\n\
libfunc al_big = alloc_local<Big>;\nlibfunc al_f = alloc_local<felt252>;\nlibfunc fin = finalize_locals;\nlibfunc dupf = dup<felt252>;\nlibfunc sl = store_local<felt252>;\nlibfunc mk = struct_construct<S>;\nlibfunc lib = local_into_box<S>;\nlibfunc sbd = struct_boxed_deconstruct<S>;\nlibfunc drop_bf = drop<BoxF>;\nlibfunc drop_ub = drop<UBig>;\nlibfunc st_bf = store_temp<BoxF>;\nlibfunc st_s = store_temp<S>;\nlibfunc drop_s = drop<S>;\nlibfunc ib = into_box<S>;\nlibfunc ub = unbox<S>;\n\
al_big() -> ([1]);\nal_f() -> ([2]);\nal_f() -> ([3]);\nfin() -> ();\ndupf([0]) -> ([0], [4]);\nsl([2], [0]) -> ([5]);\nsl([3], [4]) -> ([6]);\ndupf([5]) -> ([5], [7]);\nmk([6], [5], [7]) -> ([8]);\n{tail}\n",
                a1 = rep("felt252", 16), a2 = rep("A1", 16), a3 = rep("A2", 16), big = if members.is_empty() { String::new() } else { format!(", {}", members.join(", ")) });
            cases += 1;
            let what = format!("a filler local of {filler} cells, then two felt locals, a 3-felt struct from the highest locals, consumer {consumer}");
            let h = std::thread::Builder::new().stack_size(256 << 20).spawn(move || run_pipeline(&src)).unwrap();
            match h.join().unwrap_or_else(|_| Err("panic (thread)".into())) {
                Ok(_) => ok += 1,
                Err(msg) => { if !fails.iter().any(|f: &(String, String)| f.1 == msg) { fails.push((what, msg)); } }
            }
        }
    }
    for (k, (input, msg)) in fails.iter().enumerate() {
        println!("VERIF-N id=N/n_c14_pipeline/frame_edge:{} status=fail key=\"{}\" input=\"{}\" detail=\"real pipeline panicked on {}: {}\" bound=\"frame-edge family\"", k + 1, msg.chars().take(80).collect::<String>().replace('"', "'").replace('\n', " "), input, input, msg.replace('"', "'").replace('\n', " "));
    }
    if fails.is_empty() { println!("VERIF-N id=N/n_c14_pipeline/frame_edge status=ok cases={cases} distinct={ok} bound=\"14 filler sizes around the 32767-cell frame limit x 3 consumers of a struct assembled from the highest locals ({ok} returned Ok/Err)\""); }
}
