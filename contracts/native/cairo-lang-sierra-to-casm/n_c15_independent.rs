// N unit (C15), BOUNDED stand-in for the part of the acceptance path that is not a function under
// contract: compile()'s own control flow, get_annotations_after_take_args / propagate_annotations /
// set_or_assert, ProgramRegistry::validate_statement. The property's own formulation is used:
//     compile(s) == Ok  ==>  independent_typing_and_linearity_checker(s) == Ok
// The checker below is written from the property statement over Program + libfunc signatures
// only (no references, no CASM): per function, a forward data-flow over var -> type maps;
// every argument present with exactly the declared type and consumed by the statement (so used
// at most once); results never override a live variable; merging paths agree on the exact map;
// every branch of a multi-branch invocation lands on branch_align; `return` gives exactly the
// declared types and leaves nothing live. Evaluated on the corpus programs and on every single
// mutation of them (the C14 mutation space) that the real pipeline accepts.
#![allow(dead_code, unused_imports)]
use std::collections::{BTreeMap, HashMap};
use std::panic::{catch_unwind, AssertUnwindSafe};

use cairo_lang_sierra::extensions::lib_func::SierraApChange;
use cairo_lang_sierra::extensions::ConcreteLibfunc;
use cairo_lang_sierra::program::{BranchTarget, Program, Statement};
use cairo_lang_sierra::ProgramParser;
use cairo_lang_sierra_type_size::ProgramRegistryInfo;

use crate::compiler::{compile, SierraToCasmConfig};
use crate::metadata::{calc_metadata, calc_metadata_ap_change_only};

#[path = "sierra_mutants.rs"]
mod sierra_mutants;
use sierra_mutants::{corpus, mutants};

fn accepted(program: &Program) -> Option<ProgramRegistryInfo> {
    let info = ProgramRegistryInfo::new(program).ok()?;
    let (md, gas) = match calc_metadata(program, &info, Default::default()) {
        Ok(m) => (m, true),
        Err(_) => (calc_metadata_ap_change_only(program, &info).ok()?, false),
    };
    compile(program, &info, &md, SierraToCasmConfig { gas_usage_check: gas, max_bytecode_size: usize::MAX }).ok()?;
    Some(info)
}

type State = BTreeMap<u64, u64>; // var id -> type id

fn independent_check(p: &Program, info: &ProgramRegistryInfo) -> Result<(), String> {
    let n = p.statements.len();
    for (fi, f) in p.funcs.iter().enumerate() {
        let mut init = State::new();
        for prm in &f.params { if init.insert(prm.id.id, prm.ty.id).is_some() { return Err(format!("function {fi}: parameter id used twice")); } }
        if f.params.iter().map(|x| x.ty.id).collect::<Vec<_>>() != f.signature.param_types.iter().map(|t| t.id).collect::<Vec<_>>() { return Err(format!("function {fi}: params disagree with the signature")); }
        let mut seen: HashMap<usize, State> = HashMap::new();
        let mut work = vec![(f.entry_point.0, init)];
        while let Some((idx, mut st)) = work.pop() {
            if idx >= n { return Err(format!("function {fi}: control reaches statement {idx} outside the program")); }
            if let Some(prev) = seen.get(&idx) {
                if *prev != st { return Err(format!("function {fi}: paths merging at #{idx} disagree on the live variables or their types")); }
                continue;
            }
            seen.insert(idx, st.clone());
            match &p.statements[idx] {
                Statement::Return(vars) => {
                    let mut tys = vec![];
                    for v in vars { match st.remove(&v.id) { Some(t) => tys.push(t), None => return Err(format!("#{idx}: returned variable {} is not live (or is used twice)", v.id)) } }
                    if tys != f.signature.ret_types.iter().map(|t| t.id).collect::<Vec<_>>() { return Err(format!("#{idx}: function {fi} does not return exactly its declared types")); }
                    if !st.is_empty() { return Err(format!("#{idx}: variables left over at return")); }
                }
                Statement::Invocation(inv) => {
                    let lf = info.registry.get_libfunc(&inv.libfunc_id).map_err(|_| format!("#{idx}: unknown libfunc"))?;
                    let params = lf.param_signatures();
                    if params.len() != inv.args.len() { return Err(format!("#{idx}: wrong number of arguments")); }
                    for (a, ps) in inv.args.iter().zip(params) {
                        match st.remove(&a.id) {
                            Some(t) if t == ps.ty.id => {}
                            Some(_) => return Err(format!("#{idx}: argument {} has not exactly the declared type", a.id)),
                            None => return Err(format!("#{idx}: argument {} is not live (or is used twice)", a.id)),
                        }
                    }
                    let sigs = lf.branch_signatures();
                    if sigs.len() != inv.branches.len() { return Err(format!("#{idx}: wrong number of branches")); }
                    for (b, sig) in inv.branches.iter().zip(sigs) {
                        if b.results.len() != sig.vars.len() { return Err(format!("#{idx}: wrong number of results")); }
                        let mut ns = st.clone();
                        for (r, v) in b.results.iter().zip(&sig.vars) { if ns.insert(r.id, v.ty.id).is_some() { return Err(format!("#{idx}: result {} overrides a live variable", r.id)); } }
                        let target = match b.target { BranchTarget::Fallthrough => idx + 1, BranchTarget::Statement(t) => t.0 };
                        if inv.branches.len() > 1 {
                            let aligned = match p.statements.get(target) {
                                Some(Statement::Invocation(t)) => info.registry.get_libfunc(&t.libfunc_id).ok().map(|l| matches!(l.branch_signatures(), [s] if s.ap_change == SierraApChange::BranchAlign)).unwrap_or(false),
                                _ => false,
                            };
                            if !aligned { return Err(format!("#{idx}: a branch of a multi-branch invocation does not land on branch_align")); }
                        }
                        work.push((target, ns));
                    }
                }
            }
        }
    }
    Ok(())
}


/// Generated layout family: two functions whose bodies INTERLEAVE (f jumps over g's body to its own
/// tail), for every combination of f's parameter type, f's declared return type, g's declared return
/// type and declaration order. Compiler output never interleaves functions, so nothing in the file
/// corpus exercises what the checker does when "the function a statement belongs to" is not the one
/// whose entry point precedes it.
fn interleaved() -> Vec<(String, String)> {
    let mut out = vec![];
    for t in ["felt252", "u128"] { for rf in ["felt252", "u128"] { for rg in ["felt252", "u128"] { for g_first in [false, true] {
        let gconst = if rg == "felt252" { "felt252_const<1>" } else { "u128_const<1>" };
        let f_decl = format!("f@0([0]: {t}) -> ({rf});");
        let g_decl = format!("g@1() -> ({rg});");
        let (d1, d2) = if g_first { (&g_decl, &f_decl) } else { (&f_decl, &g_decl) };
        out.push((format!("generated interleaved: f({t}) -> {rf} returns its {t} argument from a tail placed after g() -> {rg}{}", if g_first { ", g declared first" } else { "" }),
            format!("type felt252 = felt252;\ntype u128 = u128;\nlibfunc jump = jump;\nlibfunc gconst = {gconst};\nlibfunc st_f = store_temp<{t}>;\nlibfunc st_g = store_temp<{rg}>;\n\
jump() {{ FTail() }};\ngconst() -> ([1]);\nst_g([1]) -> ([1]);\nreturn([1]);\nFTail:\nst_f([0]) -> ([0]);\nreturn([0]);\n{d1}\n{d2}\n")));
    } } } }
    out
}

/// Generated family: one variable named at TWO argument positions of one invocation, in a program
/// where nothing else dangles (a single mutation of a corpus program always leaves the replaced
/// variable unconsumed and is rejected for that reason). A variable is consumed by the statement
/// that uses it - once - whatever its type.
fn same_variable_twice() -> Vec<(String, String)> {
    let mut out = vec![];
    for (t, decl) in [("felt252", ""), ("u128", ""), ("Arr", "type Arr = Array<felt252>;\n"), ("Dict", "type Dict = Felt252Dict<felt252>;\n"), ("BoxF", "type BoxF = Box<felt252>;\n")] {
        out.push((format!("generated: struct_construct<({t}, {t})>([0], [0]) - the same variable twice"),
            format!("type felt252 = felt252;\ntype u128 = u128;\n{decl}type Pair = Struct<ut@Tuple, {t}, {t}>;\nlibfunc mk = struct_construct<Pair>;\nlibfunc st = store_temp<Pair>;\nmk([0], [0]) -> ([1]);\nst([1]) -> ([1]);\nreturn([1]);\nf@0([0]: {t}) -> (Pair);\n")));
    }
    // and with a second, properly consumed parameter next to it
    out.push(("generated: felt252_add([0], [0]) with [1] dropped".to_string(),
        "type felt252 = felt252;\nlibfunc add = felt252_add;\nlibfunc dr = drop<felt252>;\nlibfunc st = store_temp<felt252>;\ndr([1]) -> ();\nadd([0], [0]) -> ([2]);\nst([2]) -> ([2]);\nreturn([2]);\nf@0([0]: felt252, [1]: felt252) -> (felt252);\n".to_string()));
    out
}

#[test]
fn __verif_n_c15_independent() {
    std::panic::set_hook(Box::new(|_| {}));
    let (mut cases, mut accepted_n) = (0u64, 0u64);
    let mut fail: Option<(String, String)> = None;
    let mut inputs = corpus();
    inputs.extend(interleaved());
    inputs.extend(same_variable_twice());
    let thorough = std::env::var("VERIF_TIER").map(|t| t == "thorough").unwrap_or(false);
    if thorough { inputs.extend(sierra_mutants::e2e_corpus()); }
    let mut seed = 0x0123456789abcdefu64;
    'o: for (name, src) in inputs {
        let Ok(p) = ProgramParser::new().parse(&src) else { continue };
        let mut all = vec![("unmodified".to_string(), p.clone())];
        if name.starts_with("e2e:") { all.extend(sierra_mutants::sample_mutants(&p, 60, &mut seed)); } else { all.extend(mutants(&p)); }
        for (what, q) in all {
            cases += 1;
            let h = std::thread::Builder::new().stack_size(64 << 20).spawn(move || catch_unwind(AssertUnwindSafe(|| accepted(&q).map(|info| independent_check(&q, &info))))).unwrap();
            match h.join() {
                Ok(Ok(Some(r))) => { accepted_n += 1; if let Err(w) = r { fail = Some((format!("{name}: {what}"), w)); break 'o; } }
                _ => {}
            }
        }
    }
    let bound = format!("{cases} programs (corpus + every single mutation), of which the real pipeline accepted {accepted_n}");
    match fail {
        None => println!("VERIF-N id=N/n_c15_independent/accepted_implies_well_typed status=ok cases={cases} distinct={accepted_n} bound=\"{bound}\""),
        Some((input, why)) => println!("VERIF-N id=N/n_c15_independent/accepted_implies_well_typed status=fail key=\"{}\" input=\"{}\" detail=\"compile() accepted `{}` but the independent typing/linearity checker rejects it: {}\" bound=\"{bound}\"", why.replace('"', "'"), input.replace('"', "'"), input.replace('"', "'"), why.replace('"', "'")),
    }
}
