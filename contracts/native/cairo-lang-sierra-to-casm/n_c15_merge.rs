// N unit (C15), BOUNDED stand-in: `ProgramAnnotations::test_references_consistency` - the merge
// check "paths that merge agree on the set and types of live variables". It iterates an indexmap
// (out of Kani's reach) through an opaque iterator (no Verus ghost model), so the per-variable
// core `test_var_consistency` is what is PROVED (Kani unit) and this enumeration covers the loop
// around it. Contract, from the property statement: Ok iff the two annotations have the same set
// of live variables and every variable has the same type, the same expression and the same stack
// index on both paths, and is mergeable (on the stack, or not ap-based, or ap tracking is enabled
// and both were introduced at the same point).
#![allow(dead_code, unused_imports)]
use std::panic::{catch_unwind, AssertUnwindSafe};

use cairo_lang_casm::ap_change::ApplyApChange;
use cairo_lang_casm::cell_expression::CellExpression;
use cairo_lang_casm::operand::{CellRef, Register};
use cairo_lang_sierra::ids::{ConcreteTypeId, FunctionId, VarId};
use cairo_lang_sierra::program::StatementIdx;
use cairo_lang_utils::unordered_hash_set::UnorderedHashSet;

use super::{ProgramAnnotations, StatementAnnotations};
use crate::environment::gas_wallet::GasWallet;
use crate::environment::{ApTracking, ApTrackingBase, Environment};
use crate::references::{IntroductionPoint, ReferenceExpression, ReferenceValue, StatementRefs};

fn exprs() -> Vec<ReferenceExpression> {
    let c = |r, o| CellExpression::Deref(CellRef { register: r, offset: o });
    vec![
        ReferenceExpression { cells: vec![] },                                   // zero-sized
        ReferenceExpression { cells: vec![c(Register::FP, -3)] },
        ReferenceExpression { cells: vec![c(Register::AP, -1)] },
        ReferenceExpression { cells: vec![c(Register::AP, -2), c(Register::AP, -1)] },
    ]
}
fn ip(out: usize) -> IntroductionPoint { IntroductionPoint { source_statement_idx: Some(StatementIdx(1)), destination_statement_idx: StatementIdx(2), output_idx: out } }
/// all reference values over a small domain
fn values() -> Vec<ReferenceValue> {
    let mut v = vec![];
    for e in exprs() { for t in 0..2u64 { for s in [None, Some(0usize)] { for out in 0..2usize {
        v.push(ReferenceValue { expression: e.clone(), ty: ConcreteTypeId::new(t), stack_idx: s, introduction_point: ip(out) });
    }}}}
    v
}
fn ann(refs: StatementRefs, tracking: ApTracking) -> StatementAnnotations {
    let mut env = Environment::new(GasWallet::Disabled);
    env.ap_tracking = tracking;
    StatementAnnotations { refs, function_id: FunctionId::new(0), convergence_allowed: true, environment: env }
}
fn var_ok(a: &ReferenceValue, e: &ReferenceValue, tracking_on: bool) -> bool {
    a.ty == e.ty && a.expression == e.expression && a.stack_idx == e.stack_idx
        && (a.stack_idx.is_some() || a.expression.can_apply_unknown() || (tracking_on && a.introduction_point == e.introduction_point))
}

#[test]
fn __verif_n_c15_merge_consistency() {
    std::panic::set_hook(Box::new(|_| {}));
    let pa = ProgramAnnotations::new(1, UnorderedHashSet::default());
    let vals = values();
    let mut cases = 0u64;
    let mut fail: Option<(String, String)> = None;
    let trackings = [ApTracking::Disabled, ApTracking::Enabled { ap_change: 3, base: ApTrackingBase::FunctionStart }];
    // one variable on each side (same or different id), every pair of values
    'o: for t in &trackings { for a in &vals { for e in &vals { for same_id in [true, false] {
        cases += 1;
        let mut ra = StatementRefs::default();
        ra.insert(VarId::new(1), a.clone());
        let mut re = StatementRefs::default();
        re.insert(VarId::new(if same_id { 1 } else { 2 }), e.clone());
        let want = same_id && var_ok(a, e, matches!(t, ApTracking::Enabled { .. }));
        let (aa, ee) = (ann(ra, *t), ann(re, *t));
        let r = catch_unwind(AssertUnwindSafe(|| pa.test_references_consistency(&aa, &ee).is_ok()));
        let why = match r { Err(_) => Some("panic".to_string()), Ok(ok) if ok != want => Some(format!("accepted={ok}, paths agree on the variable={want}")), _ => None };
        if let Some(w) = why { fail = Some((format!("tracking={t:?} actual={a:?} expected={e:?} same_id={same_id}"), w)); break 'o; }
    }}}}
    // two variables: a mismatch in the SECOND variable must be found; differing sets must be rejected
    if fail.is_none() {
        let small: Vec<&ReferenceValue> = vals.iter().step_by(5).collect();
        'p: for t in &trackings { for a2 in &small { for e2 in &small { for extra in [false, true] {
            cases += 1;
            let base = vals[4].clone(); // [fp-3], mergeable with itself
            let mut ra = StatementRefs::default();
            ra.insert(VarId::new(1), base.clone());
            ra.insert(VarId::new(2), (*a2).clone());
            let mut re = StatementRefs::default();
            re.insert(VarId::new(2), (*e2).clone()); // other insertion order
            re.insert(VarId::new(1), base.clone());
            if extra { re.insert(VarId::new(3), base.clone()); }
            let want = !extra && var_ok(a2, e2, matches!(t, ApTracking::Enabled { .. }));
            let (aa, ee) = (ann(ra, *t), ann(re, *t));
            let r = catch_unwind(AssertUnwindSafe(|| pa.test_references_consistency(&aa, &ee).is_ok()));
            let why = match r { Err(_) => Some("panic".to_string()), Ok(ok) if ok != want => Some(format!("accepted={ok}, paths agree on all live variables={want}")), _ => None };
            if let Some(w) = why { fail = Some((format!("tracking={t:?} second var actual={a2:?} expected={e2:?} extra_var_on_one_path={extra}"), w)); break 'p; }
        }}}}
    }
    let bound = "1-2 live variables; values over {empty,[fp-3],[ap-1],[ap-2,ap-1]} x 2 types x stack_idx {None,Some(0)} x 2 introduction points; tracking {Disabled,Enabled}";
    match fail {
        None => println!("VERIF-N id=N/n_c15_merge/references_consistency status=ok cases={cases} distinct={cases} bound=\"{bound}\""),
        Some((input, why)) => println!("VERIF-N id=N/n_c15_merge/references_consistency status=fail key=\"{}\" input=\"{}\" detail=\"{}: {}\" bound=\"{bound}\"", why.replace('"', "'"), input.replace('"', "'"), input.replace('"', "'"), why.replace('"', "'")),
    }
}
