// N unit (C16), BOUNDED stand-in for the LINKING half of "the assembled bytecode means what the
// instruction says": `compile()` lays instructions and const segments out and `relocate_instructions`
// patches the relative targets (compiler.rs ConstsInfo / relocations.rs over ordered hash maps and a
// 300-line loop: nothing to lift). Contract, on every compiled corpus program after `assemble()`:
//   every `call rel imm`, `jmp rel imm`, `jmp rel imm if x != 0` with an immediate target lands
//     - inside the code: on the first word of an instruction (never inside one), or
//     - exactly one past the bytecode (EndOfProgram: the loader's footer), or
//     - behind the code (const / circuit-descriptor segments): on a word that IS the `ret`
//       instruction - the "call; ret" idiom that reads the pc - never on a data word;
//   the words behind the code are exactly total_segments_size many; every const segment starts with
//   `ret`; and no relative target leaves the bytecode.
// Corpus: the Sierra file corpus, the e2e test files, and corpus/c16 (programs with several const
// segments and several circuit descriptors).
#![allow(dead_code, unused_imports)]
use std::collections::HashSet;
use std::panic::{catch_unwind, AssertUnwindSafe};

use cairo_lang_casm::instructions::{Instruction, InstructionBody};
use cairo_lang_casm::operand::DerefOrImmediate;
use cairo_lang_sierra::ProgramParser;
use cairo_lang_sierra_type_size::ProgramRegistryInfo;
use num_bigint::BigInt;
use num_traits::ToPrimitive;

use crate::compiler::{compile, SierraToCasmConfig};
use crate::metadata::{calc_metadata, calc_metadata_ap_change_only};

#[path = "../shared/e2e_corpus.rs"]
mod e2e_corpus;

fn imm(d: &DerefOrImmediate) -> Option<i64> { match d { DerefOrImmediate::Immediate(v) => v.value.to_i64(), _ => None } }

/// Ok((instructions with a relative immediate target, targets behind the code)) or the defect.
fn check(src: &str) -> Option<Result<(usize, usize), String>> {
    let program = ProgramParser::new().parse(src).ok()?;
    let info = ProgramRegistryInfo::new(&program).ok()?;
    let (md, gas) = match calc_metadata(&program, &info, Default::default()) { Ok(m) => (m, true), Err(_) => (calc_metadata_ap_change_only(&program, &info).ok()?, false) };
    let casm = compile(&program, &info, &md, SierraToCasmConfig { gas_usage_check: gas, max_bytecode_size: usize::MAX }).ok()?;
    let assembled = casm.assemble();
    // hints are attached to the pc of the instruction that carries them (C16 / C19 "hint offsets point at instructions")
    {
        let mut want: Vec<(usize, usize)> = vec![];
        let mut o = 0usize;
        for ins in &casm.instructions { if !ins.hints.is_empty() { want.push((o, ins.hints.len())); } o += ins.body.op_size(); }
        let got: Vec<(usize, usize)> = assembled.hints.iter().map(|(pc, h)| (*pc, h.len())).collect();
        if got != want {
            let d = got.iter().zip(want.iter()).find(|(a, b)| a != b).map(|(a, b)| format!("assembled ({}, {} hints), instruction at ({}, {} hints)", a.0, a.1, b.0, b.1)).unwrap_or_else(|| format!("{} assembled hint entries for {} instructions with hints", got.len(), want.len()));
            return Some(Err(format!("the assembled hints are not at the offsets of the instructions that carry them: {d}")));
        }
    }
    let bytecode = assembled.bytecode;
    let ret_word: BigInt = cairo_lang_casm::casm!(ret;).instructions[0].assemble().encode()[0].clone();
    let mut starts: HashSet<usize> = HashSet::new();
    let mut o = 0usize;
    for ins in &casm.instructions { starts.insert(o); o += ins.body.op_size(); }
    let code_len = o;
    if bytecode.len() != code_len + casm.consts_info.total_segments_size { return Some(Err(format!("the bytecode has {} words: code {code_len} + const segments {}", bytecode.len(), casm.consts_info.total_segments_size))); }
    let (mut n, mut behind, mut end) = (0usize, 0usize, 0usize);
    let mut o = 0usize;
    for ins in &casm.instructions {
        let target = match &ins.body {
            InstructionBody::Call(c) if c.relative => imm(&c.target),
            InstructionBody::Jump(j) if j.relative => imm(&j.target),
            InstructionBody::Jnz(j) => imm(&j.jump_offset),
            _ => None,
        };
        if let Some(d) = target {
            n += 1;
            let t = o as i64 + d;
            // `EndOfProgram` relocations (get_builtin_costs) point at the first word AFTER the bytecode,
            // where the loader places its footer (`ret` + the builtin cost table): exactly that word is allowed
            if t >= 0 && t as usize == bytecode.len() { end += 1; o += ins.body.op_size(); continue; }
            if t < 0 || t as usize >= bytecode.len() { return Some(Err(format!("`{ins}` at offset {o} targets offset {t}, outside the bytecode ({} words)", bytecode.len()))); }
            let t = t as usize;
            if t < code_len {
                if !starts.contains(&t) { return Some(Err(format!("`{ins}` at offset {o} lands at offset {t}, in the middle of an instruction"))); }
            } else {
                behind += 1;
                if bytecode[t] != ret_word { return Some(Err(format!("`{ins}` at offset {o} lands behind the code at offset {t}, on the data word {:#x} and not on a `ret`", bytecode[t]))); }
            }
        }
        o += ins.body.op_size();
    }
    // the statements that read from a const / circuit-descriptor segment: `call rel X` has to land on the `ret` of
    // THE segment that holds that const / that circuit's descriptor, and the pointer computed by the next
    // instruction (`[ap] = [ap - 1] + Y`, where [ap - 1] is the return pc) has to be the cell of that very const
    {
        use cairo_lang_sierra::extensions::circuit::CircuitConcreteLibfunc;
        use cairo_lang_sierra::extensions::const_type::ConstConcreteLibfunc;
        use cairo_lang_sierra::extensions::core::CoreConcreteLibfunc;
        use cairo_lang_sierra::program::Statement;
        let mut inst_off = vec![];
        let mut o = 0usize;
        for ins in &casm.instructions { inst_off.push(o); o += ins.body.op_size(); }
        for (i, st) in program.statements.iter().enumerate() {
            let Statement::Invocation(inv) = st else { continue };
            let Ok(lf) = info.registry.get_libfunc(&inv.libfunc_id) else { continue };
            // (segment id, offset of the wanted cell behind the segment's `ret`)
            let want: Option<(u32, usize)> = match lf {
                CoreConcreteLibfunc::Circuit(CircuitConcreteLibfunc::GetDescriptor(l)) => casm.consts_info.circuit_segments.get(&l.ty).map(|seg| (*seg, 0)),
                CoreConcreteLibfunc::Const(ConstConcreteLibfunc::AsBox(l)) => casm.consts_info.segments.get(&l.segment_id).and_then(|s| s.const_offset.get(&l.const_type)).map(|off| (l.segment_id, *off)),
                _ => None,
            };
            let Some((seg_id, cell)) = want else { continue };
            let Some(seg) = casm.consts_info.segments.get(&seg_id) else { continue };
            let k = casm.debug_info.sierra_statement_info[i].instruction_idx;
            let (Some(call), Some(add)) = (casm.instructions.get(k), casm.instructions.get(k + 1)) else { continue };
            let InstructionBody::Call(c) = &call.body else { continue };
            let Some(d) = imm(&c.target) else { continue };
            let seg_start = code_len + seg.segment_offset;
            let target = inst_off[k] as i64 + d;
            if target != seg_start as i64 { return Some(Err(format!("statement #{i} `{}`: `{call}` lands at offset {target}, its segment #{seg_id} starts at offset {seg_start}", st.to_string().chars().take(70).collect::<String>()))); }
            if let InstructionBody::AssertEq(a) = &add.body {
                if let cairo_lang_casm::operand::ResOperand::BinOp(b) = &a.b {
                    if let Some(y) = imm(&b.b) {
                        let ptr = inst_off[k] as i64 + call.body.op_size() as i64 + y;
                        let want_ptr = (seg_start + 1 + cell) as i64;
                        if ptr != want_ptr { return Some(Err(format!("statement #{i} `{}`: the pointer computed by `{add}` is offset {ptr}, the value lives at offset {want_ptr} (segment #{seg_id} + 1 + {cell})", st.to_string().chars().take(70).collect::<String>()))); }
                        behind += 1;
                    }
                }
            }
        }
    }
    // every const segment starts with `ret`
    for (_, seg) in casm.consts_info.segments.iter() {
        let at = code_len + seg.segment_offset;
        if at >= bytecode.len() || bytecode[at] != ret_word { return Some(Err(format!("the const segment at offset {at} does not start with `ret`"))); }
    }
    let _ = end;
    Some(Ok((n, behind)))
}

#[test]
fn __verif_n_c16_layout() {
    std::panic::set_hook(Box::new(|_| {}));
    let mut inputs: Vec<(String, String)> = vec![];
    let mut root = std::path::PathBuf::from(env!("CARGO_MANIFEST_DIR"));
    root.pop();
    root.pop();
    let mut dirs: Vec<std::path::PathBuf> = vec!["/verif/contracts/native/corpus/c16".into(), "/verif/contracts/native/corpus/c17".into()];
    for d in ["tests/test_data", "examples", "crates/cairo-lang-sierra-to-casm/src/test_data", "crates/cairo-lang-sierra/examples", "crates/cairo-lang-starknet/test_data"] { dirs.push(root.join(d)); }
    for d in dirs {
        let Ok(rd) = std::fs::read_dir(&d) else { continue };
        let mut files: Vec<_> = rd.filter_map(|e| e.ok()).map(|e| e.path()).filter(|p| p.extension().map(|x| x == "sierra").unwrap_or(false)).collect();
        files.sort();
        for f in files { if let Ok(s) = std::fs::read_to_string(&f) { inputs.push((f.display().to_string(), s)); } }
    }
    inputs.extend(e2e_corpus::e2e_programs(env!("CARGO_MANIFEST_DIR")));
    let (mut programs, mut n, mut behind) = (0u64, 0usize, 0usize);
    let mut fails: Vec<(String, String)> = vec![];
    let mut not_compiled: Vec<String> = vec![];
    for (name, src) in inputs {
        let name2 = name.clone();
        let h = std::thread::Builder::new().stack_size(128 << 20).spawn(move || catch_unwind(AssertUnwindSafe(|| check(&src)))).unwrap();
        let name = name2;
        match h.join() {
            Ok(Ok(Some(Ok((a, b))))) => { programs += 1; n += a; behind += b; }
            Ok(Ok(Some(Err(w)))) => { programs += 1; fails.push((name, w)); }
            // the hand-written boundary programs of corpus/c16 have to compile, otherwise the check is vacuous for them
            _ => { if name.contains("/corpus/c16/") { not_compiled.push(name); } }
        }
    }
    let bound = format!("{programs} compiled Sierra programs (file corpus, e2e test files, corpus/c16), {n} relative immediate targets, {behind} of them behind the code");
    for (input, why) in &fails {
        let short = input.rsplit('/').next().unwrap_or(input);
        println!("VERIF-N id=N/n_c16_layout/relative_targets:{short} status=fail key=\"{}\" input=\"{input}\" detail=\"{short}: {}\" bound=\"{bound}\"", why.chars().take(80).collect::<String>().replace('"', "'"), why.replace('"', "'"));
    }
    if fails.is_empty() {
        if n == 0 || behind == 0 || !not_compiled.is_empty() { println!("VERIF-N id=N/n_c16_layout/skip status=skip why=\"corpus/c16 programs that do not compile: {not_compiled:?}\""); println!("VERIF-N id=N/n_c16_layout/relative_targets status=unknown"); } else { println!("VERIF-N id=N/n_c16_layout/relative_targets status=ok cases={n} distinct={programs} bound=\"{bound}\""); }
    }
}
