// N unit (C16 "occupy exactly the size the toolchain assumes" / relocation arithmetic), BOUNDED:
// `Relocation::apply` (map-free variants RelativeStatementId, EndOfProgram) and
// `relocate_instructions`. `BigInt += i128` on symbolic values is out of CBMC's reach, so this is
// a native enumeration over boundary offsets. Contract: on exactly the four relocatable shapes
// (call rel imm without ap++, jmp rel imm, jnz imm, `a = b op imm`) the immediate becomes
// old + target_pc - instruction_offset; every other shape panics "Bad relocation."; and
// relocate_instructions hands each entry the offset Σ op_size of the preceding instructions.
#![allow(dead_code, unused_imports)]
use std::panic::{catch_unwind, AssertUnwindSafe};

use cairo_lang_casm::instructions::*;
use cairo_lang_casm::operand::*;
use cairo_lang_sierra::program::StatementIdx;
use num_bigint::BigInt;

use super::{relocate_instructions, Relocation, RelocationEntry};
use crate::compiler::{ConstsInfo, SierraStatementDebugInfo, StatementKindDebugInfo};

fn cellr(o: i16) -> CellRef { CellRef { register: Register::AP, offset: o } }
fn immv(v: i128) -> DerefOrImmediate { DerefOrImmediate::Immediate(BigInt::from(v).into()) }
fn info(start: usize, end: usize) -> SierraStatementDebugInfo {
    SierraStatementDebugInfo { start_offset: start, end_offset: end, instruction_idx: 0, additional_kind_info: StatementKindDebugInfo::Return(crate::compiler::ReturnStatementDebugInfo { ref_values: vec![] }) }
}
fn consts(total: usize) -> ConstsInfo { ConstsInfo { segments: Default::default(), total_segments_size: total, circuit_segments: Default::default() } }
/// (instruction, relocatable?)
fn shapes(v: i128) -> Vec<(Instruction, bool)> {
    let mut out = vec![];
    for rel in [false, true] { for inc in [false, true] {
        out.push((Instruction::new(InstructionBody::Call(CallInstruction { target: immv(v), relative: rel }), inc), rel && !inc));
        out.push((Instruction::new(InstructionBody::Jump(JumpInstruction { target: immv(v), relative: rel }), inc), rel));
    }}
    for inc in [false, true] {
        out.push((Instruction::new(InstructionBody::Jnz(JnzInstruction { jump_offset: immv(v), condition: cellr(-1) }), inc), true));
        out.push((Instruction::new(InstructionBody::AssertEq(AssertEqInstruction { a: cellr(0), b: ResOperand::BinOp(BinOpOperand { op: Operation::Add, a: cellr(-1), b: immv(v) }) }), inc), true));
        out.push((Instruction::new(InstructionBody::AssertEq(AssertEqInstruction { a: cellr(0), b: ResOperand::Immediate(BigInt::from(v).into()) }), inc), false));
        out.push((Instruction::new(InstructionBody::AssertEq(AssertEqInstruction { a: cellr(0), b: ResOperand::Deref(cellr(-2)) }), inc), false));
        out.push((Instruction::new(InstructionBody::Jnz(JnzInstruction { jump_offset: DerefOrImmediate::Deref(cellr(-3)), condition: cellr(-1) }), inc), false));
    }
    out.push((Instruction::new(InstructionBody::Ret(RetInstruction {}), false), false));
    out.push((Instruction::new(InstructionBody::AddAp(AddApInstruction { operand: ResOperand::Immediate(BigInt::from(v).into()) }), false), false));
    out
}
fn imm_of(i: &Instruction) -> Option<BigInt> {
    match &i.body {
        InstructionBody::Call(CallInstruction { target: DerefOrImmediate::Immediate(v), .. })
        | InstructionBody::Jump(JumpInstruction { target: DerefOrImmediate::Immediate(v), .. })
        | InstructionBody::Jnz(JnzInstruction { jump_offset: DerefOrImmediate::Immediate(v), .. }) => Some(v.value.clone()),
        InstructionBody::AssertEq(AssertEqInstruction { b: ResOperand::BinOp(BinOpOperand { b: DerefOrImmediate::Immediate(v), .. }), .. }) => Some(v.value.clone()),
        InstructionBody::AssertEq(AssertEqInstruction { b: ResOperand::Immediate(v), .. }) => Some(v.value.clone()),
        InstructionBody::AddAp(AddApInstruction { operand: ResOperand::Immediate(v) }) => Some(v.value.clone()),
        _ => None,
    }
}

#[test]
fn __verif_n_c16_reloc_apply() {
    std::panic::set_hook(Box::new(|_| {}));
    let offs: [usize; 7] = [0, 1, 2, 1000, 65535, 1 << 32, (1 << 47) - 1];
    let imms: [i128; 5] = [0, 1, -1, 1 << 64, -(1i128 << 100)];
    let mut cases = 0u64;
    let mut fail: Option<(String, String)> = None;
    'o: for &target in &offs { for &at in &offs { for &v in &imms { for eop in [false, true] {
        for (ins, relocatable) in shapes(v) {
            cases += 1;
            let infos = if eop { vec![info(0, target)] } else { vec![info(7, 8), info(target, target + 1)] };
            let (reloc, total, want_target) = if eop { (Relocation::EndOfProgram, 5usize, target + 5) } else { (Relocation::RelativeStatementId(StatementIdx(1)), 0usize, target) };
            let ci = consts(total);
            let mut x = ins.clone();
            let r = catch_unwind(AssertUnwindSafe(|| { reloc.apply(at, &infos, &ci, &mut x); x }));
            let why = match (r, relocatable) {
                (Err(_), true) => Some("panicked on a relocatable shape".to_string()),
                (Ok(_), false) => Some("accepted a shape that cannot be relocated".to_string()),
                (Err(_), false) => None,
                (Ok(n), true) => {
                    let want = BigInt::from(v) + BigInt::from(want_target as i128) - BigInt::from(at as i128);
                    if imm_of(&n) != Some(want.clone()) { Some(format!("immediate is {:?}, expected {}", imm_of(&n), want)) }
                    else if n.inc_ap != ins.inc_ap || n.body.op_size() != ins.body.op_size() { Some("instruction otherwise changed".to_string()) } else { None }
                }
            };
            if let Some(w) = why { fail = Some((format!("{:?} at offset {} to target {} on `{}`", reloc, at, want_target, ins), w)); break 'o; }
        }
    }}}}
    let bound = "offsets {0,1,2,1000,65535,2^32,2^47-1}^2 x immediates {0,1,-1,2^64,-2^100} x 23 instruction shapes x {RelativeStatementId, EndOfProgram}";
    match fail {
        None => println!("VERIF-N id=N/n_c16_reloc/apply status=ok cases={cases} distinct={cases} bound=\"{bound}\""),
        Some((input, why)) => println!("VERIF-N id=N/n_c16_reloc/apply status=fail key=\"{why}\" input=\"{}\" detail=\"{}: {why}\" bound=\"{bound}\"", input.replace('"', "'"), input.replace('"', "'")),
    }
}

#[test]
fn __verif_n_c16_relocate_instructions() {
    std::panic::set_hook(Box::new(|_| {}));
    // programs of 4 instructions drawn from {1-word, 2-word relocatable}; each relocatable one gets an entry
    let mut cases = 0u64;
    let mut fail: Option<(String, String)> = None;
    for mask in 0u32..16 {
        cases += 1;
        let mut prog: Vec<Instruction> = vec![];
        let mut entries = vec![];
        let mut expected = vec![];
        let mut off = 0i128;
        for i in 0..4 {
            if mask >> i & 1 == 1 {
                prog.push(Instruction::new(InstructionBody::Jump(JumpInstruction { target: immv(0), relative: true }), false));
                entries.push(RelocationEntry { instruction_idx: i, relocation: Relocation::RelativeStatementId(StatementIdx(0)) });
                expected.push(Some(BigInt::from(1000 - off)));
                off += 2;
            } else {
                prog.push(Instruction::new(InstructionBody::AssertEq(AssertEqInstruction { a: cellr(0), b: ResOperand::Deref(cellr(-2)) }), true));
                expected.push(None);
                off += 1;
            }
        }
        let infos = vec![info(1000, 1001)];
        let r = catch_unwind(AssertUnwindSafe(|| { relocate_instructions(&entries, &infos, &consts(0), &mut prog); prog }));
        let why = match r {
            Err(_) => Some("panicked".to_string()),
            Ok(p) => { let got: Vec<_> = p.iter().map(imm_of).collect(); if got != expected { Some(format!("immediates {:?}, expected {:?}", got, expected)) } else { None } }
        };
        if let Some(w) = why { fail = Some((format!("instruction pattern {mask:04b}"), w)); break; }
    }
    let bound = "all 16 patterns of 4 instructions from {1-word, 2-word relocatable}";
    match fail {
        None => println!("VERIF-N id=N/n_c16_reloc/relocate_instructions status=ok cases={cases} distinct={cases} bound=\"{bound}\""),
        Some((input, why)) => println!("VERIF-N id=N/n_c16_reloc/relocate_instructions status=fail key=\"{why}\" input=\"{input}\" detail=\"{input}: {why}\" bound=\"{bound}\""),
    }
}
