// N unit (C17), BOUNDED stand-in for the contract that no verifier here can reach:
//   "the ap change the metadata DECLARES for a function equals the movement of ap along every
//    path of the CASM that compile() emits for it"
// (the declared value comes from the per-libfunc table core_libfunc_ap_change.rs through a solver;
// the emitted code comes from ~200 build_* generators; libfuncs built with the raw
// `builder.build` are not covered by the builder's own declared-vs-measured assertion).
// For every function with a Known declared change k, every acyclic path through the emitted
// instructions from the function's entry to a `ret` is walked and the ap increments are summed:
// `ap++` +1, `ap += imm` +imm, `call rel imm` to a function with Known change c: +c+2. All sums
// must equal k. Indirect jumps (enum-match jump tables) are resolved with the statement's byte
// range from the debug info. Anything the walk cannot decide (unknown callee change, non-immediate
// `ap +=`) skips the function, never flags it.
// Corpus: /verif/contracts/native/corpus/c17/*.sierra (hand-written, raw-builder libfuncs) and the
// repository's own *.sierra files that compile with the default configuration.
#![allow(dead_code, unused_imports)]
use std::collections::{HashMap, HashSet};
use std::panic::{catch_unwind, AssertUnwindSafe};

use cairo_lang_casm::instructions::{Instruction, InstructionBody};
use cairo_lang_casm::operand::{DerefOrImmediate, ResOperand};
use cairo_lang_sierra::ProgramParser;
use cairo_lang_sierra_type_size::ProgramRegistryInfo;
use num_traits::ToPrimitive;

use crate::compiler::{compile, SierraToCasmConfig};
use crate::metadata::calc_metadata;

enum Verdict { Ok(usize /*functions checked*/, usize /*paths*/), Skip(String), Fail(String) }

fn imm(d: &DerefOrImmediate) -> Option<i64> { match d { DerefOrImmediate::Immediate(v) => v.value.to_i64(), _ => None } }

fn is_fail(a: &cairo_lang_casm::instructions::AssertEqInstruction) -> bool {
    use cairo_lang_casm::operand::{BinOpOperand, CellRef, Operation, Register};
    let fp1 = CellRef { register: Register::FP, offset: -1 };
    match &a.b {
        ResOperand::BinOp(BinOpOperand { op: Operation::Add, a: x, b: DerefOrImmediate::Immediate(v) }) => a.a == fp1 && *x == fp1 && v.value.to_i64() == Some(1),
        _ => false,
    }
}

fn analyze(src: &str) -> Verdict {
    let program = match ProgramParser::new().parse(src) { Ok(p) => p, Err(_) => return Verdict::Skip("does not parse".into()) };
    let info = match ProgramRegistryInfo::new(&program) { Ok(i) => i, Err(_) => return Verdict::Skip("registry error".into()) };
    // with gas accounting when the program supports it, otherwise ap-change metadata only
    let (md, gas) = match calc_metadata(&program, &info, Default::default()) {
        Ok(m) => (m, true),
        Err(_) => match crate::metadata::calc_metadata_ap_change_only(&program, &info) { Ok(m) => (m, false), Err(_) => return Verdict::Skip("metadata error".into()) },
    };
    let casm = match compile(&program, &info, &md, SierraToCasmConfig { gas_usage_check: gas, max_bytecode_size: usize::MAX }) { Ok(c) => c, Err(_) => return Verdict::Skip("compile error".into()) };
    // instruction offsets
    let mut offs = vec![];
    let mut at: HashMap<usize, usize> = HashMap::new();
    let mut o = 0usize;
    for (i, ins) in casm.instructions.iter().enumerate() { offs.push(o); at.insert(o, i); o += ins.body.op_size(); }
    let stmts = &casm.debug_info.sierra_statement_info;
    let entry_of = |f: &cairo_lang_sierra::program::Function| stmts[f.entry_point.0].start_offset;
    // entry offset -> declared change; an offset shared by several functions (a function over an
    // uninhabited type emits no code and "starts" where the next one does) is ambiguous: None
    let mut declared: HashMap<usize, Option<usize>> = HashMap::new();
    let mut shared: HashSet<usize> = HashSet::new();
    for f in &program.funcs {
        let e = entry_of(f);
        if declared.insert(e, md.ap_change_info.function_ap_change.get(&f.id).copied()).is_some() { shared.insert(e); }
    }
    for e in &shared { declared.insert(*e, None); }
    let stmt_end = |off: usize| stmts.iter().find(|s| s.start_offset <= off && off < s.end_offset).map(|s| s.end_offset);
    // Sierra-level flow facts the CASM alone does not show: a statement without a fallthrough
    // branch never continues into the code that physically follows it (e.g. `enum_match` on an
    // empty enum emits no instruction at all).
    use cairo_lang_sierra::program::{BranchTarget, Statement};
    let falls_through = |i: usize| match &program.statements[i] {
        Statement::Return(_) => false,
        Statement::Invocation(inv) => inv.branches.iter().any(|b| match b.target { BranchTarget::Fallthrough => true, BranchTarget::Statement(t) => t.0 == i + 1 }),
    };
    // offsets holding a zero-size statement that does not fall through: which statement a jump to
    // such an offset targets cannot be told from the CASM, so functions reaching one are skipped
    let blockers: HashSet<usize> = stmts.iter().enumerate().filter(|(i, s)| s.start_offset == s.end_offset && !falls_through(*i)).map(|(_, s)| s.start_offset).collect();
    let stmt_of = |off: usize| stmts.iter().position(|s| s.start_offset <= off && off < s.end_offset);
    let (mut nfun, mut npaths) = (0, 0);
    for f in &program.funcs {
        let Some(k) = md.ap_change_info.function_ap_change.get(&f.id).copied() else { continue };
        if shared.contains(&entry_of(f)) { continue; }
        let mut stack = vec![(entry_of(f), 0i64, (usize::MAX, 0i64))];
        let mut seen: HashSet<(usize, i64)> = HashSet::new();
        let mut pred: HashMap<(usize, i64), (usize, i64)> = HashMap::new();
        let mut undecided = false;
        let mut steps = 0;
        while let Some((pc, ap, from)) = stack.pop().map(|(a, b, c): (usize, i64, (usize, i64))| (a, b, c)) {
            if !seen.insert((pc, ap)) { continue; }
            pred.insert((pc, ap), from);
            if blockers.contains(&pc) { undecided = true; break; }
            // sequential flow out of a statement that has no fallthrough branch is not a path
            if from.0 != usize::MAX && from.0 < pc {
                if let (Some(a), Some(&fi)) = (stmt_of(from.0), at.get(&from.0)) {
                    let seq = from.0 + casm.instructions[fi].body.op_size() == pc;
                    if seq && stmts[a].end_offset == pc && !falls_through(a) { continue; }
                }
            }
            steps += 1;
            if steps > 400_000 { undecided = true; break; }
            let Some(&i) = at.get(&pc) else { return Verdict::Fail(format!("function {}: path reaches offset {pc}, which is not an instruction boundary", f.id)) };
            let ins: &Instruction = &casm.instructions[i];
            let size = ins.body.op_size();
            let ap1 = ap + if ins.inc_ap { 1 } else { 0 };
            match &ins.body {
                InstructionBody::Ret(_) => {
                    npaths += 1;
                    if ap != k as i64 {
                        let mut path = vec![];
                        let mut cur = (pc, ap);
                        while cur.0 != usize::MAX && path.len() < 60 { {
                                let si = stmts.iter().position(|s| s.start_offset <= cur.0 && cur.0 < s.end_offset);
                                let zero: Vec<String> = stmts.iter().enumerate().filter(|(_, s)| s.start_offset == cur.0 && s.end_offset == cur.0).map(|(i, _)| format!("#{i} {}", program.statements[i]).chars().take(60).collect()).collect();
                                let st = format!("{} zero-size-here={:?}", si.map(|i| format!("#{i} {}", program.statements[i])).unwrap_or_default().chars().take(80).collect::<String>(), zero);
                                path.push(format!("{}:{} `{}` <{}>", cur.0, cur.1, casm.instructions[at[&cur.0]].body, st.chars().take(900).collect::<String>()));
                            } cur = pred[&cur]; }
                        path.reverse();
                        return Verdict::Fail(format!("function {}: declared ap change {k}, but a path of the emitted code reaches `ret` at offset {pc} after moving ap by {ap}; path offset:ap = {}", f.id, path.join(" ")));
                    }
                }
                // `[fp - 1] = [fp - 1] + 1` is the builder's `fail`: an assertion no memory can satisfy,
                // so execution never continues past it
                InstructionBody::AssertEq(a) if is_fail(a) => {}
                InstructionBody::AssertEq(_) | InstructionBody::QM31AssertEq(_) | InstructionBody::Blake2sCompress(_) => stack.push((pc + size, ap1, (pc, ap))),
                InstructionBody::AddAp(a) => match &a.operand {
                    ResOperand::Immediate(v) => match v.value.to_i64() { Some(n) => stack.push((pc + size, ap + n, (pc, ap))), None => { undecided = true; break; } },
                    _ => { undecided = true; break; }
                },
                InstructionBody::Jump(j) => match (j.relative, imm(&j.target)) {
                    (true, Some(d)) => stack.push(((pc as i64 + d) as usize, ap1, (pc, ap))),
                    (true, None) => {
                        // jump table: targets are the remaining instructions of this Sierra statement and its end
                        let Some(end) = stmt_end(pc) else { undecided = true; break };
                        let mut t = pc + size;
                        while t < end { stack.push((t, ap1, (pc, ap))); t += casm.instructions[at[&t]].body.op_size(); }
                        stack.push((end, ap1, (pc, ap)));
                    }
                    _ => { undecided = true; break; }
                },
                InstructionBody::Jnz(j) => match imm(&j.jump_offset) {
                    Some(d) => { stack.push((pc + size, ap1, (pc, ap))); stack.push(((pc as i64 + d) as usize, ap1, (pc, ap))); }
                    None => { undecided = true; break; }
                },
                InstructionBody::Call(c) => match (c.relative, imm(&c.target)) {
                    (true, Some(d)) => match declared.get(&((pc as i64 + d) as usize)) {
                        Some(Some(c)) => {
                            if std::env::var("VERIF_DEBUG").is_ok() {
                                let t = (pc as i64 + d) as usize;
                                let cands: Vec<String> = program.funcs.iter().filter(|g| entry_of(g) == t).map(|g| format!("{}={:?}", g.id, md.ap_change_info.function_ap_change.get(&g.id))).collect();
                                eprintln!("CALL at {pc} -> {t}: {:?}", cands);
                            }
                            stack.push((pc + size, ap + *c as i64 + 2, (pc, ap)))
                        }
                        _ => { undecided = true; break; }
                    },
                    _ => { undecided = true; break; }
                },
            }
        }
        if !undecided { nfun += 1; }
    }
    Verdict::Ok(nfun, npaths)
}


/// Generated boundary programs: one function whose two returning paths differ by
/// `stores * 2^levels` cells of ap (the short path's branch_align has to burn that much), so that
/// the alignment value crosses the 2^15 / 2^16 operand boundaries.
fn gen_align_program(levels: usize, stores: usize) -> String {
    use std::fmt::Write;
    let ty = |i: usize| if i == 0 { "felt252".to_string() } else { format!("S{i}") };
    let mut s = String::from("type felt252 = felt252;\ntype NZ = NonZero<felt252>;\n");
    for i in 1..=levels { writeln!(s, "type S{i} = Struct<ut@S{i}, {p}, {p}>;", p = ty(i - 1)).unwrap(); }
    s.push_str("libfunc is_zero = felt252_is_zero;\nlibfunc align = branch_align;\nlibfunc drop_nz = drop<NZ>;\nlibfunc one = felt252_const<1>;\nlibfunc two = felt252_const<2>;\nlibfunc st = store_temp<felt252>;\n");
    for i in 0..=levels { writeln!(s, "libfunc dup{i} = dup<{}>;", ty(i)).unwrap(); }
    for i in 1..=levels { writeln!(s, "libfunc mk{i} = struct_construct<S{i}>;").unwrap(); }
    writeln!(s, "libfunc st_big = store_temp<{t}>;\nlibfunc drop_big = drop<{t}>;", t = ty(levels)).unwrap();
    s.push_str("is_zero([0]) { fallthrough() Long([1]) };\nalign() -> ();\none() -> ([2]);\nst([2]) -> ([2]);\nreturn([2]);\nLong:\nalign() -> ();\ndrop_nz([1]) -> ();\none() -> ([10]);\n");
    // [10+i] holds a value of 2^i cells
    for i in 0..levels { writeln!(s, "dup{i}([{a}]) -> ([{a}], [{b}]);\nmk{n}([{a}], [{b}]) -> ([{c}]);", a = 10 + i, b = 100 + i, c = 11 + i, n = i + 1).unwrap(); }
    let big = 10 + levels;
    for k in 0..stores { writeln!(s, "dup{levels}([{big}]) -> ([{big}], [{c}]);\nst_big([{c}]) -> ([{c}]);\ndrop_big([{c}]) -> ();", c = 200 + k).unwrap(); }
    writeln!(s, "drop_big([{big}]) -> ();\ntwo() -> ([3]);\nst([3]) -> ([3]);\nreturn([3]);\nf@0([0]: felt252) -> (felt252);").unwrap();
    s
}
fn generated() -> Vec<(String, String)> {
    let thorough = std::env::var("VERIF_TIER").map(|t| t == "thorough").unwrap_or(false);
    let shapes: &[(usize, usize)] = if thorough { &[(3, 1), (14, 1), (14, 2), (14, 3), (14, 4), (14, 5), (13, 4), (13, 8), (12, 16)] } else { &[(3, 1), (14, 2), (14, 4)] };
    shapes.iter().map(|(l, n)| (format!("generated: paths differing by {n} x 2^{l} cells of ap"), gen_align_program(*l, *n))).collect()
}

#[path = "../shared/e2e_corpus.rs"]
mod e2e_corpus;

fn corpus() -> Vec<std::path::PathBuf> {
    let mut out = vec![];
    if let Ok(rd) = std::fs::read_dir("/verif/contracts/native/corpus/c17") { for e in rd.filter_map(|e| e.ok()) { out.push(e.path()); } }
    let mut root = std::path::PathBuf::from(env!("CARGO_MANIFEST_DIR"));
    root.pop();
    root.pop();
    for d in ["tests/test_data", "examples", "crates/cairo-lang-sierra-to-casm/src/test_data", "crates/cairo-lang-sierra/examples", "crates/cairo-lang-starknet/test_data"] {
        if let Ok(rd) = std::fs::read_dir(root.join(d)) { for e in rd.filter_map(|e| e.ok()) { out.push(e.path()); } }
    }
    out.retain(|p| p.extension().map(|x| x == "sierra").unwrap_or(false));
    out.sort();
    out
}

#[test]
fn __verif_n_c17_casm_paths() {
    std::panic::set_hook(Box::new(|_| {}));
    let files = corpus();
    let (mut ok_files, mut funs, mut paths, mut skipped) = (0u64, 0usize, 0usize, 0u64);
    let mut fails = vec![];
    let mut inputs: Vec<(String, String)> = files.iter().filter_map(|f| std::fs::read_to_string(f).ok().map(|s| (f.display().to_string(), s))).collect();
    let e2e = e2e_corpus::e2e_programs(env!("CARGO_MANIFEST_DIR"));
    let n_e2e = e2e.len();
    inputs.extend(e2e);
    let gens = generated();
    let n_gen = gens.len();
    inputs.extend(gens);
    let mut gen_ok = 0;
    for (name, src) in inputs {
        let is_gen = name.starts_with("generated:");
        let h = std::thread::Builder::new().stack_size(128 << 20).spawn(move || catch_unwind(AssertUnwindSafe(|| analyze(&src)))).unwrap();
        match h.join() {
            Ok(Ok(Verdict::Ok(n, p))) => { ok_files += 1; funs += n; paths += p; if is_gen && n > 0 { gen_ok += 1; } }
            Ok(Ok(Verdict::Skip(w))) => { skipped += 1; println!("VERIF-N id=N/n_c17_casm_paths/skip status=skip file=\"{name}\" why=\"{w}\""); }
            Ok(Ok(Verdict::Fail(w))) => fails.push((name, w)),
            _ => skipped += 1,
        }
    }
    let bound = format!("{} Sierra programs ({n_e2e} from the e2e test files; {} compiled, {} skipped; {n_gen} generated with path differences around 2^15 and 2^16 cells, {gen_ok} of them checked), {} functions with a Known declared change, {} entry-to-ret paths", files.len() + n_gen + n_e2e, ok_files, skipped, funs, paths);
    for (input, why) in &fails {
        let short = input.rsplit('/').next().unwrap_or(input);
        println!("VERIF-N id=N/n_c17_casm_paths/declared_vs_emitted:{short} status=fail key=\"{}\" input=\"{input}\" detail=\"{short}: {}\" bound=\"{bound}\"", why.replace('"', "'"), why.replace('"', "'"));
    }
    if funs == 0 { println!("VERIF-N id=N/n_c17_casm_paths/declared_vs_emitted status=unknown"); }
    else if fails.len() < files.len() + n_gen + n_e2e { println!("VERIF-N id=N/n_c17_casm_paths/declared_vs_emitted status=ok cases={} distinct={} bound=\"{bound}\"", paths.max(1), funs.max(1)); }
}

/// Second sentence of C17: "every Sierra statement's code occupies exactly the bytecode range recorded
/// for it". For every compiled corpus program: statement i starts at the offset of its first
/// instruction (sum of op_size of all earlier instructions), ends where statement i+1 starts, the last
/// one ends at the end of the code, and the assembled bytecode is exactly the code plus the const
/// segments.
#[test]
fn __verif_n_c17_statement_ranges() {
    std::panic::set_hook(Box::new(|_| {}));
    let files = corpus();
    let (mut okf, mut nst) = (0u64, 0usize);
    let mut fail: Option<(String, String)> = None;
    let mut inputs: Vec<(String, String)> = files.iter().filter_map(|f| std::fs::read_to_string(f).ok().map(|s| (f.display().to_string(), s))).collect();
    inputs.extend(e2e_corpus::e2e_programs(env!("CARGO_MANIFEST_DIR")));
    inputs.extend(generated());
    for (fname, src) in inputs {
        let h = std::thread::Builder::new().stack_size(128 << 20).spawn(move || catch_unwind(AssertUnwindSafe(|| -> Option<Result<usize, String>> {
            let program = ProgramParser::new().parse(&src).ok()?;
            let info = ProgramRegistryInfo::new(&program).ok()?;
            let (md, gas) = match calc_metadata(&program, &info, Default::default()) { Ok(m) => (m, true), Err(_) => (crate::metadata::calc_metadata_ap_change_only(&program, &info).ok()?, false) };
            let casm = compile(&program, &info, &md, SierraToCasmConfig { gas_usage_check: gas, max_bytecode_size: usize::MAX }).ok()?;
            let mut offs = vec![];
            let mut o = 0usize;
            for ins in &casm.instructions { offs.push(o); o += ins.body.op_size(); }
            offs.push(o);
            let st = &casm.debug_info.sierra_statement_info;
            if st.len() != program.statements.len() { return Some(Err(format!("{} statement ranges for {} statements", st.len(), program.statements.len()))); }
            for (i, s) in st.iter().enumerate() {
                if s.instruction_idx >= offs.len() || offs[s.instruction_idx] != s.start_offset { return Some(Err(format!("statement #{i}: recorded start {} is not the offset of its first instruction", s.start_offset))); }
                let want_end = if i + 1 < st.len() { st[i + 1].start_offset } else { o };
                if s.end_offset != want_end || s.end_offset < s.start_offset { return Some(Err(format!("statement #{i}: recorded range [{}, {}) but the next statement starts at {want_end}", s.start_offset, s.end_offset))); }
            }
            if st.first().map(|s| s.start_offset) != Some(0) { return Some(Err("the first statement does not start at offset 0".into())); }
            let assembled = casm.assemble();
            if assembled.bytecode.len() != o + casm.consts_info.total_segments_size { return Some(Err(format!("assembled bytecode has {} words, code {} + const segments {}", assembled.bytecode.len(), o, casm.consts_info.total_segments_size))); }
            Some(Ok(st.len()))
        }))).unwrap();
        match h.join() {
            Ok(Ok(Some(Ok(n)))) => { okf += 1; nst += n; }
            Ok(Ok(Some(Err(w)))) => { fail = Some((fname, w)); break; }
            Ok(Err(_)) => { fail = Some((fname, "panic".into())); break; }
            _ => {}
        }
    }
    let bound = format!("{okf} compiled Sierra programs, {nst} statements");
    match fail {
        None => println!("VERIF-N id=N/n_c17_casm_paths/statement_ranges status=ok cases={} distinct={} bound=\"{bound}\"", nst.max(1), okf.max(2)),
        Some((input, why)) => println!("VERIF-N id=N/n_c17_casm_paths/statement_ranges status=fail key=\"{}\" input=\"{input}\" detail=\"{}: {}\" bound=\"{bound}\"", why.replace('"', "'"), input.rsplit('/').next().unwrap_or(""), why.replace('"', "'")),
    }
}

#[path = "../shared/stmt_walk.rs"]
mod stmt_walk;

/// Per-statement form of the first sentence of C17, independent of the ap-change solver: for every
/// invocation statement of every compiled corpus program whose libfunc declares
/// `ApChange::Known(k)` for a branch (core_libfunc_ap_change.rs), every path through the
/// instructions emitted for the statement that leaves through that branch moves ap by exactly k.
/// Covers the statements of functions whose own ap change is Unknown (loops, recursion), which the
/// function-level path sum above cannot say anything about.
#[test]
fn __verif_n_c17_stmt_ap() {
    use cairo_lang_sierra::extensions::core::CoreConcreteLibfunc;
    use cairo_lang_sierra::extensions::gas::CostTokenType;
    use cairo_lang_sierra::ids::ConcreteTypeId;
    use cairo_lang_sierra::program::{BranchTarget, Statement, StatementIdx};
    use cairo_lang_sierra_ap_change::core_libfunc_ap_change::{core_libfunc_ap_change, InvocationApChangeInfoProvider};
    use cairo_lang_sierra_ap_change::ApChange;
    struct Provider<'a> { info: &'a ProgramRegistryInfo, md: &'a crate::metadata::Metadata, idx: StatementIdx }
    impl InvocationApChangeInfoProvider for Provider<'_> {
        fn type_size(&self, ty: &ConcreteTypeId) -> usize { self.info.type_sizes[ty] as usize }
        fn token_usages(&self, token_type: CostTokenType) -> usize { self.md.gas_info.variable_values.get(&(self.idx, token_type)).copied().unwrap_or(0).max(0) as usize }
    }
    std::panic::set_hook(Box::new(|_| {}));
    let files = corpus();
    let mut inputs: Vec<(String, String)> = files.iter().filter_map(|f| std::fs::read_to_string(f).ok().map(|s| (f.display().to_string(), s))).collect();
    inputs.extend(e2e_corpus::e2e_programs(env!("CARGO_MANIFEST_DIR")));
    let (mut programs, mut nst, mut ncmp) = (0u64, 0u64, 0u64);
    let mut fails: Vec<(String, String)> = vec![];
    for (name, src) in inputs {
        let h = std::thread::Builder::new().stack_size(128 << 20).spawn(move || catch_unwind(AssertUnwindSafe(|| -> Option<(u64, u64, Option<String>)> {
            let program = ProgramParser::new().parse(&src).ok()?;
            let info = ProgramRegistryInfo::new(&program).ok()?;
            let (md, gas) = match calc_metadata(&program, &info, Default::default()) { Ok(m) => (m, true), Err(_) => (crate::metadata::calc_metadata_ap_change_only(&program, &info).ok()?, false) };
            let casm = compile(&program, &info, &md, SierraToCasmConfig { gas_usage_check: gas, max_bytecode_size: usize::MAX }).ok()?;
            let at = stmt_walk::offsets(&casm);
            let stmts = &casm.debug_info.sierra_statement_info;
            let (mut nst, mut ncmp) = (0u64, 0u64);
            for (i, st) in program.statements.iter().enumerate() {
                let Statement::Invocation(inv) = st else { continue };
                let Ok(lf) = info.registry.get_libfunc(&inv.libfunc_id) else { continue };
                if matches!(lf, CoreConcreteLibfunc::FunctionCall(_) | CoreConcreteLibfunc::CouponCall(_) | CoreConcreteLibfunc::DummyFunctionCall(_)) { continue; }
                let (start, end) = (stmts[i].start_offset, stmts[i].end_offset);
                let provider = Provider { info: &info, md: &md, idx: StatementIdx(i) };
                let Ok(declared) = catch_unwind(AssertUnwindSafe(|| core_libfunc_ap_change(lf, &provider))) else { continue };
                if declared.len() != inv.branches.len() { continue; }
                // exit offset -> declared Known change (None when ambiguous or not Known)
                let mut exit_k: HashMap<usize, Option<i64>> = HashMap::new();
                for (b, br) in inv.branches.iter().enumerate() {
                    let t = match br.target { BranchTarget::Fallthrough => i + 1, BranchTarget::Statement(t) => t.0 };
                    let off = if matches!(br.target, BranchTarget::Fallthrough) || t == i + 1 { end } else if t < stmts.len() { stmts[t].start_offset } else { continue };
                    let k = match &declared[b] { ApChange::Known(k) => Some(*k as i64), _ => None };
                    match exit_k.get(&off) { Some(prev) if *prev != k => { exit_k.insert(off, None); } Some(_) => {} None => { exit_k.insert(off, k); } }
                }
                if start == end {
                    // no code: every Known branch must declare 0
                    for (b, d) in declared.iter().enumerate() { if let ApChange::Known(k) = d { ncmp += 1; if *k != 0 { return Some((nst, ncmp, Some(format!("statement #{i} `{}`: branch {b} declares ap change {k} but no instruction is emitted for the statement", st.to_string().chars().take(90).collect::<String>())))); } } }
                    nst += 1;
                    continue;
                }
                let Some(paths) = stmt_walk::walk(&casm, &at, start, end) else { continue };
                nst += 1;
                for (exit, _, ap) in &paths {
                    if let Some(Some(k)) = exit_k.get(exit) {
                        ncmp += 1;
                        if ap != k { return Some((nst, ncmp, Some(format!("statement #{i} `{}`: the table declares ap change {k} for the branch leaving at offset {exit}, a path of the emitted code moves ap by {ap}", st.to_string().chars().take(90).collect::<String>())))); }
                    }
                }
            }
            Some((nst, ncmp, None))
        }))).unwrap();
        match h.join() {
            Ok(Ok(Some((n, c, None)))) => { programs += 1; nst += n; ncmp += c; }
            Ok(Ok(Some((n, c, Some(w))))) => { programs += 1; nst += n; ncmp += c; fails.push((name, w)); }
            _ => {}
        }
    }
    let bound = format!("{programs} compiled Sierra programs (file corpus + e2e test files), {nst} invocation statements, {ncmp} (exit, path) comparisons");
    for (input, why) in &fails {
        let short = input.rsplit('/').next().unwrap_or(input);
        println!("VERIF-N id=N/n_c17_casm_paths/stmt_ap_declared_vs_emitted:{short} status=fail key=\"{}\" input=\"{input}\" detail=\"{short}: {}\" bound=\"{bound}\"", why.replace('"', "'").chars().take(100).collect::<String>(), why.replace('"', "'"));
    }
    if fails.is_empty() {
        if ncmp == 0 { println!("VERIF-N id=N/n_c17_casm_paths/stmt_ap_declared_vs_emitted status=unknown"); }
        else { println!("VERIF-N id=N/n_c17_casm_paths/stmt_ap_declared_vs_emitted status=ok cases={ncmp} distinct={nst} bound=\"{bound}\""); }
    }
}
