// N unit (C17, C14), BOUNDED twin of the Verus unit `env_ap_frame`: the same contracts, evaluated
// by enumeration, so that a rewrite of a body into a form Verus cannot take verbatim (iterator
// adaptors, closures) leaves a deciding check instead of an UNDECIDED one.
//   update_ap_tracking(t, c): (Enabled{a, base}, Known(k)) -> Ok(Enabled{a + k, base}), Err(OffsetOverflow)
//                             iff a + k overflows; everything else -> Ok(Disabled); never panics.
//   handle_alloc_local / handle_finalize_locals / validate_final_frame_state: the transition
//   relation of DESIGN 4/C17 (locals only from a known distance to the function start, contiguous,
//   finalize returns the cells handed out, Allocating is not a final state).
#![allow(dead_code, unused_imports)]
use std::panic::{catch_unwind, AssertUnwindSafe};

use cairo_lang_casm::ap_change::{ApChange, ApChangeError};
use cairo_lang_sierra::program::StatementIdx;

use super::ap_tracking::update_ap_tracking;
use super::frame_state::{handle_alloc_local, handle_finalize_locals, validate_final_frame_state, FrameState, FrameStateError};
use super::{ApTracking, ApTrackingBase};

fn vals() -> Vec<usize> { vec![0, 1, 2, 7, 32767, 32768, 1 << 40, usize::MAX - 1, usize::MAX] }
fn trackings() -> Vec<ApTracking> {
    let mut v = vec![ApTracking::Disabled];
    for a in vals() { for b in [ApTrackingBase::FunctionStart, ApTrackingBase::Statement(StatementIdx(0)), ApTrackingBase::Statement(StatementIdx(9))] { v.push(ApTracking::Enabled { ap_change: a, base: b }); } }
    v
}

#[test]
fn __verif_n_c17_env_twin() {
    std::panic::set_hook(Box::new(|_| {}));
    let mut cases = 0u64;
    let mut fail: Option<(String, String)> = None;
    'o: for t in trackings() {
        let mut changes = vec![ApChange::Unknown];
        for k in vals() { changes.push(ApChange::Known(k)); }
        for c in changes {
            cases += 1;
            let want = match (t, c) {
                (ApTracking::Enabled { ap_change: a, base }, ApChange::Known(k)) => match a.checked_add(k) { Some(s) => Ok(ApTracking::Enabled { ap_change: s, base }), None => Err(ApChangeError::OffsetOverflow) },
                _ => Ok(ApTracking::Disabled),
            };
            match catch_unwind(AssertUnwindSafe(|| update_ap_tracking(t, c))) {
                Ok(got) if got == want => {}
                Ok(got) => { fail = Some((format!("update_ap_tracking({t:?}, {c:?})"), format!("returned {got:?}, expected {want:?}"))); break 'o; }
                Err(_) => { fail = Some((format!("update_ap_tracking({t:?}, {c:?})"), "panic".into())); break 'o; }
            }
        }
        // frame state
        let small = [0usize, 1, 5, 32767];
        let mut frames = vec![FrameState::BeforeAllocation];
        for a in small { for s in [0usize, 3, 1 << 20] { frames.push(FrameState::Allocating { allocated: a, locals_start_ap_offset: s }); } frames.push(FrameState::Finalized { allocated: a }); }
        for fs in frames {
            let at_start = |d: usize| matches!(t, ApTracking::Enabled { ap_change, base: ApTrackingBase::FunctionStart } if ap_change == d);
            let from_start = matches!(t, ApTracking::Enabled { base: ApTrackingBase::FunctionStart, .. });
            let tracked = match t { ApTracking::Enabled { ap_change, .. } => ap_change, _ => 0 };
            if tracked >= 1 << 48 { continue; } // A3: counters far below usize::MAX (the unit's stated precondition)
            for size in small {
                cases += 1;
                let want = match &fs {
                    FrameState::BeforeAllocation => if from_start { Ok((tracked, FrameState::Allocating { allocated: size, locals_start_ap_offset: tracked })) } else { Err(FrameStateError::InvalidAllocLocal(fs.clone())) },
                    FrameState::Allocating { allocated, locals_start_ap_offset } => if at_start(*locals_start_ap_offset) { Ok((locals_start_ap_offset + allocated, FrameState::Allocating { allocated: allocated + size, locals_start_ap_offset: *locals_start_ap_offset })) } else { Err(FrameStateError::InvalidAllocLocal(fs.clone())) },
                    FrameState::Finalized { .. } => Err(FrameStateError::InvalidAllocLocal(fs.clone())),
                };
                match catch_unwind(AssertUnwindSafe(|| handle_alloc_local(fs.clone(), t, size))) {
                    Ok(got) if got == want => {}
                    Ok(got) => { fail = Some((format!("handle_alloc_local({fs:?}, {t:?}, {size})"), format!("returned {got:?}, expected {want:?}"))); break 'o; }
                    Err(_) => { fail = Some((format!("handle_alloc_local({fs:?}, {t:?}, {size})"), "panic".into())); break 'o; }
                }
            }
            cases += 1;
            let want = match &fs {
                FrameState::BeforeAllocation => if from_start { Ok((0, FrameState::Finalized { allocated: 0 })) } else { Err(FrameStateError::InvalidFinalizeLocals(fs.clone())) },
                FrameState::Allocating { allocated, locals_start_ap_offset } => if at_start(*locals_start_ap_offset) { Ok((*allocated, FrameState::Finalized { allocated: *allocated })) } else { Err(FrameStateError::InvalidFinalizeLocals(fs.clone())) },
                FrameState::Finalized { .. } => Err(FrameStateError::InvalidFinalizeLocals(fs.clone())),
            };
            match catch_unwind(AssertUnwindSafe(|| handle_finalize_locals(fs.clone(), t))) {
                Ok(got) if got == want => {}
                Ok(got) => { fail = Some((format!("handle_finalize_locals({fs:?}, {t:?})"), format!("returned {got:?}, expected {want:?}"))); break 'o; }
                Err(_) => { fail = Some((format!("handle_finalize_locals({fs:?}, {t:?})"), "panic".into())); break 'o; }
            }
            let want_final = !matches!(fs, FrameState::Allocating { .. });
            match catch_unwind(AssertUnwindSafe(|| validate_final_frame_state(&fs))) {
                Ok(r) if r.is_ok() == want_final && (want_final || r == Err(FrameStateError::FinalizeLocalsMissing(fs.clone()))) => {}
                Ok(r) => { fail = Some((format!("validate_final_frame_state({fs:?})"), format!("returned {r:?}"))); break 'o; }
                Err(_) => { fail = Some((format!("validate_final_frame_state({fs:?})"), "panic".into())); break 'o; }
            }
        }
    }
    let bound = "28 tracking states x 10 ap changes; 17 frame states x 28 tracking states x 4 sizes (boundary values)";
    match fail {
        None => println!("VERIF-N id=N/n_c17_env_twin/env_contracts status=ok cases={cases} distinct={cases} bound=\"{bound}\""),
        Some((input, why)) => println!("VERIF-N id=N/n_c17_env_twin/env_contracts status=fail key=\"{}\" input=\"{}\" detail=\"{}: {}\" bound=\"{bound}\"", why.replace('"', "'").chars().take(100).collect::<String>(), input.replace('"', "'"), input.replace('"', "'"), why.replace('"', "'")),
    }
}
