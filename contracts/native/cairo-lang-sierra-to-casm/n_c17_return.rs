// N unit (C17), BOUNDED stand-in: `ProgramAnnotations::validate_return_properties` /
// `validate_final_annotations` - the place where the tracked ap change is compared with the
// DECLARED function ap change at every `return`. It reads `Metadata` through an indexmap and finds
// the function with a closure, so neither verifier can run it; the comparison itself is a single
// `!=` on `ApTracking`. Contract (from the property statement): a return is accepted iff
//   declared(f) = Some(k)  and tracking == Enabled{ap_change: k, base: FunctionStart}, or
//   declared(f) = None     and tracking == Disabled,
// and the returned types match the signature, and (final) the frame state is not Allocating.
#![allow(dead_code, unused_imports)]
use std::panic::{catch_unwind, AssertUnwindSafe};

use cairo_lang_sierra::ids::{ConcreteTypeId, FunctionId};
use cairo_lang_sierra::program::{Function, StatementIdx};
use cairo_lang_utils::unordered_hash_set::UnorderedHashSet;

use super::{AnnotationError, ProgramAnnotations, StatementAnnotations};
use crate::environment::frame_state::FrameState;
use crate::environment::gas_wallet::GasWallet;
use crate::environment::{ApTracking, ApTrackingBase, Environment};
use crate::metadata::Metadata;

#[test]
fn __verif_n_c17_return_properties() {
    std::panic::set_hook(Box::new(|_| {}));
    let vals: [usize; 6] = [0, 1, 2, 3, usize::MAX - 1, usize::MAX];
    let mut trackings = vec![ApTracking::Disabled];
    for v in vals {
        trackings.push(ApTracking::Enabled { ap_change: v, base: ApTrackingBase::FunctionStart });
        trackings.push(ApTracking::Enabled { ap_change: v, base: ApTrackingBase::Statement(StatementIdx(0)) });
        trackings.push(ApTracking::Enabled { ap_change: v, base: ApTrackingBase::Statement(StatementIdx(5)) });
    }
    let frames = [FrameState::BeforeAllocation, FrameState::Allocating { allocated: 1, locals_start_ap_offset: 0 }, FrameState::Finalized { allocated: 2 }];
    let mut declared: Vec<Option<usize>> = vec![None];
    declared.extend(vals.iter().map(|v| Some(*v)));
    let pa = ProgramAnnotations::new(1, UnorderedHashSet::default());
    let mut cases = 0u64;
    let mut fail: Option<(String, String)> = None;
    'o: for d in &declared { for t in &trackings { for fs in &frames { for other_declared in [false, true] {
        cases += 1;
        let f = Function::new(FunctionId::new(7), vec![], vec![], StatementIdx(0));
        let g = Function::new(FunctionId::new(8), vec![], vec![], StatementIdx(0));
        let mut md = Metadata::default();
        if let Some(k) = d { md.ap_change_info.function_ap_change.insert(f.id.clone(), *k); }
        // another function's declaration must not influence the verdict
        if other_declared { md.ap_change_info.function_ap_change.insert(g.id.clone(), 1); }
        let mut env = Environment::new(GasWallet::Disabled);
        env.ap_tracking = *t;
        env.frame_state = fs.clone();
        let ann = StatementAnnotations { refs: Default::default(), function_id: f.id.clone(), convergence_allowed: false, environment: env };
        let funcs = vec![g.clone(), f.clone()];
        let want_props = match d {
            Some(k) => *t == ApTracking::Enabled { ap_change: *k, base: ApTrackingBase::FunctionStart },
            None => *t == ApTracking::Disabled,
        };
        let want_final = want_props && !matches!(fs, FrameState::Allocating { .. });
        let r = catch_unwind(AssertUnwindSafe(|| (
            pa.validate_return_properties(StatementIdx(3), &ann, &funcs, &md, &[]).is_ok(),
            pa.validate_final_annotations(StatementIdx(3), &ann, &funcs, &md, &[]).is_ok(),
        )));
        let why = match r {
            Err(_) => Some("panic".to_string()),
            Ok((p, f)) if p != want_props => Some(format!("validate_return_properties accepted={p}, tracked change equals the declared one={want_props}")),
            Ok((_, f)) if f != want_final => Some(format!("validate_final_annotations accepted={f}, expected {want_final}")),
            _ => None,
        };
        if let Some(w) = why { fail = Some((format!("declared={d:?} tracking={t:?} frame={fs:?}"), w)); break 'o; }
    }}}}
    let bound = "declared in {None,0,1,2,3,MAX-1,MAX} x tracking in {Disabled, Enabled{those values} x 3 bases} x 3 frame states";
    match fail {
        None => println!("VERIF-N id=N/n_c17_return/return_properties status=ok cases={cases} distinct={cases} bound=\"{bound}\""),
        Some((input, why)) => println!("VERIF-N id=N/n_c17_return/return_properties status=fail key=\"{}\" input=\"{}\" detail=\"{}: {}\" bound=\"{bound}\"", why.replace('"', "'"), input.replace('"', "'"), input.replace('"', "'"), why.replace('"', "'")),
    }
}
