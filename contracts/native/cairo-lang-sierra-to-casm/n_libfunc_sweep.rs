// N unit (C14 + C04 + C17), BOUNDED stand-in for the per-libfunc contracts that sit in tables and
// in ~200 build_* generators (no function to put under contract; BigInt range arithmetic):
//   every generic libfunc id x every generic-argument list of length 0..=2 over the boundary
//   universe (shared/spec_universe.rs) that ProgramRegistry ACCEPTS is turned into a one-invocation
//   program
//        f(params = the libfunc's input types):  L(params) { fallthrough(..) B1(..) .. }
//        (twice: with the parameters themselves as arguments, and with every argument copied to a
//         temporary first, i.e. ap-based references on the stack top)
//        each branch:  branch_align;  Lk: jump() { Lk() }        (results stay alive, nothing returns)
//   and run through calc_metadata_ap_change_only + compile (gas metadata cannot exist for a
//   function that never returns; the per-libfunc cost table is evaluated directly).
//   C14  nothing unwinds (registry, metadata under both solver configurations, compile)
//   C17  for every branch with a declared ApChange::Known(k): every path through the instructions
//        emitted for the invocation that leaves through that branch moves ap by exactly k
//   C04  for every branch: 100 * (instructions on any such path) <= declared price of the branch
// Libfuncs whose cost / ap change depends on other statements (gas, function_call, coupon,
// branch_align, locals, ap tracking) are excluded from the two comparisons.
#![allow(dead_code, unused_imports)]
use std::collections::{HashMap, HashSet};
use std::panic::{catch_unwind, AssertUnwindSafe};

use cairo_lang_casm::instructions::{Instruction, InstructionBody};
use cairo_lang_casm::operand::{DerefOrImmediate, ResOperand};
use cairo_lang_sierra as sierra;
use cairo_lang_sierra::extensions::circuit::CircuitInfo;
use cairo_lang_sierra::extensions::core::{CoreConcreteLibfunc, CoreLibfunc, CoreType};
use cairo_lang_sierra::extensions::gas::CostTokenType;
use cairo_lang_sierra::extensions::lib_func::GenericLibfunc;
use cairo_lang_sierra::extensions::ConcreteLibfunc;
use cairo_lang_sierra::ids::{ConcreteTypeId, VarId};
use cairo_lang_sierra::program::{BranchInfo, BranchTarget, ConcreteLibfuncLongId, Function, GenBranchTarget, Invocation, LibfuncDeclaration, Param, Program, Statement, StatementIdx};
use cairo_lang_sierra::program_registry::ProgramRegistry;
use cairo_lang_sierra_ap_change::core_libfunc_ap_change::{core_libfunc_ap_change, InvocationApChangeInfoProvider};
use cairo_lang_sierra_ap_change::ApChange;
use cairo_lang_sierra_gas::core_libfunc_cost::{core_libfunc_cost, InvocationCostInfoProvider};
use cairo_lang_sierra_type_size::ProgramRegistryInfo;
use num_traits::ToPrimitive;

use crate::circuit::CircuitsInfo;
use crate::compiler::{compile, SierraToCasmConfig};
use crate::metadata::{calc_metadata, calc_metadata_ap_change_only, Metadata, MetadataComputationConfig};

#[path = "../shared/spec_universe.rs"]
mod spec_universe;
use spec_universe::{assemble, base_program, parse_arg, registry_autodecl, universe, Parsed, Target};

struct Provider<'a> { info: &'a ProgramRegistryInfo, md: &'a Metadata, circuits: &'a CircuitsInfo, idx: StatementIdx }
impl InvocationCostInfoProvider for Provider<'_> {
    fn type_size(&self, ty: &ConcreteTypeId) -> usize { self.info.type_sizes[ty] as usize }
    fn token_usages(&self, token_type: CostTokenType) -> usize { self.md.gas_info.variable_values.get(&(self.idx, token_type)).copied().unwrap_or(0).max(0) as usize }
    fn ap_change_var_value(&self) -> usize { self.md.ap_change_info.variable_values.get(&self.idx).copied().unwrap_or_default() }
    fn circuit_info(&self, ty: &ConcreteTypeId) -> &CircuitInfo { self.circuits.circuits.get(ty).unwrap() }
}
impl InvocationApChangeInfoProvider for Provider<'_> {
    fn type_size(&self, ty: &ConcreteTypeId) -> usize { self.info.type_sizes[ty] as usize }
    fn token_usages(&self, token_type: CostTokenType) -> usize { self.md.gas_info.variable_values.get(&(self.idx, token_type)).copied().unwrap_or(0).max(0) as usize }
}

/// The one-invocation program around the (accepted) declaration `L` of `p`.
fn synthesize(p: &Program, registry: &ProgramRegistry<CoreType, CoreLibfunc>, temps: bool) -> Option<(Program, usize)> {
    let lf = registry.get_libfunc(&"L".into()).ok()?;
    let mut q = p.clone();
    q.statements.clear();
    q.funcs.clear();
    q.libfunc_declarations.push(LibfuncDeclaration { id: "verif_align".into(), long_id: ConcreteLibfuncLongId { generic_id: "branch_align".into(), generic_args: vec![] } });
    q.libfunc_declarations.push(LibfuncDeclaration { id: "verif_jump".into(), long_id: ConcreteLibfuncLongId { generic_id: "jump".into(), generic_args: vec![] } });
    let params: Vec<Param> = lf.param_signatures().iter().enumerate().map(|(i, ps)| Param { id: VarId::new(i as u64), ty: ps.ty.clone() }).collect();
    let nb = lf.branch_signatures().len();
    let mut next_var = 1000u64;
    // optional prologue: every argument is copied to a temporary first (ap-based references, on the stack top)
    let mut args: Vec<VarId> = params.iter().map(|p| p.id.clone()).collect();
    if temps {
        if params.is_empty() { return None; }
        for (i, prm) in params.iter().enumerate() {
            let lid = format!("verif_st{i}");
            q.libfunc_declarations.push(LibfuncDeclaration { id: lid.as_str().into(), long_id: ConcreteLibfuncLongId { generic_id: "store_temp".into(), generic_args: vec![cairo_lang_sierra::program::GenericArg::Type(prm.ty.clone())] } });
            let v = VarId::new(500 + i as u64);
            q.statements.push(Statement::Invocation(Invocation { libfunc_id: lid.as_str().into(), args: vec![prm.id.clone()], branches: vec![BranchInfo { target: BranchTarget::Fallthrough, results: vec![v.clone()] }] }));
            args[i] = v;
        }
    }
    let at = q.statements.len();
    // layout: `at` = invocation; branch b block = [align?] [jump-to-self]
    let per = if nb > 1 { 2 } else { 1 };
    let mut branches = vec![];
    for (b, bs) in lf.branch_signatures().iter().enumerate() {
        let results: Vec<VarId> = bs.vars.iter().map(|_| { next_var += 1; VarId::new(next_var) }).collect();
        let target = if b == 0 { BranchTarget::Fallthrough } else { BranchTarget::Statement(StatementIdx(at + 1 + b * per)) };
        branches.push(BranchInfo { target, results });
    }
    q.statements.push(Statement::Invocation(Invocation { libfunc_id: "L".into(), args, branches }));
    for b in 0..nb {
        if nb > 1 { q.statements.push(Statement::Invocation(Invocation { libfunc_id: "verif_align".into(), args: vec![], branches: vec![BranchInfo { target: BranchTarget::Fallthrough, results: vec![] }] })); }
        let me = q.statements.len();
        q.statements.push(Statement::Invocation(Invocation { libfunc_id: "verif_jump".into(), args: vec![], branches: vec![BranchInfo { target: BranchTarget::Statement(StatementIdx(me)), results: vec![] }] }));
    }
    q.funcs.push(Function::new("verif_f".into(), params, vec![], StatementIdx(0)));
    Some((q, at))
}

#[path = "../shared/stmt_walk.rs"]
mod stmt_walk;
use stmt_walk::walk;

#[derive(Default)]
struct Part { cases: u64, accepted: u64, compiled: u64, compared_ap: u64, compared_cost: u64, fails: Vec<(&'static str, String, String, String)> }

fn excluded(lf: &CoreConcreteLibfunc) -> bool {
    use cairo_lang_sierra::extensions::mem::MemConcreteLibfunc;
    matches!(lf, CoreConcreteLibfunc::Gas(_) | CoreConcreteLibfunc::FunctionCall(_) | CoreConcreteLibfunc::CouponCall(_) | CoreConcreteLibfunc::DummyFunctionCall(_) | CoreConcreteLibfunc::BranchAlign(_) | CoreConcreteLibfunc::Coupon(_) | CoreConcreteLibfunc::ApTracking(_)
        | CoreConcreteLibfunc::Mem(MemConcreteLibfunc::StoreLocal(_) | MemConcreteLibfunc::AllocLocal(_) | MemConcreteLibfunc::FinalizeLocals(_)))
}

fn one(part: &mut Part, name: &str, p: &Program) {
    part.cases += 1;
    let msg = |e: Box<dyn std::any::Any + Send>| if let Some(s) = e.downcast_ref::<String>() { s.clone() } else if let Some(s) = e.downcast_ref::<&str>() { s.to_string() } else { "panic".into() };
    let mut fail = |part: &mut Part, prop: &'static str, key: String, input: String, why: String| { if !part.fails.iter().any(|f| f.0 == prop && f.1 == key) { part.fails.push((prop, key, input, why)); } };
    let mut p = p.clone();
    let p = &mut p;
    let reg = match spec_universe::registry_autodecl(p) { Err(m) => { fail(part, "C14", format!("{name}: registry: {}", m.chars().take(60).collect::<String>()), format!("{p}").replace('\n', " "), format!("ProgramRegistry::new panicked: {m}")); return; } Ok(None) => return, Ok(Some(r)) => r };
    part.accepted += 1;
    // C15 (signature level): builtin pointers are linear resources - no libfunc creates, copies or
    // forgets one: each builtin type occurs in every branch's outputs exactly as often as in the inputs
    if let Ok(lf) = reg.get_libfunc(&"L".into()) {
        if !matches!(lf, CoreConcreteLibfunc::FunctionCall(_) | CoreConcreteLibfunc::CouponCall(_) | CoreConcreteLibfunc::DummyFunctionCall(_)) {
            let generic_of = |ty: &ConcreteTypeId| reg.get_type(ty).ok().map(|t| { use cairo_lang_sierra::extensions::ConcreteType; t.info().long_id.generic_id.0.to_string() });
            const BUILTINS: [&str; 11] = ["RangeCheck", "GasBuiltin", "Pedersen", "Bitwise", "EcOp", "Poseidon", "SegmentArena", "RangeCheck96", "AddMod", "MulMod", "System"];
            // a declaration whose generic arguments mention a builtin type (Box<Pedersen>, a struct with a
            // RangeCheck member, ..) moves builtins in and out of containers: conservation would have to be
            // counted inside the containers, so those declarations are left out
            fn mentions(reg: &ProgramRegistry<CoreType, CoreLibfunc>, arg: &cairo_lang_sierra::program::GenericArg, depth: usize) -> bool {
                use cairo_lang_sierra::extensions::ConcreteType;
                let cairo_lang_sierra::program::GenericArg::Type(ty) = arg else { return false };
                let Ok(t) = reg.get_type(ty) else { return false };
                let l = &t.info().long_id;
                BUILTINS.contains(&l.generic_id.0.as_str()) || (depth < 8 && l.generic_args.iter().any(|a| mentions(reg, a, depth + 1)))
            }
            let skip = p.libfunc_declarations[0].long_id.generic_args.iter().any(|a| mentions(&reg, a, 0));
            for b in BUILTINS.iter().filter(|_| !skip) {
                let b = *b;
                let n_in = lf.param_signatures().iter().filter(|ps| generic_of(&ps.ty).as_deref() == Some(b)).count();
                for (bi, bs) in lf.branch_signatures().iter().enumerate() {
                    let n_out = bs.vars.iter().filter(|v| generic_of(&v.ty).as_deref() == Some(b)).count();
                    if n_in != n_out { fail(part, "C15", format!("{name} {b}"), format!("{}", p.libfunc_declarations[0].long_id), format!("`{}` takes {n_in} value(s) of the builtin type {b} and branch {bi} returns {n_out}: a builtin pointer would be created, copied or forgotten", p.libfunc_declarations[0].long_id)); }
                }
            }
        }
    }
    let trace = std::env::var("VERIF_SWEEP_TRACE").is_ok();
    for temps in [false, true] {
    let Some((q, at_stmt)) = synthesize(p, &reg, temps) else { continue };
    let text = format!("{q}").replace('\n', " ");
    // the whole pipeline, never unwinding
    let r = catch_unwind(AssertUnwindSafe(|| {
        let info = ProgramRegistryInfo::new(&q).ok()?;
        for cfg in [MetadataComputationConfig::default(), MetadataComputationConfig { linear_gas_solver: false, linear_ap_change_solver: false, ..Default::default() }] { let _ = calc_metadata(&q, &info, cfg); }
        let md = calc_metadata_ap_change_only(&q, &info).ok()?;
        let casm = compile(&q, &info, &md, SierraToCasmConfig { gas_usage_check: false, max_bytecode_size: usize::MAX }).ok()?;
        Some((info, md, casm))
    }));
    let (info, md, casm) = match r { Err(e) => { let m = msg(e); fail(part, "C14", format!("{name}: {}", m.chars().take(70).collect::<String>()), text, format!("the pipeline panicked on a one-invocation program: {m}")); continue; } Ok(None) => { if trace { eprintln!("SWEEP not-compiled {}", p.libfunc_declarations[0].long_id); } continue; } Ok(Some(x)) => x };
    part.compiled += 1;
    let Ok(lf) = info.registry.get_libfunc(&"L".into()) else { continue };
    if excluded(lf) { continue; }
    let Ok(circuits) = CircuitsInfo::new(&info.registry, q.type_declarations.iter().map(|td| &td.id)) else { continue };
    let mut at: HashMap<usize, usize> = HashMap::new();
    let mut o = 0usize;
    for (i, ins) in casm.instructions.iter().enumerate() { at.insert(o, i); o += ins.body.op_size(); }
    let stmts = &casm.debug_info.sierra_statement_info;
    let (start, end) = (stmts[at_stmt].start_offset, stmts[at_stmt].end_offset);
    let Statement::Invocation(inv) = &q.statements[at_stmt] else { continue };
    let Some(paths) = walk(&casm, &at, start, end) else { if trace { eprintln!("SWEEP walk-undecided {}", p.libfunc_declarations[0].long_id); } continue; };
    if trace { eprintln!("SWEEP compiled {} branches={} paths={}", p.libfunc_declarations[0].long_id, inv.branches.len(), paths.len()); }
    // exit offset of each branch
    let mut exit_of: Vec<usize> = vec![];
    for br in &inv.branches { exit_of.push(match br.target { BranchTarget::Fallthrough => end, BranchTarget::Statement(t) => stmts[t.0].start_offset }); }
    if exit_of.iter().collect::<HashSet<_>>().len() != exit_of.len() { continue; }
    let provider = Provider { info: &info, md: &md, circuits: &circuits, idx: StatementIdx(at_stmt) };
    // C17
    if let Ok(declared) = catch_unwind(AssertUnwindSafe(|| core_libfunc_ap_change(lf, &provider))) {
        if declared.len() == inv.branches.len() {
            for (b, d) in declared.iter().enumerate() {
                let ApChange::Known(k) = d else { continue };
                for (exit, _, ap) in paths.iter().filter(|p| p.0 == exit_of[b]) {
                    part.compared_ap += 1;
                    if *ap != *k as i64 { fail(part, "C17", format!("{name} branch {b}"), text.clone(), format!("`{}` branch {b}: the table declares ap change {k}, a path of the emitted code leaving at offset {exit} moves ap by {ap}", q.libfunc_declarations[0].long_id)); }
                }
            }
        }
    }
    // C04
    if let Ok(costs) = catch_unwind(AssertUnwindSafe(|| core_libfunc_cost(&md.gas_info, StatementIdx(at_stmt), lf, &provider))) {
        if costs.len() == inv.branches.len() {
            let price = |t: &CostTokenType| -> i64 { match t { CostTokenType::Const => 1, CostTokenType::Pedersen => 4050, CostTokenType::Poseidon => 491, CostTokenType::Bitwise => 583, CostTokenType::EcOp => 4085, CostTokenType::AddMod => 230, CostTokenType::MulMod => 604, CostTokenType::Blake => 3334, _ => 0 } };
            for (b, c) in costs.iter().enumerate() {
                let declared: i64 = c.iter().map(|(t, v)| price(t) * *v).sum();
                for (exit, steps, _) in paths.iter().filter(|p| p.0 == exit_of[b]) {
                    part.compared_cost += 1;
                    if 100 * steps > declared { fail(part, "C04", format!("{name} branch {b}"), text.clone(), format!("`{}` branch {b}: a path of the emitted code executes {steps} instructions before leaving at offset {exit}, the table declares a cost of {declared}", q.libfunc_declarations[0].long_id)); }
                }
            }
        }
    }
    }
}

#[test]
fn __verif_n_libfunc_sweep() {
    std::panic::set_hook(Box::new(|_| {}));
    let thorough = std::env::var("VERIF_TIER").map(|t| t == "thorough").unwrap_or(false);
    let uni: Vec<Parsed> = universe(thorough).iter().map(parse_arg).collect();
    let base = base_program();
    let targets: Vec<Target> = CoreLibfunc::supported_ids().into_iter().map(|id| Target::Libfunc(id.0.to_string())).collect();
    let n = 16;
    let chunks: Vec<Vec<Target>> = { let mut c = vec![vec![]; n]; for (i, t) in targets.iter().enumerate() { c[i % n].push(t.clone()); } c };
    let parts: Vec<Part> = std::thread::scope(|sc| {
        let hs: Vec<_> = chunks.iter().map(|chunk| { let (uni, base) = (&uni, &base); std::thread::Builder::new().stack_size(64 << 20).spawn_scoped(sc, move || {
            let mut part = Part::default();
            for t in chunk {
                let name = t.name();
                one(&mut part, &name, &assemble(base, &[], t));
                for a in uni.iter() { one(&mut part, &name, &assemble(base, &[a], t)); }
                for a in uni.iter() { for b in uni.iter() { one(&mut part, &name, &assemble(base, &[a, b], t)); } }
            }
            part
        }).unwrap() }).collect();
        hs.into_iter().map(|h| h.join().unwrap()).collect()
    });
    // type declarations: registry + type sizes never unwind (get_type_size_map over boundary shapes)
    let mut parts = parts;
    {
        let mut part = Part::default();
        let mut one_ty = |part: &mut Part, name: &str, p: Program| {
            part.cases += 1;
            let mut p = p;
            match registry_autodecl(&mut p) {
                Err(m) => part.fails.push(("C14", format!("{name}: registry: {}", m.chars().take(60).collect::<String>()), format!("{p}").replace('\n', " "), format!("ProgramRegistry::new panicked: {m}"))),
                Ok(None) => {}
                Ok(Some(_)) => {
                    part.accepted += 1;
                    if let Err(e) = catch_unwind(AssertUnwindSafe(|| ProgramRegistryInfo::new(&p).is_ok())) {
                        let m = if let Some(s) = e.downcast_ref::<String>() { s.clone() } else if let Some(s) = e.downcast_ref::<&str>() { s.to_string() } else { "panic".into() };
                        if !part.fails.iter().any(|f| f.1.starts_with(name)) { part.fails.push(("C14", format!("{name}: type sizes: {}", m.chars().take(60).collect::<String>()), format!("{p}").replace('\n', " "), format!("ProgramRegistryInfo::new (type sizes) panicked: {m}"))); }
                    }
                }
            }
        };
        for id in spec_universe::GENERIC_TYPE_IDS {
            let t = Target::Type(id.to_string());
            let name = t.name();
            one_ty(&mut part, &name, assemble(&base, &[], &t));
            for a in uni.iter() { one_ty(&mut part, &name, assemble(&base, &[a], &t)); }
            for a in uni.iter() { for b in uni.iter() { one_ty(&mut part, &name, assemble(&base, &[a, b], &t)); } }
        }
        parts.push(part);
    }
    let sum = |f: fn(&Part) -> u64| parts.iter().map(f).sum::<u64>();
    let (cases, accepted, compiled, cap, ccost) = (sum(|p| p.cases), sum(|p| p.accepted), sum(|p| p.compiled), sum(|p| p.compared_ap), sum(|p| p.compared_cost));
    let bound = format!("{} generic libfunc ids (and every generic type id, through the type-size map) x argument lists of length 0..=2 over {} boundary types/values: {cases} declarations, {accepted} accepted, {compiled} one-invocation programs compiled; {cap} (branch, path) ap comparisons, {ccost} cost comparisons", targets.len(), uni.len());
    for (prop, id) in [("C14", "total"), ("C17", "ap_declared_equals_emitted"), ("C04", "cost_covers_steps"), ("C15", "builtins_are_threaded")] {
        let mine: Vec<_> = parts.iter().flat_map(|p| p.fails.iter()).filter(|f| f.0 == prop).collect();
        for (k, (_, key, input, why)) in mine.iter().enumerate() {
            println!("VERIF-N id=N/n_libfunc_sweep/{id}:{} props={prop} status=fail key=\"{}\" input=\"{}\" detail=\"{}\" bound=\"{bound}\"", k + 1, key.replace('"', "'"), input.replace('"', "'").chars().take(1500).collect::<String>(), why.replace('"', "'").replace('\n', " ").chars().take(400).collect::<String>());
        }
        if mine.is_empty() {
            if compiled == 0 { println!("VERIF-N id=N/n_libfunc_sweep/{id} props={prop} status=unknown"); }
            else { println!("VERIF-N id=N/n_libfunc_sweep/{id} props={prop} status=ok cases={} distinct={compiled} bound=\"{bound}\"", match prop { "C14" => cases, "C17" => cap.max(1), "C15" => accepted.max(1), _ => ccost.max(1) }); }
        }
    }
}
