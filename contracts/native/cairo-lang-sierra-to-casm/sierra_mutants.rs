// Shared by n_c14_mutations.rs and n_c15_independent.rs: the structured mutation space over parsed
// Sierra programs and the small corpus it is applied to.
#![allow(dead_code, unused_imports)]
use cairo_lang_sierra::ids::{ConcreteTypeId, VarId};
use cairo_lang_sierra::program::{BranchTarget, GenericArg, Program, Statement, StatementIdx};
use num_bigint::BigInt;

pub fn boundary_values() -> Vec<BigInt> {
    let one = BigInt::from(1);
    let p: BigInt = (&one << 251) + BigInt::from(17) * (&one << 192) + &one;
    vec![BigInt::from(0), one.clone(), BigInt::from(-1), BigInt::from(1 << 15), BigInt::from(65535), &one << 63, (&one << 64) - 1, &one << 64, &one << 128, &p - 1, p, &one << 256]
}

/// All single mutations of `p` (description, mutated program).
pub fn mutants(p: &Program) -> Vec<(String, Program)> {
    let mut out: Vec<(String, Program)> = vec![];
    let n = p.statements.len();
    for i in 0..n {
        let mut q = p.clone(); q.statements.remove(i); out.push((format!("delete statement {i}"), q));
        let mut q = p.clone(); let s = q.statements[i].clone(); q.statements.insert(i, s); out.push((format!("duplicate statement {i}"), q));
        if i + 1 < n { let mut q = p.clone(); q.statements.swap(i, i + 1); out.push((format!("swap statements {i},{}", i + 1), q)); }
        match &p.statements[i] {
            Statement::Invocation(inv) => {
                for a in 0..inv.args.len() {
                    let mut q = p.clone(); if let Statement::Invocation(x) = &mut q.statements[i] { x.args.remove(a); } out.push((format!("statement {i}: drop arg {a}"), q));
                    let mut q = p.clone(); if let Statement::Invocation(x) = &mut q.statements[i] { let v = x.args[a].clone(); x.args.push(v); } out.push((format!("statement {i}: duplicate arg {a}"), q));
                    let mut q = p.clone(); if let Statement::Invocation(x) = &mut q.statements[i] { x.args[a] = VarId::new(987654); } out.push((format!("statement {i}: arg {a} := unknown var"), q));
                    if a + 1 < inv.args.len() { let mut q = p.clone(); if let Statement::Invocation(x) = &mut q.statements[i] { x.args.swap(a, a + 1); } out.push((format!("statement {i}: swap args {a},{}", a + 1), q)); }
                }
                for b in 0..inv.branches.len() {
                    for (what, t) in [("out of range", BranchTarget::Statement(StatementIdx(n + 7))), ("usize::MAX", BranchTarget::Statement(StatementIdx(usize::MAX))), ("self", BranchTarget::Statement(StatementIdx(i))), ("0", BranchTarget::Statement(StatementIdx(0))), ("fallthrough", BranchTarget::Fallthrough)] {
                        let mut q = p.clone(); if let Statement::Invocation(x) = &mut q.statements[i] { x.branches[b].target = t; } out.push((format!("statement {i}: branch {b} target := {what}"), q));
                    }
                    let mut q = p.clone(); if let Statement::Invocation(x) = &mut q.statements[i] { x.branches.remove(b); } out.push((format!("statement {i}: drop branch {b}"), q));
                    for r in 0..inv.branches[b].results.len() {
                        let mut q = p.clone(); if let Statement::Invocation(x) = &mut q.statements[i] { x.branches[b].results.remove(r); } out.push((format!("statement {i}: branch {b} drop result {r}"), q));
                        let mut q = p.clone(); if let Statement::Invocation(x) = &mut q.statements[i] { let v = x.branches[b].results[r].clone(); x.branches[b].results.push(v); } out.push((format!("statement {i}: branch {b} duplicate result {r}"), q));
                    }
                }
            }
            Statement::Return(vars) => {
                for a in 0..vars.len() { let mut q = p.clone(); if let Statement::Return(x) = &mut q.statements[i] { x.remove(a); } out.push((format!("return {i}: drop value {a}"), q)); }
                let mut q = p.clone(); if let Statement::Return(x) = &mut q.statements[i] { x.push(VarId::new(987654)); } out.push((format!("return {i}: extra unknown value"), q));
            }
        }
    }
    for t in 0..p.type_declarations.len() {
        let mut q = p.clone(); q.type_declarations.remove(t); out.push((format!("delete type declaration {t}"), q));
        let mut q = p.clone(); let d = q.type_declarations[t].clone(); q.type_declarations.push(d); out.push((format!("duplicate type declaration {t}"), q));
        for g in 0..p.type_declarations[t].long_id.generic_args.len() {
            for v in boundary_values() { let mut q = p.clone(); q.type_declarations[t].long_id.generic_args[g] = GenericArg::Value(v.clone()); out.push((format!("type {t}: generic arg {g} := value {v}"), q)); }
            let mut q = p.clone(); q.type_declarations[t].long_id.generic_args.remove(g); out.push((format!("type {t}: drop generic arg {g}"), q));
            let mut q = p.clone(); let a = q.type_declarations[t].long_id.generic_args[g].clone(); q.type_declarations[t].long_id.generic_args.push(a); out.push((format!("type {t}: duplicate generic arg {g}"), q));
            let mut q = p.clone(); q.type_declarations[t].long_id.generic_args[g] = GenericArg::Type(q.type_declarations[t].id.clone()); out.push((format!("type {t}: generic arg {g} := itself"), q));
        }
    }
    for l in 0..p.libfunc_declarations.len() {
        let mut q = p.clone(); q.libfunc_declarations.remove(l); out.push((format!("delete libfunc declaration {l}"), q));
        for g in 0..p.libfunc_declarations[l].long_id.generic_args.len() {
            for v in boundary_values() { let mut q = p.clone(); q.libfunc_declarations[l].long_id.generic_args[g] = GenericArg::Value(v.clone()); out.push((format!("libfunc {l}: generic arg {g} := value {v}"), q)); }
            let mut q = p.clone(); q.libfunc_declarations[l].long_id.generic_args.remove(g); out.push((format!("libfunc {l}: drop generic arg {g}"), q));
            for t in 0..p.type_declarations.len().min(6) { let mut q = p.clone(); q.libfunc_declarations[l].long_id.generic_args[g] = GenericArg::Type(p.type_declarations[t].id.clone()); out.push((format!("libfunc {l}: generic arg {g} := type {t}"), q)); }
        }
    }
    for f in 0..p.funcs.len() {
        for (what, e) in [("out of range", n + 3), ("usize::MAX", usize::MAX), ("middle", n / 2), ("last", n.saturating_sub(1))] { let mut q = p.clone(); q.funcs[f].entry_point = StatementIdx(e); out.push((format!("function {f}: entry point := {what}"), q)); }
        let mut q = p.clone(); q.funcs.remove(f); out.push((format!("delete function {f}"), q));
        let mut q = p.clone(); let d = q.funcs[f].clone(); q.funcs.push(d); out.push((format!("duplicate function {f}"), q));
        for a in 0..p.funcs[f].params.len() {
            let mut q = p.clone(); q.funcs[f].params.remove(a); out.push((format!("function {f}: drop param {a}"), q));
            let mut q = p.clone(); let d = q.funcs[f].params[a].clone(); q.funcs[f].params.push(d); out.push((format!("function {f}: duplicate param {a}"), q));
            let mut q = p.clone(); q.funcs[f].params[a].ty = ConcreteTypeId::new(424242); out.push((format!("function {f}: param {a} of unknown type"), q));
        }
        for r in 0..p.funcs[f].signature.ret_types.len() {
            let mut q = p.clone(); q.funcs[f].signature.ret_types.remove(r); out.push((format!("function {f}: drop return type {r}"), q));
            let mut q = p.clone(); let t = q.funcs[f].signature.ret_types[r].clone(); q.funcs[f].signature.ret_types.push(t); out.push((format!("function {f}: declare an extra return type (copy of {r})"), q));
            if r + 1 < p.funcs[f].signature.ret_types.len() { let mut q = p.clone(); q.funcs[f].signature.ret_types.swap(r, r + 1); out.push((format!("function {f}: swap return types {r},{}", r + 1), q)); }
        }
        for a in 0..p.funcs[f].params.len() {
            for t in 0..p.type_declarations.len().min(8) { let mut q = p.clone(); q.funcs[f].params[a].ty = p.type_declarations[t].id.clone(); q.funcs[f].signature.param_types[a] = p.type_declarations[t].id.clone(); out.push((format!("function {f}: param {a} retyped to type {t}"), q)); }
        }
    }
    out
}

pub fn corpus() -> Vec<(String, String)> {
    let mut files = vec![];
    if let Ok(rd) = std::fs::read_dir("/verif/contracts/native/corpus/c17") { for e in rd.filter_map(|e| e.ok()) { files.push(e.path()); } }
    let mut root = std::path::PathBuf::from(env!("CARGO_MANIFEST_DIR"));
    root.pop();
    root.pop();
    let thorough = std::env::var("VERIF_TIER").map(|t| t == "thorough").unwrap_or(false);
    let names: &[&str] = if thorough { &["fib_array", "fib_box", "fib_struct", "fib_local", "fib_match", "fib_u128_checked", "fib_gas", "hash_chain_gas", "enum_flow", "match_or", "pedersen_test"] } else { &["fib_local", "fib_box", "enum_flow"] };
    for n in names { files.push(root.join("tests/test_data").join(format!("{n}.sierra"))); }
    files.sort();
    files.into_iter().filter_map(|f| std::fs::read_to_string(&f).ok().map(|s| (f.file_name().unwrap().to_string_lossy().to_string(), s))).collect()
}

