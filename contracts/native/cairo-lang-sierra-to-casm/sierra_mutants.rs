// Shared by n_c14_mutations.rs and n_c15_independent.rs: the structured mutation space over parsed
// Sierra programs and the small corpus it is applied to.
#![allow(dead_code, unused_imports)]
use cairo_lang_sierra::ids::{ConcreteTypeId, VarId};
use cairo_lang_sierra::program::{BranchTarget, GenericArg, Program, Statement, StatementIdx};
use num_bigint::BigInt;

pub fn boundary_values() -> Vec<BigInt> {
    let one = BigInt::from(1);
    let p: BigInt = (&one << 251) + BigInt::from(17) * (&one << 192) + &one;
    vec![BigInt::from(0), one.clone(), BigInt::from(-1), BigInt::from(1 << 15), BigInt::from(65535), &one << 63, (&one << 64) - 1, &one << 64, &one << 128, &p - 1, p, &one << 256]
}

/// All single mutations of `p` (description, mutated program).
/// Collects the mutants whose index satisfies `want` (all of them when `want` is None); the others
/// are only counted, not built, so that big programs can be sampled.
pub struct Ctx<'a> { pub idx: usize, pub want: Option<&'a dyn Fn(usize) -> bool>, pub out: Vec<(String, Program)> }
impl Ctx<'_> {
    fn emit(&mut self, p: &Program, desc: impl FnOnce() -> String, edit: impl FnOnce(&mut Program)) {
        let i = self.idx;
        self.idx += 1;
        if self.want.map(|w| w(i)).unwrap_or(true) {
            let mut q = p.clone();
            edit(&mut q);
            self.out.push((desc(), q));
        }
    }
}
pub fn mutants(p: &Program) -> Vec<(String, Program)> { let mut ctx = Ctx { idx: 0, want: None, out: vec![] }; build(p, &mut ctx); ctx.out }
/// Number of mutants of `p` (nothing is built).
pub fn count_mutants(p: &Program) -> usize { let never = |_: usize| false; let mut ctx = Ctx { idx: 0, want: Some(&never), out: vec![] }; build(p, &mut ctx); ctx.idx }
/// The mutants with the given indices.
pub fn mutants_at(p: &Program, want: &dyn Fn(usize) -> bool) -> Vec<(String, Program)> { let mut ctx = Ctx { idx: 0, want: Some(want), out: vec![] }; build(p, &mut ctx); ctx.out }
fn build(p: &Program, ctx: &mut Ctx) {
    let n = p.statements.len();
    for i in 0..n {
        ctx.emit(p, || format!("delete statement {i}"), |q: &mut Program| { q.statements.remove(i); });
        ctx.emit(p, || format!("duplicate statement {i}"), |q: &mut Program| { let s = q.statements[i].clone(); q.statements.insert(i, s); });
        if i + 1 < n { ctx.emit(p, || format!("swap statements {i},{}", i + 1), |q: &mut Program| { q.statements.swap(i, i + 1); }); }
        match &p.statements[i] {
            Statement::Invocation(inv) => {
                for a in 0..inv.args.len() {
                    ctx.emit(p, || format!("statement {i}: drop arg {a}"), |q: &mut Program| { if let Statement::Invocation(x) = &mut q.statements[i] { x.args.remove(a); } });
                    ctx.emit(p, || format!("statement {i}: duplicate arg {a}"), |q: &mut Program| { if let Statement::Invocation(x) = &mut q.statements[i] { let v = x.args[a].clone(); x.args.push(v); } });
                    ctx.emit(p, || format!("statement {i}: arg {a} := unknown var"), |q: &mut Program| { if let Statement::Invocation(x) = &mut q.statements[i] { x.args[a] = VarId::new(987654); } });
                    if a + 1 < inv.args.len() { ctx.emit(p, || format!("statement {i}: arg {} := arg {a} (the same variable twice)", a + 1), |q: &mut Program| { if let Statement::Invocation(x) = &mut q.statements[i] { let v = x.args[a].clone(); x.args[a + 1] = v; } }); }
                    if a + 1 < inv.args.len() { ctx.emit(p, || format!("statement {i}: swap args {a},{}", a + 1), |q: &mut Program| { if let Statement::Invocation(x) = &mut q.statements[i] { x.args.swap(a, a + 1); } }); }
                }
                for b in 0..inv.branches.len() {
                    for (what, t) in [("out of range", BranchTarget::Statement(StatementIdx(n + 7))), ("one past the last statement", BranchTarget::Statement(StatementIdx(n))), ("usize::MAX", BranchTarget::Statement(StatementIdx(usize::MAX))), ("self", BranchTarget::Statement(StatementIdx(i))), ("0", BranchTarget::Statement(StatementIdx(0))), ("fallthrough", BranchTarget::Fallthrough)] {
                        ctx.emit(p, || format!("statement {i}: branch {b} target := {what}"), |q: &mut Program| { if let Statement::Invocation(x) = &mut q.statements[i] { x.branches[b].target = t; } });
                    }
                    ctx.emit(p, || format!("statement {i}: branch {b} target := the next statement, explicitly"), |q: &mut Program| { if let Statement::Invocation(x) = &mut q.statements[i] { x.branches[b].target = BranchTarget::Statement(StatementIdx(i + 1)); } });
                    if b > 0 { ctx.emit(p, || format!("statement {i}: branch {b} target := the target of branch {}", b - 1), |q: &mut Program| { if let Statement::Invocation(x) = &mut q.statements[i] { let t = match x.branches[b - 1].target { BranchTarget::Fallthrough => BranchTarget::Statement(StatementIdx(i + 1)), t => t }; x.branches[b].target = t; } }); }
                    ctx.emit(p, || format!("statement {i}: drop branch {b}"), |q: &mut Program| { if let Statement::Invocation(x) = &mut q.statements[i] { x.branches.remove(b); } });
                    for r in 0..inv.branches[b].results.len() {
                        ctx.emit(p, || format!("statement {i}: branch {b} drop result {r}"), |q: &mut Program| { if let Statement::Invocation(x) = &mut q.statements[i] { x.branches[b].results.remove(r); } });
                        ctx.emit(p, || format!("statement {i}: branch {b} duplicate result {r}"), |q: &mut Program| { if let Statement::Invocation(x) = &mut q.statements[i] { let v = x.branches[b].results[r].clone(); x.branches[b].results.push(v); } });
                        if r > 0 { ctx.emit(p, || format!("statement {i}: branch {b}: result {r} bound to the same variable as result {}", r - 1), |q: &mut Program| { if let Statement::Invocation(x) = &mut q.statements[i] { let v = x.branches[b].results[r - 1].clone(); x.branches[b].results[r] = v; } }); }
                    }
                }
            }
            Statement::Return(vars) => {
                for a in 0..vars.len() { ctx.emit(p, || format!("return {i}: drop value {a}"), |q: &mut Program| { if let Statement::Return(x) = &mut q.statements[i] { x.remove(a); } }); }
                ctx.emit(p, || format!("return {i}: extra unknown value"), |q: &mut Program| { if let Statement::Return(x) = &mut q.statements[i] { x.push(VarId::new(987654)); } });
            }
        }
    }
    for t in 0..p.type_declarations.len() {
        ctx.emit(p, || format!("delete type declaration {t}"), |q: &mut Program| { q.type_declarations.remove(t); });
        ctx.emit(p, || format!("duplicate type declaration {t}"), |q: &mut Program| { let d = q.type_declarations[t].clone(); q.type_declarations.push(d); });
        for g in 0..p.type_declarations[t].long_id.generic_args.len() {
            for v in boundary_values() { ctx.emit(p, || format!("type {t}: generic arg {g} := value {v}"), |q: &mut Program| { q.type_declarations[t].long_id.generic_args[g] = GenericArg::Value(v.clone()); }); }
            ctx.emit(p, || format!("type {t}: drop generic arg {g}"), |q: &mut Program| { q.type_declarations[t].long_id.generic_args.remove(g); });
            ctx.emit(p, || format!("type {t}: duplicate generic arg {g}"), |q: &mut Program| { let a = q.type_declarations[t].long_id.generic_args[g].clone(); q.type_declarations[t].long_id.generic_args.push(a); });
            ctx.emit(p, || format!("type {t}: generic arg {g} := itself"), |q: &mut Program| { q.type_declarations[t].long_id.generic_args[g] = GenericArg::Type(q.type_declarations[t].id.clone()); });
        }
    }
    for l in 0..p.libfunc_declarations.len() {
        ctx.emit(p, || format!("delete libfunc declaration {l}"), |q: &mut Program| { q.libfunc_declarations.remove(l); });
        for g in 0..p.libfunc_declarations[l].long_id.generic_args.len() {
            for v in boundary_values() { ctx.emit(p, || format!("libfunc {l}: generic arg {g} := value {v}"), |q: &mut Program| { q.libfunc_declarations[l].long_id.generic_args[g] = GenericArg::Value(v.clone()); }); }
            ctx.emit(p, || format!("libfunc {l}: drop generic arg {g}"), |q: &mut Program| { q.libfunc_declarations[l].long_id.generic_args.remove(g); });
            for t in 0..p.type_declarations.len().min(6) { ctx.emit(p, || format!("libfunc {l}: generic arg {g} := type {t}"), |q: &mut Program| { q.libfunc_declarations[l].long_id.generic_args[g] = GenericArg::Type(p.type_declarations[t].id.clone()); }); }
        }
    }
    for f in 0..p.funcs.len() {
        for (what, e) in [("out of range", n + 3), ("one past the last statement", n), ("usize::MAX", usize::MAX), ("middle", n / 2), ("last", n.saturating_sub(1))] { ctx.emit(p, || format!("function {f}: entry point := {what}"), |q: &mut Program| { q.funcs[f].entry_point = StatementIdx(e); }); }
        ctx.emit(p, || format!("delete function {f}"), |q: &mut Program| { q.funcs.remove(f); });
        ctx.emit(p, || format!("duplicate function {f}"), |q: &mut Program| { let d = q.funcs[f].clone(); q.funcs.push(d); });
        for a in 0..p.funcs[f].params.len() {
            ctx.emit(p, || format!("function {f}: drop param {a}"), |q: &mut Program| { q.funcs[f].params.remove(a); });
            ctx.emit(p, || format!("function {f}: duplicate param {a}"), |q: &mut Program| { let d = q.funcs[f].params[a].clone(); q.funcs[f].params.push(d); });
            ctx.emit(p, || format!("function {f}: param {a} of unknown type"), |q: &mut Program| { q.funcs[f].params[a].ty = ConcreteTypeId::new(424242); });
        }
        for r in 0..p.funcs[f].signature.ret_types.len() {
            ctx.emit(p, || format!("function {f}: drop return type {r}"), |q: &mut Program| { q.funcs[f].signature.ret_types.remove(r); });
            ctx.emit(p, || format!("function {f}: declare an extra return type (copy of {r})"), |q: &mut Program| { let t = q.funcs[f].signature.ret_types[r].clone(); q.funcs[f].signature.ret_types.push(t); });
            if r + 1 < p.funcs[f].signature.ret_types.len() { ctx.emit(p, || format!("function {f}: swap return types {r},{}", r + 1), |q: &mut Program| { q.funcs[f].signature.ret_types.swap(r, r + 1); }); }
        }
        for a in 0..p.funcs[f].signature.param_types.len() {
            ctx.emit(p, || format!("function {f}: signature param type {a} := undeclared type id"), |q: &mut Program| { q.funcs[f].signature.param_types[a] = ConcreteTypeId::new(424242); });
        }
        for r in 0..p.funcs[f].signature.ret_types.len() {
            ctx.emit(p, || format!("function {f}: return type {r} := undeclared type id"), |q: &mut Program| { q.funcs[f].signature.ret_types[r] = ConcreteTypeId::new(424242); });
        }
        for a in 0..p.funcs[f].params.len() {
            for t in 0..p.type_declarations.len().min(8) { ctx.emit(p, || format!("function {f}: param {a} retyped to type {t}"), |q: &mut Program| { q.funcs[f].params[a].ty = p.type_declarations[t].id.clone(); q.funcs[f].signature.param_types[a] = p.type_declarations[t].id.clone(); }); }
        }
    }
}

pub fn corpus() -> Vec<(String, String)> {
    let mut files = vec![];
    if let Ok(rd) = std::fs::read_dir("/verif/contracts/native/corpus/c17") { for e in rd.filter_map(|e| e.ok()) { files.push(e.path()); } }
    let mut root = std::path::PathBuf::from(env!("CARGO_MANIFEST_DIR"));
    root.pop();
    root.pop();
    let thorough = std::env::var("VERIF_TIER").map(|t| t == "thorough").unwrap_or(false);
    let names: &[&str] = if thorough { &["fib_array", "fib_box", "fib_struct", "fib_local", "fib_match", "fib_u128_checked", "fib_gas", "hash_chain_gas", "enum_flow", "match_or", "pedersen_test"] } else { &["fib_local", "fib_box", "enum_flow", "fib_gas"] };
    for n in names { files.push(root.join("tests/test_data").join(format!("{n}.sierra"))); }
    files.sort();
    files.into_iter().filter_map(|f| std::fs::read_to_string(&f).ok().map(|s| (f.file_name().unwrap().to_string_lossy().to_string(), s))).collect()
}


#[path = "../shared/e2e_corpus.rs"]
mod e2e_corpus;
/// The Sierra programs of the repository's e2e test files (thorough tier corpora).
pub fn e2e_corpus() -> Vec<(String, String)> { e2e_corpus::e2e_programs(env!("CARGO_MANIFEST_DIR")) }
/// A fixed pseudo-random sample of `k` mutants of `p` (all of them when there are fewer).
pub fn sample_mutants(p: &Program, k: usize, seed: &mut u64) -> Vec<(String, Program)> {
    let n = count_mutants(p);
    if n <= k { return mutants(p); }
    let mut pick = std::collections::HashSet::new();
    while pick.len() < k { *seed = seed.wrapping_mul(6364136223846793005).wrapping_add(1442695040888963407); pick.insert((*seed >> 33) as usize % n); }
    mutants_at(p, &|i| pick.contains(&i))
}
