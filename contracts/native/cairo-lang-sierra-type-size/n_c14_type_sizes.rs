// N unit (C14), BOUNDED stand-in for `get_type_size_map` (one loop over a trait-object registry:
// neither verifier takes it). It is the validator that other C14/C17 units cite for the
// precondition "type sizes are in [0, i16::MAX]" (assumption A6), so its contract is checked at
// the boundary: for struct / enum declarations whose mathematical size is s,
//   never panics;  Ok(map) ==> map[ty] == s and 0 <= s <= 32767;  s > 32767 ==> Err.
#![allow(dead_code, unused_imports)]
use std::panic::{catch_unwind, AssertUnwindSafe};

use cairo_lang_sierra::ProgramParser;

use crate::ProgramRegistryInfo;

/// Program declaring S1 = felt252, S8, S64, S512, S4096 (each 8 of the previous) and a type `T`
/// made of `k[i]` members of size 8^i (and optionally wrapped in a 2-variant enum).
fn program(k: [usize; 5], as_enum: bool) -> (String, i64) {
    let mut s = String::from("type felt252 = felt252;\n");
    let names = ["felt252", "S8", "S64", "S512", "S4096"];
    for i in 1..5 { s += &format!("type {} = Struct<ut@{}, {}>;\n", names[i], names[i], vec![names[i - 1]; 8].join(", ")); }
    let mut members = vec![];
    let mut size: i64 = 0;
    for i in (0..5).rev() { for _ in 0..k[i] { members.push(names[i]); size += 8i64.pow(i as u32); } }
    s += &format!("type T = Struct<ut@T{}{}>;\n", if members.is_empty() { "" } else { ", " }, members.join(", "));
    if as_enum { s += "type E = Enum<ut@E, T, felt252>;\n"; size = 1 + size.max(1); }
    s += "\nreturn();\n\nf@0() -> ();\n";
    (s, size)
}

#[test]
fn __verif_n_c14_type_sizes() {
    std::panic::set_hook(Box::new(|_| {}));
    let mut cases = 0u64;
    let mut fail: Option<(String, String)> = None;
    // member counts chosen so that sizes hit 0, 1, 8, 32766, 32767, 32768, 32769, 36864, 65536-ish
    let ks: Vec<[usize; 5]> = vec![
        [0, 0, 0, 0, 0], [1, 0, 0, 0, 0], [0, 1, 0, 0, 0], [6, 7, 7, 7, 7], [7, 7, 7, 7, 7], [0, 0, 0, 0, 8], [1, 0, 0, 0, 8],
        [0, 0, 0, 0, 9], [0, 0, 0, 0, 16], [7, 7, 7, 7, 15], [0, 0, 0, 8, 7], [5, 7, 7, 7, 7],
    ];
    'o: for k in &ks { for as_enum in [false, true] {
        cases += 1;
        let (src, want) = program(*k, as_enum);
        let r = catch_unwind(AssertUnwindSafe(|| {
            let p = ProgramParser::new().parse(&src).map_err(|_| "parse".to_string())?;
            match ProgramRegistryInfo::new(&p) {
                Ok(info) => {
                    let id = cairo_lang_sierra::ids::ConcreteTypeId::from_string(if as_enum { "E" } else { "T" });
                    let all_ok = p.type_declarations.iter().all(|d| info.type_sizes.get(&d.id).map(|s| *s >= 0).unwrap_or(false));
                    Ok::<_, String>(Some((info.type_sizes.get(&id).copied(), all_ok)))
                }
                Err(_) => Ok(None),
            }
        }));
        let why = match r {
            Err(_) => Some("panic in ProgramRegistryInfo::new".to_string()),
            Ok(Err(e)) => Some(format!("test program problem: {e}")),
            Ok(Ok(None)) => if want <= 32767 { Some(format!("rejected although the size {want} fits i16")) } else { None },
            Ok(Ok(Some((got, all_ok)))) => {
                if want > 32767 { Some(format!("accepted a type of {want} cells (recorded size {got:?})")) }
                else if got != Some(want as i16) { Some(format!("recorded size {got:?}, mathematical size {want}")) }
                else if !all_ok { Some("negative size recorded".to_string()) } else { None }
            }
        };
        if let Some(w) = why { fail = Some((format!("struct of {:?} members of sizes [1,8,64,512,4096], enum={as_enum} (size {want})", k), w)); break 'o; }
    }}
    let bound = "12 struct shapes with sizes {0,1,8,32765..32769,36864,65536,..} x {struct, 2-variant enum around it}";
    match fail {
        None => println!("VERIF-N id=N/n_c14_type_sizes/type_size_map status=ok cases={cases} distinct={cases} bound=\"{bound}\""),
        Some((input, why)) => println!("VERIF-N id=N/n_c14_type_sizes/type_size_map status=fail key=\"{}\" input=\"{input}\" detail=\"{input}: {}\" bound=\"{bound}\"", why.replace('"', "'"), why.replace('"', "'")),
    }
}
