// N unit (C14), BOUNDED stand-in for "specialization is total": every generic libfunc id of the
// core library (CoreLibfunc::supported_ids()) and every generic type id that occurs in the
// repository's Sierra files is declared with every generic-argument list of length 0..=2 (and
// length 3 over a small sub-universe) drawn from a universe of boundary types and values, and the
// real `ProgramRegistry::<CoreType, CoreLibfunc>::new` must come back with Ok or Err - it must not
// unwind. (The ~330 `specialize_signature` / `specialize` implementations do BigInt range
// arithmetic, indexing and `extract_matches!` on arguments an untrusted program controls; there is
// no single function to put under contract, and BigInt is out of reach of both verifiers.)
#![allow(dead_code, unused_imports)]
use std::collections::BTreeMap;
use std::panic::{catch_unwind, AssertUnwindSafe};

use crate::extensions::core::{CoreLibfunc, CoreType};
use crate::extensions::lib_func::GenericLibfunc;
use crate::program_registry::ProgramRegistry;
use crate::ProgramParser;

use crate as sierra;
#[path = "../shared/spec_universe.rs"]
mod spec_universe;
use spec_universe::*;

/// Runs one declaration through the real registry (declaring on demand the types it looks up);
/// Err(panic message) when it unwinds.
fn run(program: &crate::program::Program) -> Result<bool, String> {
    let mut p = program.clone();
    registry_autodecl(&mut p).map(|r| r.is_some())
}

fn generic_type_ids() -> Vec<String> {
    let mut ids: std::collections::BTreeSet<String> = GENERIC_TYPE_IDS.iter().map(|s| s.to_string()).collect();
    // every generic type id used by the repository's own Sierra files
    let mut root = std::path::PathBuf::from(env!("CARGO_MANIFEST_DIR"));
    root.pop();
    root.pop();
    for d in ["crates/cairo-lang-starknet/test_data", "tests/test_data", "examples"] {
        let Ok(rd) = std::fs::read_dir(root.join(d)) else { continue };
        for e in rd.filter_map(|e| e.ok()) {
            if e.path().extension().map(|x| x != "sierra").unwrap_or(true) { continue; }
            let Ok(src) = std::fs::read_to_string(e.path()) else { continue };
            let Ok(p) = ProgramParser::new().parse(&src) else { continue };
            for t in &p.type_declarations { ids.insert(t.long_id.generic_id.0.to_string()); }
        }
    }
    ids.into_iter().collect()
}

#[test]
fn __verif_n_c14_specialize() {
    std::panic::set_hook(Box::new(|_| {}));
    let thorough = std::env::var("VERIF_TIER").map(|t| t == "thorough").unwrap_or(false);
    let uni: Vec<Parsed> = universe(thorough).iter().map(parse_arg).collect();
    let small: Vec<Parsed> = universe(false).iter().filter(|a| ["felt252", "u128", "BI0", "BI1", "0", "1", "-1", "ut@Foo"].contains(&a.text.as_str())).map(parse_arg).collect();
    let tiny: Vec<Parsed> = universe(false).iter().filter(|a| ["felt252", "0", "1", "user@f"].contains(&a.text.as_str())).map(parse_arg).collect();
    let base = base_program();
    let libfuncs: Vec<String> = CoreLibfunc::supported_ids().into_iter().map(|id| id.0.to_string()).collect();
    let types = generic_type_ids();
    let mut targets: Vec<Target> = vec![];
    for l in &libfuncs { targets.push(Target::Libfunc(l.clone())); }
    for t in &types { targets.push(Target::Type(t.clone())); }
    let chunks: Vec<Vec<Target>> = { let n = 16; let mut c = vec![vec![]; n]; for (i, t) in targets.iter().enumerate() { c[i % n].push(t.clone()); } c };
    let results: Vec<(u64, u64, Vec<(String, String, String)>)> = std::thread::scope(|sc| {
        let hs: Vec<_> = chunks.iter().map(|chunk| { let uni = &uni; let small = &small; let tiny = &tiny; let base = &base; sc.spawn(move || {
            let mut cases = 0u64;
            let mut accepted = 0u64;
            let mut fails: Vec<(String, String, String)> = vec![];
            for target in chunk {
                let name = &target.name();
                let mut try_one = |args: &[&Parsed]| {
                    cases += 1;
                    let program = assemble(base, args, target);
                    let r = run(&program);
                    if r == Ok(true) { accepted += 1; }
                    if let Err(m) = r {
                        if !fails.iter().any(|(n, _, mm)| n == name && mm == &m) { fails.push((name.clone(), format!("{program}").replace('\n', " "), m)); }
                    }
                };
                try_one(&[]);
                for a in uni.iter() { try_one(&[a]); }
                for a in uni.iter() { for b in uni.iter() { try_one(&[a, b]); } }
                for a in small.iter() { for b in small.iter() { for c in small.iter() { try_one(&[a, b, c]); } } }
                // longer lists over a tiny universe (libfuncs that encode a signature in their arguments)
                for a in tiny.iter() { for b in tiny.iter() { for c in tiny.iter() { for d in tiny.iter() {
                    try_one(&[a, b, c, d]);
                    for e in tiny.iter() { try_one(&[a, b, c, d, e]); }
                } } } }
            }
            (cases, accepted, fails)
        }) }).collect();
        hs.into_iter().map(|h| h.join().unwrap()).collect()
    });
    let cases: u64 = results.iter().map(|r| r.0).sum();
    let accepted: u64 = results.iter().map(|r| r.1).sum();
    let fails: Vec<&(String, String, String)> = results.iter().flat_map(|r| r.2.iter()).collect();
    let bound = format!("{} generic libfunc ids + {} generic type ids x all argument lists of length 0..=2 over a universe of {} boundary types/values (+ length 3 over {}, lengths 4 and 5 over {}); {accepted} declarations accepted", libfuncs.len(), types.len(), uni.len(), small.len(), tiny.len());
    let mut seen = std::collections::BTreeSet::new();
    for (name, text, msg) in &fails {
        let key = format!("{name}: {}", msg.chars().take(80).collect::<String>()).replace('"', "'").replace('\n', " ");
        if !seen.insert(key.clone()) { continue; }
        println!("VERIF-N id=N/n_c14_specialize/specialize_total:{} status=fail key=\"{key}\" input=\"{}\" detail=\"ProgramRegistry::new panicked while specializing {name}: {}\" bound=\"{bound}\"", seen.len(), text.replace('"', "'"), msg.replace('"', "'").replace('\n', " ").chars().take(200).collect::<String>());
    }
    if seen.is_empty() { println!("VERIF-N id=N/n_c14_specialize/specialize_total status=ok cases={cases} distinct={} bound=\"{bound}\"", libfuncs.len() + types.len()); }
}
