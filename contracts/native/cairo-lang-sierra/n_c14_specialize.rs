// N unit (C14), BOUNDED stand-in for "specialization is total": every generic libfunc id of the
// core library (CoreLibfunc::supported_ids()) and every generic type id that occurs in the
// repository's Sierra files is declared with every generic-argument list of length 0..=2 (and
// length 3 over a small sub-universe) drawn from a universe of boundary types and values, and the
// real `ProgramRegistry::<CoreType, CoreLibfunc>::new` must come back with Ok or Err - it must not
// unwind. (The ~330 `specialize_signature` / `specialize` implementations do BigInt range
// arithmetic, indexing and `extract_matches!` on arguments an untrusted program controls; there is
// no single function to put under contract, and BigInt is out of reach of both verifiers.)
#![allow(dead_code, unused_imports)]
use std::collections::BTreeMap;
use std::panic::{catch_unwind, AssertUnwindSafe};

use crate::extensions::core::{CoreLibfunc, CoreType};
use crate::extensions::lib_func::GenericLibfunc;
use crate::program_registry::ProgramRegistry;
use crate::ProgramParser;

#[derive(Clone)]
struct Arg { decls: Vec<String>, text: String }

fn simple(n: &str) -> Arg { Arg { decls: vec![format!("type {n} = {n};")], text: n.to_string() } }
/// `name = generic<args..>` over already built argument types.
fn comp(name: &str, generic: &str, prefix: &[&str], inner: &[&Arg], suffix: &[&str]) -> Arg {
    let mut decls: Vec<String> = vec![];
    for a in inner { for d in &a.decls { if !decls.contains(d) { decls.push(d.clone()); } } }
    let args: Vec<String> = prefix.iter().map(|s| s.to_string()).chain(inner.iter().map(|a| a.text.clone())).chain(suffix.iter().map(|s| s.to_string())).collect();
    decls.push(if args.is_empty() { format!("type {name} = {generic};") } else { format!("type {name} = {generic}<{}>;", args.join(", ")) });
    Arg { decls, text: name.to_string() }
}
fn value(v: &str) -> Arg { Arg { decls: vec![], text: v.to_string() } }

const P: &str = "3618502788666131213697322783095070105623107215331596699973092056135872020481";
const P_MINUS_1: &str = "3618502788666131213697322783095070105623107215331596699973092056135872020480";

fn universe(full: bool) -> Vec<Arg> {
    let mut u: Vec<Arg> = vec![];
    let felt = simple("felt252");
    let ints: Vec<Arg> = ["u8", "u16", "u32", "u64", "u128", "i8", "i16", "i32", "i64", "i128"].iter().map(|n| simple(n)).collect();
    u.push(felt.clone());
    let pick: &[usize] = if full { &[0, 1, 2, 3, 4, 5, 6, 7, 8, 9] } else { &[0, 4, 9] };
    for i in pick { u.push(ints[*i].clone()); }
    // BoundedInt<lo, hi> at the boundaries (hi is inclusive in the type, Range::upper is exclusive)
    let two128 = "340282366920938463463374607431768211456";
    let two128m1 = "340282366920938463463374607431768211455";
    let mut bounds: Vec<(&str, &str)> = vec![("0", "0"), ("0", "1"), ("1", "1"), ("-1", "0"), ("-1", "-1"), ("0", two128m1), ("0", P_MINUS_1), ("5", "2")];
    if full { bounds.push(("0", "255")); }
    if full { bounds.extend([("-1", "1"), ("0", two128), ("-170141183460469231731687303715884105728", "170141183460469231731687303715884105727"), ("79228162514264337593543950336", "79228162514264337593543950336"), ("1", P_MINUS_1), ("0", P), ("-128", "127"), ("2", "2")]); }
    let mut bis = vec![];
    for (k, (lo, hi)) in bounds.iter().enumerate() { let b = comp(&format!("BI{k}"), "BoundedInt", &[lo, hi], &[], &[]); bis.push(b.clone()); u.push(b); }
    // wrappers
    u.push(comp("NZfelt", "NonZero", &[], &[&felt], &[]));
    u.push(comp("NZu8", "NonZero", &[], &[&ints[0]], &[]));
    u.push(comp("NZbi0", "NonZero", &[], &[&bis[0]], &[]));
    let arr = comp("ArrFelt", "Array", &[], &[&felt], &[]);
    u.push(arr.clone());
    u.push(comp("SnapArr", "Snapshot", &[], &[&arr], &[]));
    u.push(comp("BoxFelt", "Box", &[], &[&felt], &[]));
    u.push(comp("NullFelt", "Nullable", &[], &[&felt], &[]));
    u.push(comp("UninitFelt", "Uninitialized", &[], &[&felt], &[]));
    u.push(comp("DictFelt", "Felt252Dict", &[], &[&felt], &[]));
    let unit = comp("Unit", "Struct", &["ut@Tuple"], &[], &[]);
    u.push(unit.clone());
    u.push(comp("Pair", "Struct", &["ut@Tuple"], &[&felt, &ints[4]], &[]));
    let u256 = comp("U256", "Struct", &["ut@core::integer::u256"], &[&ints[4], &ints[4]], &[]);
    u.push(u256.clone());
    u.push(comp("Never", "Enum", &["ut@Never"], &[], &[]));
    u.push(comp("Opt", "Enum", &["ut@core::option::Option::<core::felt252>"], &[&felt, &unit], &[]));
    u.push(comp("Bool", "Enum", &["ut@core::bool"], &[&unit, &unit], &[]));
    u.push(comp("ConstFelt5", "Const", &[], &[&felt], &["5"]));
    u.push(comp("ConstU8_0", "Const", &[], &[&ints[0]], &["0"]));
    u.push(comp("ConstBi0", "Const", &[], &[&bis[0]], &["0"]));
    for b in ["RangeCheck", "GasBuiltin", "Pedersen", "Bitwise", "System", "SegmentArena", "RangeCheck96", "AddMod", "MulMod", "BuiltinCosts", "u96", "QM31"].iter().take(if full { 12 } else { 4 }) {
        if *b == "u96" { u.push(comp("U96", "BoundedInt", &["0", "79228162514264337593543950335"], &[], &[])); } else { u.push(simple(b)); }
    }
    // circuits
    let in0 = comp("In0", "CircuitInput", &["0"], &[], &[]);
    let in1 = comp("In1", "CircuitInput", &["1"], &[], &[]);
    let add = comp("Add01", "AddModGate", &[], &[&in0, &in1], &[]);
    let outs = comp("Outs", "Struct", &["ut@Tuple"], &[&add], &[]);
    let circ = comp("Circ", "Circuit", &[], &[&outs], &[]);
    u.push(in0.clone());
    u.push(add.clone());
    u.push(circ.clone());
    if full {
        u.push(comp("Inv0", "InverseGate", &[], &[&in0], &[]));
        u.push(comp("CircData", "CircuitData", &[], &[&circ], &[]));
        u.push(comp("CircOut", "CircuitOutputs", &[], &[&circ], &[]));
        u.push(comp("CircMod", "CircuitModulus", &[], &[], &[]));
        u.push(comp("SqG", "SquashedFelt252Dict", &[], &[&felt], &[]));
        u.push(comp("Span", "Struct", &["ut@core::array::Span::<core::felt252>"], &[&comp("SnapArr", "Snapshot", &[], &[&arr], &[])], &[]));
    }
    // values, user type, user function
    let vals: &[&str] = if full { &["0", "1", "-1", "2", "255", "32768", "18446744073709551616", two128, P_MINUS_1, P, "115792089237316195423570985008687907853269984665640564039457584007913129639936"] } else { &["0", "1", "-1", two128, P] };
    for v in vals { u.push(value(v)); }
    u.push(value("ut@Foo"));
    u.push(value("user@f"));
    u
}

/// A universe element parsed once: its type declarations and the generic argument itself.
struct Parsed { decls: Vec<crate::program::TypeDeclaration>, arg: crate::program::GenericArg, text: String }
fn parse_arg(a: &Arg) -> Parsed {
    let mut s = String::from("type felt252 = felt252;\n");
    for d in &a.decls { if d != "type felt252 = felt252;" { s.push_str(d); s.push('\n'); } }
    s.push_str(&format!("libfunc L = x<{}>;\nreturn([0]);\nf@0([0]: felt252) -> (felt252);\n", a.text));
    let p = ProgramParser::new().parse(&s).unwrap_or_else(|e| panic!("harness: universe element does not parse: {s}: {e:?}"));
    Parsed { decls: p.type_declarations.clone(), arg: p.libfunc_declarations[0].long_id.generic_args[0].clone(), text: a.text.clone() }
}
fn base_program() -> crate::program::Program {
    ProgramParser::new().parse("type felt252 = felt252;\nreturn([0]);\nf@0([0]: felt252) -> (felt252);\n").unwrap()
}
/// The program declaring the universe types needed by `args` and one target declaration.
fn assemble(base: &crate::program::Program, args: &[&Parsed], target: &Target) -> crate::program::Program {
    use crate::program::{ConcreteLibfuncLongId, ConcreteTypeLongId, LibfuncDeclaration, TypeDeclaration};
    let mut p = base.clone();
    for a in args { for d in &a.decls { if !p.type_declarations.iter().any(|x| x.id == d.id) { p.type_declarations.push(d.clone()); } } }
    let generic_args: Vec<_> = args.iter().map(|a| a.arg.clone()).collect();
    match target {
        Target::Libfunc(id) => p.libfunc_declarations.push(LibfuncDeclaration { id: "L".into(), long_id: ConcreteLibfuncLongId { generic_id: id.as_str().into(), generic_args } }),
        Target::Type(id) => p.type_declarations.push(TypeDeclaration { id: "T".into(), long_id: ConcreteTypeLongId { generic_id: id.as_str().into(), generic_args }, declared_type_info: None }),
    }
    p
}
#[derive(Clone)]
enum Target { Libfunc(String), Type(String) }
impl Target { fn name(&self) -> String { match self { Target::Libfunc(l) => format!("libfunc {l}"), Target::Type(t) => format!("type {t}") } } }

/// Runs one declaration through the real registry; Err(panic message) when it unwinds.
fn run(program: &crate::program::Program) -> Result<bool, String> {
    match catch_unwind(AssertUnwindSafe(|| ProgramRegistry::<CoreType, CoreLibfunc>::new(program).is_ok())) {
        Ok(ok) => Ok(ok),
        Err(e) => Err(if let Some(s) = e.downcast_ref::<String>() { s.clone() } else if let Some(s) = e.downcast_ref::<&str>() { s.to_string() } else { "panic".into() }),
    }
}

fn generic_type_ids() -> Vec<String> {
    let mut ids: std::collections::BTreeSet<String> = ["felt252", "u8", "u16", "u32", "u64", "u128", "i8", "i16", "i32", "i64", "i128", "BoundedInt", "NonZero", "Array", "Snapshot", "Box", "Nullable", "Uninitialized",
        "Felt252Dict", "Felt252DictEntry", "SquashedFelt252Dict", "Struct", "Enum", "Const", "Span", "RangeCheck", "GasBuiltin", "Circuit", "CircuitInput", "CircuitInputAccumulator", "CircuitData", "CircuitOutputs",
        "CircuitModulus", "CircuitDescriptor", "CircuitFailureGuarantee", "CircuitPartialOutputs", "AddModGate", "SubModGate", "MulModGate", "InverseGate", "U96Guarantee", "U96LimbsLtGuarantee", "IntRange",
        "Coupon", "Blake", "QM31", "GasReserve", "Secp256k1Point", "Secp256r1Point", "EcPoint", "EcState", "bytes31", "ClassHash", "ContractAddress", "StorageAddress", "StorageBaseAddress", "Sha256StateHandle"].iter().map(|s| s.to_string()).collect();
    // every generic type id used by the repository's own Sierra files
    let mut root = std::path::PathBuf::from(env!("CARGO_MANIFEST_DIR"));
    root.pop();
    root.pop();
    for d in ["crates/cairo-lang-starknet/test_data", "tests/test_data", "examples"] {
        let Ok(rd) = std::fs::read_dir(root.join(d)) else { continue };
        for e in rd.filter_map(|e| e.ok()) {
            if e.path().extension().map(|x| x != "sierra").unwrap_or(true) { continue; }
            let Ok(src) = std::fs::read_to_string(e.path()) else { continue };
            let Ok(p) = ProgramParser::new().parse(&src) else { continue };
            for t in &p.type_declarations { ids.insert(t.long_id.generic_id.0.to_string()); }
        }
    }
    ids.into_iter().collect()
}

#[test]
fn __verif_n_c14_specialize() {
    std::panic::set_hook(Box::new(|_| {}));
    let thorough = std::env::var("VERIF_TIER").map(|t| t == "thorough").unwrap_or(false);
    let uni: Vec<Parsed> = universe(thorough).iter().map(parse_arg).collect();
    let small: Vec<Parsed> = universe(false).iter().filter(|a| ["felt252", "u128", "BI0", "BI1", "0", "1", "-1", "ut@Foo"].contains(&a.text.as_str())).map(parse_arg).collect();
    let tiny: Vec<Parsed> = universe(false).iter().filter(|a| ["felt252", "0", "1", "user@f"].contains(&a.text.as_str())).map(parse_arg).collect();
    let base = base_program();
    let libfuncs: Vec<String> = CoreLibfunc::supported_ids().into_iter().map(|id| id.0.to_string()).collect();
    let types = generic_type_ids();
    let mut targets: Vec<Target> = vec![];
    for l in &libfuncs { targets.push(Target::Libfunc(l.clone())); }
    for t in &types { targets.push(Target::Type(t.clone())); }
    let chunks: Vec<Vec<Target>> = { let n = 16; let mut c = vec![vec![]; n]; for (i, t) in targets.iter().enumerate() { c[i % n].push(t.clone()); } c };
    let results: Vec<(u64, u64, Vec<(String, String, String)>)> = std::thread::scope(|sc| {
        let hs: Vec<_> = chunks.iter().map(|chunk| { let uni = &uni; let small = &small; let tiny = &tiny; let base = &base; sc.spawn(move || {
            let mut cases = 0u64;
            let mut accepted = 0u64;
            let mut fails: Vec<(String, String, String)> = vec![];
            for target in chunk {
                let name = &target.name();
                let mut try_one = |args: &[&Parsed]| {
                    cases += 1;
                    let program = assemble(base, args, target);
                    let r = run(&program);
                    if r == Ok(true) { accepted += 1; }
                    if let Err(m) = r {
                        if !fails.iter().any(|(n, _, mm)| n == name && mm == &m) { fails.push((name.clone(), format!("{program}").replace('\n', " "), m)); }
                    }
                };
                try_one(&[]);
                for a in uni.iter() { try_one(&[a]); }
                for a in uni.iter() { for b in uni.iter() { try_one(&[a, b]); } }
                for a in small.iter() { for b in small.iter() { for c in small.iter() { try_one(&[a, b, c]); } } }
                // longer lists over a tiny universe (libfuncs that encode a signature in their arguments)
                for a in tiny.iter() { for b in tiny.iter() { for c in tiny.iter() { for d in tiny.iter() {
                    try_one(&[a, b, c, d]);
                    for e in tiny.iter() { try_one(&[a, b, c, d, e]); }
                } } } }
            }
            (cases, accepted, fails)
        }) }).collect();
        hs.into_iter().map(|h| h.join().unwrap()).collect()
    });
    let cases: u64 = results.iter().map(|r| r.0).sum();
    let accepted: u64 = results.iter().map(|r| r.1).sum();
    let fails: Vec<&(String, String, String)> = results.iter().flat_map(|r| r.2.iter()).collect();
    let bound = format!("{} generic libfunc ids + {} generic type ids x all argument lists of length 0..=2 over a universe of {} boundary types/values (+ length 3 over {}, lengths 4 and 5 over {}); {accepted} declarations accepted", libfuncs.len(), types.len(), uni.len(), small.len(), tiny.len());
    let mut seen = std::collections::BTreeSet::new();
    for (name, text, msg) in &fails {
        let key = format!("{name}: {}", msg.chars().take(80).collect::<String>()).replace('"', "'").replace('\n', " ");
        if !seen.insert(key.clone()) { continue; }
        println!("VERIF-N id=N/n_c14_specialize/specialize_total:{} status=fail key=\"{key}\" input=\"{}\" detail=\"ProgramRegistry::new panicked while specializing {name}: {}\" bound=\"{bound}\"", seen.len(), text.replace('"', "'"), msg.replace('"', "'").replace('\n', " ").chars().take(200).collect::<String>());
    }
    if seen.is_empty() { println!("VERIF-N id=N/n_c14_specialize/specialize_total status=ok cases={cases} distinct={} bound=\"{bound}\"", libfuncs.len() + types.len()); }
}
