// N unit (C15), BOUNDED twin of the Verus unit `edit_state` (which proves the same contract for
// ALL maps and id lists, but only while Verus can take the body verbatim: a rewrite of the body
// with iterator adaptors makes that unit UNDECIDED, and this enumerator is then the one that
// decides). Contract, from the property statement ("every variable is consumed exactly once",
// "never overridden"):
//   take_vars(ids): Ok(vals) iff all ids are keys and pairwise distinct; vals[i] == old[ids[i]];
//                   new == old \ ids.   Err names the first offending id.
//   put_vars(pairs): Ok iff no id is a key of old and the ids are pairwise distinct;
//                   new == old + pairs. Err names the first offending id.
// Domain: maps over keys {0..3}, id lists of length 0..=3 over {0..4} (so: absent, repeated,
// present), values distinct.
#![allow(dead_code, unused_imports)]
use std::collections::BTreeMap;
use std::panic::{catch_unwind, AssertUnwindSafe};

use cairo_lang_utils::ordered_hash_map::OrderedHashMap;

use crate::edit_state::{EditState, EditStateError};
use crate::ids::VarId;

fn lists() -> Vec<Vec<u64>> {
    let mut out = vec![vec![]];
    for a in 0..5 { out.push(vec![a]); for b in 0..5 { out.push(vec![a, b]); for c in 0..5 { out.push(vec![a, b, c]); } } }
    out
}
fn first_bad_take(old: &BTreeMap<u64, u64>, ids: &[u64]) -> Option<u64> {
    for (i, id) in ids.iter().enumerate() { if !old.contains_key(id) || ids[..i].contains(id) { return Some(*id); } }
    None
}
fn first_bad_put(old: &BTreeMap<u64, u64>, ids: &[u64]) -> Option<u64> {
    for (i, id) in ids.iter().enumerate() { if old.contains_key(id) || ids[..i].contains(id) { return Some(*id); } }
    None
}

#[test]
fn __verif_n_c15_edit_state() {
    std::panic::set_hook(Box::new(|_| {}));
    let mut cases = 0u64;
    let mut fail: Option<(String, String)> = None;
    'o: for mask in 0u32..16 {
        let old: BTreeMap<u64, u64> = (0..4u64).filter(|k| mask >> k & 1 == 1).map(|k| (k, 100 + k)).collect();
        for ids in lists() {
            for op in ["take_vars", "put_vars"] {
                cases += 1;
                let mut m: OrderedHashMap<VarId, u64> = OrderedHashMap::default();
                for (k, v) in &old { m.insert(VarId::new(*k), *v); }
                let var_ids: Vec<VarId> = ids.iter().map(|i| VarId::new(*i)).collect();
                let r = catch_unwind(AssertUnwindSafe(|| -> Option<String> {
                    if op == "take_vars" {
                        let res = m.take_vars(var_ids.iter());
                        match (res, first_bad_take(&old, &ids)) {
                            (Ok(vals), None) => {
                                if vals != ids.iter().map(|i| old[i]).collect::<Vec<_>>() { return Some("wrong values taken".into()); }
                                let want: BTreeMap<u64, u64> = old.iter().filter(|(k, _)| !ids.contains(k)).map(|(k, v)| (*k, *v)).collect();
                                let got: BTreeMap<u64, u64> = m.iter().map(|(k, v)| (k.id, *v)).collect();
                                if got != want { return Some("the remaining state is not old minus the taken variables".into()); }
                                None
                            }
                            (Err(EditStateError::MissingReference(v)), Some(bad)) => if v.id == bad { None } else { Some(format!("error names {} instead of the first offending id {bad}", v.id)) },
                            (Ok(_), Some(bad)) => Some(format!("accepted although variable {bad} is absent or used twice")),
                            (Err(_), None) => Some("rejected a list of distinct live variables".into()),
                            (Err(_), Some(_)) => Some("wrong error variant".into()),
                        }
                    } else {
                        let res = m.put_vars(var_ids.iter().enumerate().map(|(i, v)| (v, 500 + i as u64)).collect::<Vec<_>>().into_iter());
                        match (res, first_bad_put(&old, &ids)) {
                            (Ok(()), None) => {
                                let mut want = old.clone();
                                for (i, id) in ids.iter().enumerate() { want.insert(*id, 500 + i as u64); }
                                let got: BTreeMap<u64, u64> = m.iter().map(|(k, v)| (k.id, *v)).collect();
                                if got != want { return Some("the new state is not old plus the new variables".into()); }
                                None
                            }
                            (Err(EditStateError::VariableOverride(v)), Some(bad)) => if v.id == bad { None } else { Some(format!("error names {} instead of the first offending id {bad}", v.id)) },
                            (Ok(()), Some(bad)) => Some(format!("accepted although variable {bad} is already live or bound twice")),
                            (Err(_), None) => Some("rejected fresh distinct variables".into()),
                            (Err(_), Some(_)) => Some("wrong error variant".into()),
                        }
                    }
                }));
                let why = match r { Err(_) => Some("panic".to_string()), Ok(w) => w };
                if let Some(w) = why { fail = Some((format!("{op}({ids:?}) on a state with variables {:?}", old.keys().collect::<Vec<_>>()), w)); break 'o; }
            }
        }
    }
    let bound = "all 16 states over variables {0..3} x all id lists of length 0..=3 over {0..4} x {take_vars, put_vars}";
    match fail {
        None => println!("VERIF-N id=N/n_c15_edit_state/take_put_contract status=ok cases={cases} distinct={cases} bound=\"{bound}\""),
        Some((input, why)) => println!("VERIF-N id=N/n_c15_edit_state/take_put_contract status=fail key=\"{}\" input=\"{input}\" detail=\"{input}: {}\" bound=\"{bound}\"", why.replace('"', "'"), why.replace('"', "'")),
    }
}
