// N unit (C15), BOUNDED stand-in for the ownership flags of composite types (TypeInfo computed by
// the `specialize` of Struct / Enum / Box / Nullable / NonZero / Array / Snapshot / Span /
// Uninitialized / Const ... - ~30 small functions over generic arguments; no single function to put
// under contract). C15's "no value is used twice / dropped unless its type allows it" rests on these
// flags, and the independent checker of n_c15_independent reads them from the real registry. The
// laws below are independent of the per-type code:
//   a type that CONTAINS its members by value (Struct, Enum, Box, Nullable, NonZero, Array, Span)
//     duplicatable  ==>  every member type duplicatable
//     droppable     ==>  every member type droppable
//     (a Struct is) zero_sized ==> every member zero_sized;  storable ==> every member storable
//   a builtin / linear resource (RangeCheck, GasBuiltin, ..., Felt252Dict<T>, Coupon<f>) is never
//     duplicatable, and the builtins are not droppable
//   Snapshot<T> is duplicatable and droppable (that is what a snapshot is for) and as big as T
// evaluated on every declaration over the boundary universe of member types that the registry accepts.
#![allow(dead_code, unused_imports)]
use std::panic::{catch_unwind, AssertUnwindSafe};

use crate::extensions::core::{CoreLibfunc, CoreType};
use crate::extensions::types::TypeInfo;
use crate::extensions::ConcreteType;
use crate::program::GenericArg;
use crate::program_registry::ProgramRegistry;

use crate as sierra;
#[path = "../shared/spec_universe.rs"]
mod spec_universe;
use spec_universe::*;

#[test]
fn __verif_n_c15_type_info() {
    std::panic::set_hook(Box::new(|_| {}));
    let thorough = std::env::var("VERIF_TIER").map(|t| t == "thorough").unwrap_or(false);
    let uni: Vec<Parsed> = universe(thorough).iter().map(parse_arg).filter(|p| matches!(p.arg, GenericArg::Type(_))).collect();
    let ut = parse_arg(&value("ut@Foo"));
    let base = base_program();
    let (mut cases, mut accepted) = (0u64, 0u64);
    let mut fails: Vec<(String, String, String)> = vec![];
    let mut fail = |key: String, input: String, why: String, fails: &mut Vec<(String, String, String)>| { if !fails.iter().any(|f| f.0 == key) { fails.push((key, input, why)); } };
    let by_value = ["Struct", "Enum", "Box", "Nullable", "NonZero", "Array", "Span"];
    let linear = ["RangeCheck", "GasBuiltin", "Pedersen", "Bitwise", "EcOp", "Poseidon", "SegmentArena", "RangeCheck96", "AddMod", "MulMod", "System"];
    // member lists: one or two members
    let mut lists: Vec<Vec<&Parsed>> = vec![];
    for a in &uni { lists.push(vec![a]); }
    for a in &uni { for b in &uni { lists.push(vec![a, b]); } }
    for generic in by_value.iter().chain(["Snapshot", "Felt252Dict", "SquashedFelt252Dict", "Uninitialized"].iter()) {
        for members in &lists {
            let needs_ut = *generic == "Struct" || *generic == "Enum";
            if !needs_ut && members.len() != 1 { continue; }
            let mut args: Vec<&Parsed> = vec![];
            if needs_ut { args.push(&ut); }
            args.extend(members.iter().copied());
            let t = Target::Type(generic.to_string());
            let mut p = assemble(&base, &args, &t);
            cases += 1;
            let reg = match registry_autodecl(&mut p) { Ok(Some(r)) => r, _ => continue };
            accepted += 1;
            let info_of = |id: &crate::ids::ConcreteTypeId| -> Option<TypeInfo> { reg.get_type(id).ok().map(|t| t.info().clone()) };
            let Some(c) = info_of(&"T".into()) else { continue };
            let ms: Vec<TypeInfo> = members.iter().filter_map(|m| if let GenericArg::Type(id) = &m.arg { info_of(id) } else { None }).collect();
            if ms.len() != members.len() { continue; }
            let shown = format!("type T = {}", c.long_id);
            let names: Vec<String> = members.iter().map(|m| m.text.clone()).collect();
            if by_value.contains(generic) {
                if c.duplicatable && ms.iter().any(|m| !m.duplicatable) { fail(format!("{generic} dup"), shown.clone(), format!("`{shown}` is duplicatable although a member of {names:?} is not"), &mut fails); }
                if c.droppable && ms.iter().any(|m| !m.droppable) { fail(format!("{generic} drop"), shown.clone(), format!("`{shown}` is droppable although a member of {names:?} is not"), &mut fails); }
                if *generic == "Struct" {
                    if c.zero_sized != ms.iter().all(|m| m.zero_sized) { fail("Struct zero".into(), shown.clone(), format!("`{shown}`: zero_sized is {} but its members' flags are {:?}", c.zero_sized, ms.iter().map(|m| m.zero_sized).collect::<Vec<_>>()), &mut fails); }
                    if c.storable && ms.iter().any(|m| !m.storable) { fail("Struct storable".into(), shown.clone(), format!("`{shown}` is storable although a member of {names:?} is not"), &mut fails); }
                    // and the other way round: a struct of duplicatable / droppable members is one
                    if ms.iter().all(|m| m.duplicatable) != c.duplicatable { fail("Struct dup iff".into(), shown.clone(), format!("`{shown}`: duplicatable is {} but its members' flags are {:?}", c.duplicatable, ms.iter().map(|m| m.duplicatable).collect::<Vec<_>>()), &mut fails); }
                    if ms.iter().all(|m| m.droppable) != c.droppable { fail("Struct drop iff".into(), shown.clone(), format!("`{shown}`: droppable is {} but its members' flags are {:?}", c.droppable, ms.iter().map(|m| m.droppable).collect::<Vec<_>>()), &mut fails); }
                }
                if *generic == "Array" && c.duplicatable { fail("Array dup".into(), shown.clone(), format!("`{shown}` is duplicatable (an array owns a growable segment)"), &mut fails); }
            }
            if *generic == "Snapshot" {
                if !(c.duplicatable && c.droppable) { fail("Snapshot".into(), shown.clone(), format!("`{shown}` is not duplicatable and droppable"), &mut fails); }
                if c.zero_sized != ms[0].zero_sized || c.storable != ms[0].storable { fail("Snapshot size".into(), shown.clone(), format!("`{shown}`: storable/zero_sized differ from the snapshotted type's"), &mut fails); }
            }
            if (*generic == "Felt252Dict" || *generic == "SquashedFelt252Dict") && c.duplicatable { fail(format!("{generic} dup"), shown.clone(), format!("`{shown}` is duplicatable"), &mut fails); }
            if *generic == "Felt252Dict" && c.droppable { fail("Felt252Dict drop".into(), shown.clone(), format!("`{shown}` is droppable (a dictionary has to be squashed)"), &mut fails); }
            if *generic == "Uninitialized" && (c.duplicatable || c.storable) { fail("Uninitialized".into(), shown.clone(), format!("`{shown}` is duplicatable or storable"), &mut fails); }
        }
    }
    // builtins
    for b in linear {
        let t = Target::Type(b.to_string());
        let mut p = assemble(&base, &[], &t);
        cases += 1;
        let Ok(Some(reg)) = registry_autodecl(&mut p) else { continue };
        accepted += 1;
        let Ok(c) = reg.get_type(&"T".into()) else { continue };
        let c = c.info();
        if c.duplicatable || c.droppable { fail(format!("builtin {b}"), format!("type T = {b}"), format!("the builtin `{b}` is duplicatable or droppable: dup={} drop={}", c.duplicatable, c.droppable), &mut fails); }
    }
    let bound = format!("{cases} composite type declarations (Struct/Enum of 1-2 members, Box, Nullable, NonZero, Array, Span, Snapshot, dictionaries, Uninitialized over {} member types; 11 builtins), {accepted} accepted", uni.len());
    for (k, (key, input, why)) in fails.iter().enumerate() {
        println!("VERIF-N id=N/n_c15_type_info/ownership_flags:{} status=fail key=\"{}\" input=\"{}\" detail=\"{}\" bound=\"{bound}\"", k + 1, key.replace('"', "'"), input.replace('"', "'"), why.replace('"', "'"));
    }
    if fails.is_empty() {
        if accepted == 0 { println!("VERIF-N id=N/n_c15_type_info/ownership_flags status=unknown"); } else { println!("VERIF-N id=N/n_c15_type_info/ownership_flags status=ok cases={cases} distinct={accepted} bound=\"{bound}\""); }
    }
}

/// The typing rules of the structural core, as laws over the real signatures (C15: "every argument
/// has exactly the declared type", "a value is duplicated / dropped only if its type allows it"):
///   dup<T>   accepted <=> T duplicatable,  (T) -> (T, T)        drop<T>  accepted <=> T droppable,  (T) -> ()
///   store_temp<T> accepted ==> T storable, (T) -> (T)           rename<T>: (T) -> (T)
///   into_box<T>: (T) -> (Box<T>)          unbox<T>: (Box<T>) -> (T)
///   snapshot_take<T>: (T) -> (T, S) with S = T if T is duplicatable, else Snapshot<T>
///   struct_construct<S>: (members..) -> (S)     struct_deconstruct<S>: (S) -> (members..)
///   enum_init<E, i>: (variant i) -> (E)         enum_match<E>: (E) -> branch b: (variant b)
///   array_new<T>: () -> (Array<T>)              array_append<T>: (Array<T>, T) -> (Array<T>)
///   unwrap_non_zero<T>: (NonZero<T>) -> (T)     nullable_from_box<T>: (Box<T>) -> (Nullable<T>)
///   null<T>: () -> (Nullable<T>)                match_nullable<T>: (Nullable<T>) -> (), (Box<T>)
#[test]
fn __verif_n_c15_signatures() {
    use crate::extensions::ConcreteLibfunc;
    use crate::program::ConcreteTypeLongId;
    std::panic::set_hook(Box::new(|_| {}));
    let thorough = std::env::var("VERIF_TIER").map(|t| t == "thorough").unwrap_or(false);
    let uni: Vec<Parsed> = universe(thorough).iter().map(parse_arg).filter(|p| matches!(p.arg, GenericArg::Type(_))).collect();
    let ut = parse_arg(&value("ut@Foo"));
    let base = base_program();
    let (mut cases, mut accepted) = (0u64, 0u64);
    let mut fails: Vec<(String, String, String)> = vec![];
    // A long id as the code would look it up: generic<args..>
    let long = |g: &str, args: Vec<GenericArg>| ConcreteTypeLongId { generic_id: g.into(), generic_args: args };
    let tyarg = |p: &Parsed| p.arg.clone();
    for t in &uni {
        let GenericArg::Type(t_id) = &t.arg else { continue };
        for lf_name in ["dup", "drop", "store_temp", "rename", "into_box", "unbox", "snapshot_take", "array_new", "array_append", "unwrap_non_zero", "nullable_from_box", "null", "match_nullable",
            "array_pop_front", "array_pop_front_consume", "array_snapshot_pop_front", "array_snapshot_pop_back", "array_len", "array_get", "box_forward_snapshot",
            "felt252_dict_new", "felt252_dict_entry_get", "felt252_dict_entry_finalize", "felt252_dict_squash"] {
            let mut p = assemble(&base, &[t], &Target::Libfunc(lf_name.to_string()));
            cases += 1;
            let reg = match registry_autodecl(&mut p) { Ok(r) => r, Err(_) => continue };
            let t_info = {
                // the type info of T, from a registry that certainly has it
                let mut q = assemble(&base, &[t], &Target::Libfunc("rename".into()));
                match registry_autodecl(&mut q) { Ok(Some(r)) => r.get_type(t_id).ok().map(|x| x.info().clone()), _ => None }
            };
            let Some(t_info) = t_info else { continue };
            let shown = format!("{lf_name}<{}>", t.text);
            match (lf_name, &reg) {
                ("dup", r) => if r.is_some() != t_info.duplicatable { fails.push(("dup gate".into(), shown.clone(), format!("`{shown}` is {} although the type is {}duplicatable", if r.is_some() { "accepted" } else { "rejected" }, if t_info.duplicatable { "" } else { "not " }))); },
                ("drop", r) => if r.is_some() != t_info.droppable { fails.push(("drop gate".into(), shown.clone(), format!("`{shown}` is {} although the type is {}droppable", if r.is_some() { "accepted" } else { "rejected" }, if t_info.droppable { "" } else { "not " }))); },
                ("store_temp", Some(_)) => if !t_info.storable { fails.push(("store_temp gate".into(), shown.clone(), format!("`{shown}` is accepted although the type is not storable"))); },
                _ => {}
            }
            let Some(reg) = reg else { continue };
            accepted += 1;
            let Ok(lf) = reg.get_libfunc(&"L".into()) else { continue };
            let lid = |id: &crate::ids::ConcreteTypeId| reg.get_type(id).ok().map(|x| x.info().long_id.clone());
            let ins: Vec<Option<ConcreteTypeLongId>> = lf.param_signatures().iter().map(|ps| lid(&ps.ty)).collect();
            let outs: Vec<Vec<Option<ConcreteTypeLongId>>> = lf.branch_signatures().iter().map(|b| b.vars.iter().map(|v| lid(&v.ty)).collect()).collect();
            let tl = Some(t_info.long_id.clone());
            let w = |g: &str| Some(long(g, vec![tyarg(t)]));
            let want = (|| -> Option<(Vec<Option<ConcreteTypeLongId>>, Vec<Vec<Option<ConcreteTypeLongId>>>)> { Some(match lf_name {
                "dup" => (vec![tl.clone()], vec![vec![tl.clone(), tl.clone()]]),
                "drop" => (vec![tl.clone()], vec![vec![]]),
                "store_temp" | "rename" => (vec![tl.clone()], vec![vec![tl.clone()]]),
                "into_box" => (vec![tl.clone()], vec![vec![w("Box")]]),
                "unbox" => (vec![w("Box")], vec![vec![tl.clone()]]),
                "snapshot_take" => (vec![tl.clone()], vec![vec![tl.clone(), if t_info.duplicatable { tl.clone() } else { w("Snapshot") }]]),
                "array_new" => (vec![], vec![vec![w("Array")]]),
                "array_append" => (vec![w("Array"), tl.clone()], vec![vec![w("Array")]]),
                "unwrap_non_zero" => (vec![w("NonZero")], vec![vec![tl.clone()]]),
                "nullable_from_box" => (vec![w("Box")], vec![vec![w("Nullable")]]),
                "null" => (vec![], vec![vec![w("Nullable")]]),
                "match_nullable" => (vec![w("Nullable")], vec![vec![], vec![w("Box")]]),
                // the array / dictionary families: the container always comes back (or is consumed on purpose)
                "array_pop_front" => (vec![w("Array")], vec![vec![w("Array"), w("Box")], vec![w("Array")]]),
                "array_pop_front_consume" => (vec![w("Array")], vec![vec![w("Array"), w("Box")], vec![]]),
                "array_snapshot_pop_front" | "array_snapshot_pop_back" => { let sa = Some(long("Snapshot", vec![GenericArg::Type(id_of(&p, &long("Array", vec![tyarg(t)]))?)])); (vec![sa.clone()], vec![vec![sa.clone(), box_of_snap(&p, t, &t_info)?], vec![sa]]) }
                "array_len" => { let sa = Some(long("Snapshot", vec![GenericArg::Type(id_of(&p, &long("Array", vec![tyarg(t)]))?)])); (vec![sa], vec![vec![Some(long("u32", vec![]))]]) }
                "array_get" => { let sa = Some(long("Snapshot", vec![GenericArg::Type(id_of(&p, &long("Array", vec![tyarg(t)]))?)])); let rc = Some(long("RangeCheck", vec![])); (vec![rc.clone(), sa, Some(long("u32", vec![]))], vec![vec![rc.clone(), box_of_snap(&p, t, &t_info)?], vec![rc]]) }
                // the snapshot of a duplicatable type is the type itself (Box<T> is duplicatable iff T is)
                "box_forward_snapshot" => { let sb = if t_info.duplicatable { w("Box") } else { Some(long("Snapshot", vec![GenericArg::Type(id_of(&p, &long("Box", vec![tyarg(t)]))?)])) }; (vec![sb], vec![vec![box_of_snap(&p, t, &t_info)?]]) }
                "felt252_dict_new" => { let sa = Some(long("SegmentArena", vec![])); (vec![sa.clone()], vec![vec![sa, w("Felt252Dict")]]) }
                "felt252_dict_entry_get" => (vec![w("Felt252Dict"), Some(long("felt252", vec![]))], vec![vec![w("Felt252DictEntry"), tl.clone()]]),
                "felt252_dict_entry_finalize" => (vec![w("Felt252DictEntry"), tl.clone()], vec![vec![w("Felt252Dict")]]),
                "felt252_dict_squash" => { let pre = vec![Some(long("RangeCheck", vec![])), Some(long("GasBuiltin", vec![])), Some(long("SegmentArena", vec![]))]; let mut i = pre.clone(); i.push(w("Felt252Dict")); let mut o = pre; o.push(w("SquashedFelt252Dict")); (i, vec![o]) }
                _ => return None,
            }) })();
            let Some((want_in, want_out)) = want else { continue };
            if ins != want_in || outs != want_out {
                let show = |v: &Vec<Option<ConcreteTypeLongId>>| v.iter().map(|x| x.as_ref().map(|l| l.to_string()).unwrap_or("?".into())).collect::<Vec<_>>().join(", ");
                if !fails.iter().any(|f| f.0 == format!("{lf_name} signature")) { fails.push((format!("{lf_name} signature"), shown.clone(), format!("`{shown}` has the signature ({}) -> {:?}, the typing rule says ({}) -> {:?}", show(&ins), outs.iter().map(show).collect::<Vec<_>>(), show(&want_in), want_out.iter().map(show).collect::<Vec<_>>()))); }
            }
        }
    }
    // structs and enums of two members
    for a in &uni { for b in &uni {
        let (GenericArg::Type(_), GenericArg::Type(_)) = (&a.arg, &b.arg) else { continue };
        for generic in ["Struct", "Enum"] {
            let comp_ty = Parsed { decls: { let mut d = a.decls.clone(); for x in &b.decls { if !d.iter().any(|y| y.id == x.id) { d.push(x.clone()); } } d.push(crate::program::TypeDeclaration { id: "C".into(), long_id: long(generic, vec![ut.arg.clone(), a.arg.clone(), b.arg.clone()]), declared_type_info: None }); d }, arg: GenericArg::Type("C".into()), text: format!("{generic}<ut@Foo, {}, {}>", a.text, b.text) };
            let members = vec![Some(long_of(&a.decls, &a.arg)), Some(long_of(&b.decls, &b.arg))];
            let cl = Some(long(generic, vec![ut.arg.clone(), a.arg.clone(), b.arg.clone()]));
            let checks: Vec<(&str, Vec<Parsed>)> = if generic == "Struct" { vec![("struct_construct", vec![]), ("struct_deconstruct", vec![])] } else { vec![("enum_init", vec![parse_arg(&value("0"))]), ("enum_init", vec![parse_arg(&value("1"))]), ("enum_match", vec![])] };
            for (lf_name, extra) in checks {
                let mut args: Vec<&Parsed> = vec![&comp_ty];
                args.extend(extra.iter());
                let mut p = assemble(&base, &args, &Target::Libfunc(lf_name.to_string()));
                cases += 1;
                let Ok(Some(reg)) = registry_autodecl(&mut p) else { continue };
                accepted += 1;
                let Ok(lf) = reg.get_libfunc(&"L".into()) else { continue };
                let lid = |id: &crate::ids::ConcreteTypeId| reg.get_type(id).ok().map(|x| x.info().long_id.clone());
                let ins: Vec<Option<ConcreteTypeLongId>> = lf.param_signatures().iter().map(|ps| lid(&ps.ty)).collect();
                let outs: Vec<Vec<Option<ConcreteTypeLongId>>> = lf.branch_signatures().iter().map(|b| b.vars.iter().map(|v| lid(&v.ty)).collect()).collect();
                let (want_in, want_out) = match (lf_name, extra.first().map(|e| e.text.as_str())) {
                    ("struct_construct", _) => (members.clone(), vec![vec![cl.clone()]]),
                    ("struct_deconstruct", _) => (vec![cl.clone()], vec![members.clone()]),
                    ("enum_init", Some("0")) => (vec![members[0].clone()], vec![vec![cl.clone()]]),
                    ("enum_init", _) => (vec![members[1].clone()], vec![vec![cl.clone()]]),
                    _ => (vec![cl.clone()], vec![vec![members[0].clone()], vec![members[1].clone()]]),
                };
                if ins != want_in || outs != want_out {
                    let show = |v: &Vec<Option<ConcreteTypeLongId>>| v.iter().map(|x| x.as_ref().map(|l| l.to_string()).unwrap_or("?".into())).collect::<Vec<_>>().join(", ");
                    let shown = format!("{lf_name}<{}{}>", comp_ty.text, extra.first().map(|e| format!(", {}", e.text)).unwrap_or_default());
                    if !fails.iter().any(|f| f.0 == format!("{lf_name} signature")) { fails.push((format!("{lf_name} signature"), shown.clone(), format!("`{shown}` has the signature ({}) -> {:?}, the typing rule says ({}) -> {:?}", show(&ins), outs.iter().map(show).collect::<Vec<_>>(), show(&want_in), want_out.iter().map(show).collect::<Vec<_>>()))); }
                }
            }
        }
    } }
    // tuples <-> spans: `tuple_from_span<T>` only LOOKS at the array (its input is a snapshot), so what it
    // hands out is the snapshot of Box<T> (for a duplicatable T that is Box<T> itself); `span_from_tuple<T>` is its inverse
    for e in &uni {
        let GenericArg::Type(e_id) = &e.arg else { continue };
        let tuple = Parsed { decls: { let mut d = e.decls.clone(); d.push(crate::program::TypeDeclaration { id: "Tup".into(), long_id: long("Struct", vec![parse_arg(&value("ut@Tuple")).arg, e.arg.clone(), e.arg.clone()]), declared_type_info: None }); d }, arg: GenericArg::Type("Tup".into()), text: format!("Struct<ut@Tuple, {0}, {0}>", e.text) };
        for lf_name in ["tuple_from_span", "span_from_tuple"] {
            let mut p = assemble(&base, &[&tuple], &Target::Libfunc(lf_name.to_string()));
            cases += 1;
            let Ok(Some(reg)) = registry_autodecl(&mut p) else { continue };
            accepted += 1;
            let Ok(lf) = reg.get_libfunc(&"L".into()) else { continue };
            let lid = |id: &crate::ids::ConcreteTypeId| reg.get_type(id).ok().map(|x| x.info().long_id.clone());
            let ins: Vec<Option<ConcreteTypeLongId>> = lf.param_signatures().iter().map(|ps| lid(&ps.ty)).collect();
            let outs: Vec<Vec<Option<ConcreteTypeLongId>>> = lf.branch_signatures().iter().map(|b| b.vars.iter().map(|v| lid(&v.ty)).collect()).collect();
            let Some(t_info) = reg.get_type(&"Tup".into()).ok().map(|x| x.info().clone()) else { continue };
            let Some(arr) = id_of(&p, &long("Array", vec![GenericArg::Type(e_id.clone())])) else { continue };
            let span = Some(long("Snapshot", vec![GenericArg::Type(arr)]));
            let boxed = long("Box", vec![GenericArg::Type("Tup".into())]);
            let view = if t_info.duplicatable { Some(boxed.clone()) } else { match id_of(&p, &boxed) { Some(b) => Some(long("Snapshot", vec![GenericArg::Type(b)])), None => continue } };
            let (want_in, want_out) = if lf_name == "tuple_from_span" { (vec![span.clone()], vec![vec![view.clone()], vec![]]) } else { (vec![view.clone()], vec![vec![span.clone()]]) };
            if ins != want_in || outs != want_out {
                let show = |v: &Vec<Option<ConcreteTypeLongId>>| v.iter().map(|x| x.as_ref().map(|l| l.to_string()).unwrap_or("?".into())).collect::<Vec<_>>().join(", ");
                let shown = format!("{lf_name}<{}>", tuple.text);
                if !fails.iter().any(|f| f.0 == format!("{lf_name} signature")) { fails.push((format!("{lf_name} signature"), shown.clone(), format!("`{shown}` has the signature ({}) -> {:?}, the typing rule says ({}) -> {:?}", show(&ins), outs.iter().map(show).collect::<Vec<_>>(), show(&want_in), want_out.iter().map(show).collect::<Vec<_>>()))); }
            }
        }
    }
    let bound = format!("{cases} declarations of 31 structural libfuncs over {} member types (pairs for structs and enums), {accepted} accepted", uni.len());
    for (k, (key, input, why)) in fails.iter().enumerate() {
        println!("VERIF-N id=N/n_c15_type_info/structural_signatures:{} status=fail key=\"{}\" input=\"{}\" detail=\"{}\" bound=\"{bound}\"", k + 1, key.replace('"', "'"), input.replace('"', "'"), why.replace('"', "'"));
    }
    if fails.is_empty() {
        if accepted == 0 { println!("VERIF-N id=N/n_c15_type_info/structural_signatures status=unknown"); } else { println!("VERIF-N id=N/n_c15_type_info/structural_signatures status=ok cases={cases} distinct={accepted} bound=\"{bound}\""); }
    }
}
/// The concrete id under which `reg` knows the type with this long id.
fn id_of(p: &crate::program::Program, l: &crate::program::ConcreteTypeLongId) -> Option<crate::ids::ConcreteTypeId> {
    p.type_declarations.iter().find(|d| d.long_id == *l).map(|d| d.id.clone())
}
/// `Box<snapshot of T>` where the snapshot of a duplicatable T is T itself.
fn box_of_snap(p: &crate::program::Program, t: &Parsed, t_info: &TypeInfo) -> Option<Option<crate::program::ConcreteTypeLongId>> {
    let inner = if t_info.duplicatable { t.arg.clone() } else { GenericArg::Type(id_of(p, &crate::program::ConcreteTypeLongId { generic_id: "Snapshot".into(), generic_args: vec![t.arg.clone()] })?) };
    Some(Some(crate::program::ConcreteTypeLongId { generic_id: "Box".into(), generic_args: vec![inner] }))
}
/// The long id declared for the type argument `arg` in `decls`.
fn long_of(decls: &[crate::program::TypeDeclaration], arg: &GenericArg) -> crate::program::ConcreteTypeLongId {
    let GenericArg::Type(id) = arg else { panic!("not a type") };
    decls.iter().find(|d| d.id == *id).map(|d| d.long_id.clone()).unwrap_or_else(|| crate::program::ConcreteTypeLongId { generic_id: "felt252".into(), generic_args: vec![] })
}
