// N unit (C15), BOUNDED stand-in for the ownership flags of composite types (TypeInfo computed by
// the `specialize` of Struct / Enum / Box / Nullable / NonZero / Array / Snapshot / Span /
// Uninitialized / Const ... - ~30 small functions over generic arguments; no single function to put
// under contract). C15's "no value is used twice / dropped unless its type allows it" rests on these
// flags, and the independent checker of n_c15_independent reads them from the real registry. The
// laws below are independent of the per-type code:
//   a type that CONTAINS its members by value (Struct, Enum, Box, Nullable, NonZero, Array, Span)
//     duplicatable  ==>  every member type duplicatable
//     droppable     ==>  every member type droppable
//     (a Struct is) zero_sized ==> every member zero_sized;  storable ==> every member storable
//   a builtin / linear resource (RangeCheck, GasBuiltin, ..., Felt252Dict<T>, Coupon<f>) is never
//     duplicatable, and the builtins are not droppable
//   Snapshot<T> is duplicatable and droppable (that is what a snapshot is for) and as big as T
// evaluated on every declaration over the boundary universe of member types that the registry accepts.
#![allow(dead_code, unused_imports)]
use std::panic::{catch_unwind, AssertUnwindSafe};

use crate::extensions::core::{CoreLibfunc, CoreType};
use crate::extensions::types::TypeInfo;
use crate::extensions::ConcreteType;
use crate::program::GenericArg;
use crate::program_registry::ProgramRegistry;

use crate as sierra;
#[path = "../shared/spec_universe.rs"]
mod spec_universe;
use spec_universe::*;

#[test]
fn __verif_n_c15_type_info() {
    std::panic::set_hook(Box::new(|_| {}));
    let thorough = std::env::var("VERIF_TIER").map(|t| t == "thorough").unwrap_or(false);
    let uni: Vec<Parsed> = universe(thorough).iter().map(parse_arg).filter(|p| matches!(p.arg, GenericArg::Type(_))).collect();
    let ut = parse_arg(&value("ut@Foo"));
    let base = base_program();
    let (mut cases, mut accepted) = (0u64, 0u64);
    let mut fails: Vec<(String, String, String)> = vec![];
    let mut fail = |key: String, input: String, why: String, fails: &mut Vec<(String, String, String)>| { if !fails.iter().any(|f| f.0 == key) { fails.push((key, input, why)); } };
    let by_value = ["Struct", "Enum", "Box", "Nullable", "NonZero", "Array", "Span"];
    let linear = ["RangeCheck", "GasBuiltin", "Pedersen", "Bitwise", "EcOp", "Poseidon", "SegmentArena", "RangeCheck96", "AddMod", "MulMod", "System"];
    // member lists: one or two members
    let mut lists: Vec<Vec<&Parsed>> = vec![];
    for a in &uni { lists.push(vec![a]); }
    for a in &uni { for b in &uni { lists.push(vec![a, b]); } }
    for generic in by_value.iter().chain(["Snapshot", "Felt252Dict", "SquashedFelt252Dict", "Uninitialized"].iter()) {
        for members in &lists {
            let needs_ut = *generic == "Struct" || *generic == "Enum";
            if !needs_ut && members.len() != 1 { continue; }
            let mut args: Vec<&Parsed> = vec![];
            if needs_ut { args.push(&ut); }
            args.extend(members.iter().copied());
            let t = Target::Type(generic.to_string());
            let mut p = assemble(&base, &args, &t);
            cases += 1;
            let reg = match registry_autodecl(&mut p) { Ok(Some(r)) => r, _ => continue };
            accepted += 1;
            let info_of = |id: &crate::ids::ConcreteTypeId| -> Option<TypeInfo> { reg.get_type(id).ok().map(|t| t.info().clone()) };
            let Some(c) = info_of(&"T".into()) else { continue };
            let ms: Vec<TypeInfo> = members.iter().filter_map(|m| if let GenericArg::Type(id) = &m.arg { info_of(id) } else { None }).collect();
            if ms.len() != members.len() { continue; }
            let shown = format!("type T = {}", c.long_id);
            let names: Vec<String> = members.iter().map(|m| m.text.clone()).collect();
            if by_value.contains(generic) {
                if c.duplicatable && ms.iter().any(|m| !m.duplicatable) { fail(format!("{generic} dup"), shown.clone(), format!("`{shown}` is duplicatable although a member of {names:?} is not"), &mut fails); }
                if c.droppable && ms.iter().any(|m| !m.droppable) { fail(format!("{generic} drop"), shown.clone(), format!("`{shown}` is droppable although a member of {names:?} is not"), &mut fails); }
                if *generic == "Struct" {
                    if c.zero_sized != ms.iter().all(|m| m.zero_sized) { fail("Struct zero".into(), shown.clone(), format!("`{shown}`: zero_sized is {} but its members' flags are {:?}", c.zero_sized, ms.iter().map(|m| m.zero_sized).collect::<Vec<_>>()), &mut fails); }
                    if c.storable && ms.iter().any(|m| !m.storable) { fail("Struct storable".into(), shown.clone(), format!("`{shown}` is storable although a member of {names:?} is not"), &mut fails); }
                    // and the other way round: a struct of duplicatable / droppable members is one
                    if ms.iter().all(|m| m.duplicatable) != c.duplicatable { fail("Struct dup iff".into(), shown.clone(), format!("`{shown}`: duplicatable is {} but its members' flags are {:?}", c.duplicatable, ms.iter().map(|m| m.duplicatable).collect::<Vec<_>>()), &mut fails); }
                    if ms.iter().all(|m| m.droppable) != c.droppable { fail("Struct drop iff".into(), shown.clone(), format!("`{shown}`: droppable is {} but its members' flags are {:?}", c.droppable, ms.iter().map(|m| m.droppable).collect::<Vec<_>>()), &mut fails); }
                }
                if *generic == "Array" && c.duplicatable { fail("Array dup".into(), shown.clone(), format!("`{shown}` is duplicatable (an array owns a growable segment)"), &mut fails); }
            }
            if *generic == "Snapshot" {
                if !(c.duplicatable && c.droppable) { fail("Snapshot".into(), shown.clone(), format!("`{shown}` is not duplicatable and droppable"), &mut fails); }
                if c.zero_sized != ms[0].zero_sized || c.storable != ms[0].storable { fail("Snapshot size".into(), shown.clone(), format!("`{shown}`: storable/zero_sized differ from the snapshotted type's"), &mut fails); }
            }
            if (*generic == "Felt252Dict" || *generic == "SquashedFelt252Dict") && c.duplicatable { fail(format!("{generic} dup"), shown.clone(), format!("`{shown}` is duplicatable"), &mut fails); }
            if *generic == "Felt252Dict" && c.droppable { fail("Felt252Dict drop".into(), shown.clone(), format!("`{shown}` is droppable (a dictionary has to be squashed)"), &mut fails); }
            if *generic == "Uninitialized" && (c.duplicatable || c.storable) { fail("Uninitialized".into(), shown.clone(), format!("`{shown}` is duplicatable or storable"), &mut fails); }
        }
    }
    // builtins
    for b in linear {
        let t = Target::Type(b.to_string());
        let mut p = assemble(&base, &[], &t);
        cases += 1;
        let Ok(Some(reg)) = registry_autodecl(&mut p) else { continue };
        accepted += 1;
        let Ok(c) = reg.get_type(&"T".into()) else { continue };
        let c = c.info();
        if c.duplicatable || c.droppable { fail(format!("builtin {b}"), format!("type T = {b}"), format!("the builtin `{b}` is duplicatable or droppable: dup={} drop={}", c.duplicatable, c.droppable), &mut fails); }
    }
    let bound = format!("{cases} composite type declarations (Struct/Enum of 1-2 members, Box, Nullable, NonZero, Array, Span, Snapshot, dictionaries, Uninitialized over {} member types; 11 builtins), {accepted} accepted", uni.len());
    for (k, (key, input, why)) in fails.iter().enumerate() {
        println!("VERIF-N id=N/n_c15_type_info/ownership_flags:{} status=fail key=\"{}\" input=\"{}\" detail=\"{}\" bound=\"{bound}\"", k + 1, key.replace('"', "'"), input.replace('"', "'"), why.replace('"', "'"));
    }
    if fails.is_empty() {
        if accepted == 0 { println!("VERIF-N id=N/n_c15_type_info/ownership_flags status=unknown"); } else { println!("VERIF-N id=N/n_c15_type_info/ownership_flags status=ok cases={cases} distinct={accepted} bound=\"{bound}\""); }
    }
}
