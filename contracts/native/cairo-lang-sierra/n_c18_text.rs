// N unit (C18), BOUNDED stand-in for the text serialisation (fmt.rs printer + LALRPOP grammar:
// generated code, no function within a verifier's reach). Contract, from the property statement
// ("printing a Sierra program as text and parsing it back succeeds and yields the same program up
// to a consistent renaming of ids"), evaluated on the repository's own printed programs (every
// *.sierra golden file is the output of the printer):
//   1. parse(text) succeeds;
//   2. the renaming is consistent: declarations keep pairwise distinct type / libfunc / function ids;
//   3. print(parse(text)) is a fixpoint: parse(print(p)) == p and print(parse(print(p))) == print(p);
//   4. every parsed function name is a name the text declares (up to whitespace).
#![allow(dead_code, unused_imports)]
use std::collections::HashSet;
use std::panic::{catch_unwind, AssertUnwindSafe};

use crate::program::Program;
use crate::ProgramParser;

fn corpus() -> Vec<std::path::PathBuf> {
    let mut root = std::path::PathBuf::from(env!("CARGO_MANIFEST_DIR"));
    root.pop();
    root.pop();
    let mut out = vec![];
    let mut stack = vec![root.join("crates"), root.join("tests"), root.join("examples")];
    while let Some(d) = stack.pop() {
        let Ok(rd) = std::fs::read_dir(&d) else { continue };
        for e in rd.filter_map(|e| e.ok()) {
            let p = e.path();
            if p.is_dir() { if p.file_name().map(|n| n != "target").unwrap_or(true) { stack.push(p); } }
            else if p.extension().map(|x| x == "sierra").unwrap_or(false) { out.push(p); }
        }
    }
    out.sort();
    let thorough = std::env::var("VERIF_TIER").map(|t| t == "thorough").unwrap_or(false);
    if !thorough {
        // quick: the files with the richest id syntax plus a spread of the rest
        let keep: Vec<_> = out.iter().enumerate().filter(|(i, p)| {
            let n = p.file_name().unwrap().to_string_lossy().to_string();
            n.contains("libfuncs_coverage") || n.contains("trim_unused_params") || n.contains("fib_array") || i % 5 == 0
        }).map(|(_, p)| p.clone()).collect();
        return keep;
    }
    out
}
// the grammar normalises whitespace and the trailing comma of a tuple `(T,)`: a consistent renaming
fn squash(s: &str) -> String { s.chars().filter(|c| !c.is_whitespace()).collect::<String>().replace(",)", ")") }
fn check(path: &std::path::Path) -> Option<String> {
    let text = std::fs::read_to_string(path).ok()?;
    let p = match ProgramParser::new().parse(&text) { Ok(p) => p, Err(e) => return Some(format!("printed program does not parse back: {}", format!("{e:?}").chars().take(80).collect::<String>())) };
    let printed = p.to_string();
    let p2 = match ProgramParser::new().parse(&printed) { Ok(p) => p, Err(_) => return Some("print(parse(text)) does not parse".into()) };
    if p2 != p { return Some("parse(print(p)) != p".into()); }
    if p2.to_string() != printed { return Some("print is not a fixpoint after one round".into()); }
    // consistent renaming: declarations keep distinct ids
    let fn_ids: HashSet<u64> = p.funcs.iter().map(|f| f.id.id).collect();
    if p.funcs.len() != fn_ids.len() { return Some(format!("function ids collided: {} declarations, {} distinct ids", p.funcs.len(), fn_ids.len())); }
    let ty_ids: HashSet<u64> = p.type_declarations.iter().map(|t| t.id.id).collect();
    if ty_ids.len() != p.type_declarations.len() { return Some("type ids collided".into()); }
    let lf_ids: HashSet<u64> = p.libfunc_declarations.iter().map(|t| t.id.id).collect();
    if lf_ids.len() != p.libfunc_declarations.len() { return Some("libfunc ids collided".into()); }
    // every parsed function name is the name written in the text (up to whitespace)
    let sq = squash(&text);
    for f in &p.funcs {
        if let Some(n) = &f.id.debug_name {
            if !sq.contains(&format!("{}@", squash(n))) { return Some(format!("function name changed by parsing: `{}` is not declared in the text", n.chars().take(80).collect::<String>())); }
        }
    }
    None
}

#[test]
fn __verif_n_c18_text_round_trip() {
    std::panic::set_hook(Box::new(|_| {}));
    let files = corpus();
    let mut fails = vec![];
    for f in &files {
        let r = catch_unwind(AssertUnwindSafe(|| check(f)));
        let why = match r { Err(_) => Some("panic".to_string()), Ok(w) => w };
        if let Some(w) = why { fails.push((f.display().to_string(), w)); }
    }
    let bound = format!("{} printed Sierra programs of the repository (golden *.sierra files)", files.len());
    for (input, why) in &fails {
        let short = input.rsplit('/').next().unwrap_or(input);
        println!("VERIF-N id=N/n_c18_text/round_trip:{} status=fail key=\"{}\" input=\"{}\" detail=\"{}: {}\" bound=\"{bound}\"", short, why.replace('"', "'"), input, short, why.replace('"', "'"));
    }
    if fails.is_empty() || fails.len() < files.len() {
        println!("VERIF-N id=N/n_c18_text/round_trip status=ok cases={} distinct={} bound=\"{bound}; {} file(s) reported separately as failing\"", files.len(), files.len(), fails.len());
    }
}
