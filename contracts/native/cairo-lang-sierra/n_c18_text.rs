// N unit (C18), BOUNDED stand-in for the text serialisation (fmt.rs printer + LALRPOP grammar:
// generated code, no function within a verifier's reach). Contract, from the property statement
// ("printing a Sierra program as text and parsing it back succeeds and yields the same program up
// to a consistent renaming of ids"), evaluated on the repository's own printed programs (every
// *.sierra golden file is the output of the printer):
//   1. parse(text) succeeds;
//   2. the renaming is consistent: declarations keep pairwise distinct type / libfunc / function ids;
//   3. print(parse(text)) is a fixpoint: parse(print(p)) == p and print(parse(print(p))) == print(p);
//   4. every parsed function name is a name the text declares (up to whitespace).
#![allow(dead_code, unused_imports)]
use std::collections::HashSet;
use std::panic::{catch_unwind, AssertUnwindSafe};

use crate::program::Program;
use crate::ProgramParser;

fn corpus() -> Vec<std::path::PathBuf> {
    let mut root = std::path::PathBuf::from(env!("CARGO_MANIFEST_DIR"));
    root.pop();
    root.pop();
    let mut out = vec![];
    let mut stack = vec![root.join("crates"), root.join("tests"), root.join("examples")];
    while let Some(d) = stack.pop() {
        let Ok(rd) = std::fs::read_dir(&d) else { continue };
        for e in rd.filter_map(|e| e.ok()) {
            let p = e.path();
            if p.is_dir() { if p.file_name().map(|n| n != "target").unwrap_or(true) { stack.push(p); } }
            else if p.extension().map(|x| x == "sierra").unwrap_or(false) { out.push(p); }
        }
    }
    out.sort();
    let thorough = std::env::var("VERIF_TIER").map(|t| t == "thorough").unwrap_or(false);
    if !thorough {
        // quick: the files with the richest id syntax plus a spread of the rest
        let keep: Vec<_> = out.iter().enumerate().filter(|(i, p)| {
            let n = p.file_name().unwrap().to_string_lossy().to_string();
            n.contains("libfuncs_coverage") || n.contains("trim_unused_params") || n.contains("fib_array") || i % 5 == 0
        }).map(|(_, p)| p.clone()).collect();
        return keep;
    }
    out
}
// the grammar normalises whitespace and the trailing comma of a tuple `(T,)`: a consistent renaming
fn squash(s: &str) -> String { s.chars().filter(|c| !c.is_whitespace()).collect::<String>().replace(",)", ")") }
fn check(text: &str) -> Option<String> {
    let p = match ProgramParser::new().parse(&text) { Ok(p) => p, Err(e) => return Some(format!("printed program does not parse back: {}", format!("{e:?}").chars().take(80).collect::<String>())) };
    let printed = p.to_string();
    let p2 = match ProgramParser::new().parse(&printed) { Ok(p) => p, Err(_) => return Some("print(parse(text)) does not parse".into()) };
    if p2 != p { return Some("parse(print(p)) != p".into()); }
    if p2.to_string() != printed { return Some("print is not a fixpoint after one round".into()); }
    // consistent renaming: declarations keep distinct ids
    let fn_ids: HashSet<u64> = p.funcs.iter().map(|f| f.id.id).collect();
    if p.funcs.len() != fn_ids.len() { return Some(format!("function ids collided: {} declarations, {} distinct ids", p.funcs.len(), fn_ids.len())); }
    let ty_ids: HashSet<u64> = p.type_declarations.iter().map(|t| t.id.id).collect();
    if ty_ids.len() != p.type_declarations.len() { return Some("type ids collided".into()); }
    let lf_ids: HashSet<u64> = p.libfunc_declarations.iter().map(|t| t.id.id).collect();
    if lf_ids.len() != p.libfunc_declarations.len() { return Some("libfunc ids collided".into()); }
    // every parsed function name is the name written in the text (up to whitespace)
    let sq = squash(text);
    for f in &p.funcs {
        if let Some(n) = &f.id.debug_name {
            if !sq.contains(&format!("{}@", squash(n))) { return Some(format!("function name changed by parsing: `{}` is not declared in the text", n.chars().take(80).collect::<String>())); }
        }
    }
    None
}

#[test]
fn __verif_n_c18_text_round_trip() {
    std::panic::set_hook(Box::new(|_| {}));
    let files = inputs();
    let mut fails = vec![];
    for (name, text) in &files {
        let r = catch_unwind(AssertUnwindSafe(|| check(text)));
        let why = match r { Err(_) => Some("panic".to_string()), Ok(w) => w };
        if let Some(w) = why { fails.push((name.clone(), w)); }
    }
    let bound = format!("{} printed Sierra programs of the repository (golden *.sierra files and the e2e test files)", files.len());
    for (input, why) in &fails {
        let short = input.rsplit('/').next().unwrap_or(input);
        println!("VERIF-N id=N/n_c18_text/round_trip:{} status=fail key=\"{}\" input=\"{}\" detail=\"{}: {}\" bound=\"{bound}\"", short, why.replace('"', "'"), input, short, why.replace('"', "'"));
    }
    if fails.is_empty() || fails.len() < files.len() {
        println!("VERIF-N id=N/n_c18_text/round_trip status=ok cases={} distinct={} bound=\"{bound}; {} file(s) reported separately as failing\"", files.len(), files.len(), fails.len());
    }
}

#[path = "../shared/e2e_corpus.rs"]
mod e2e_corpus;
/// (name, text) of the file corpus plus the programs recorded in the e2e test files.
fn inputs() -> Vec<(String, String)> {
    let mut v: Vec<(String, String)> = corpus().iter().filter_map(|f| std::fs::read_to_string(f).ok().map(|s| (f.display().to_string(), s))).collect();
    v.extend(e2e_corpus::e2e_programs(env!("CARGO_MANIFEST_DIR")));
    v
}

/// "writing it as versioned JSON and loading it again ... yield[s] the same program": for every corpus
/// program p, with and without its debug info:
///   load(write(VersionedProgram::v1(p))) == VersionedProgram::v1(p); the program inside is p; and
///   with the debug info populated again it prints exactly as p does.
#[test]
fn __verif_n_c18_json_round_trip() {
    use crate::debug_info::DebugInfo;
    use crate::program::{ProgramArtifact, VersionedProgram};
    std::panic::set_hook(Box::new(|_| {}));
    let files = inputs();
    let mut checked = 0u64;
    let mut fails: Vec<(String, String)> = vec![];
    for (name, text) in &files {
        let r = catch_unwind(AssertUnwindSafe(|| -> Option<Option<String>> {
            let p = ProgramParser::new().parse(text).ok()?;
            for with_debug in [false, true] {
                let art = if with_debug { ProgramArtifact::stripped(p.clone()).with_debug_info(DebugInfo::extract(&p)) } else { ProgramArtifact::stripped(p.clone()) };
                let vp = VersionedProgram::v1(art);
                for pretty in [false, true] {
                    let Ok(js) = (if pretty { serde_json::to_string_pretty(&vp) } else { serde_json::to_string(&vp) }) else { return Some(Some("the versioned program does not print as JSON".into())) };
                    let back: VersionedProgram = match serde_json::from_str(&js) { Ok(b) => b, Err(e) => return Some(Some(format!("the JSON of the versioned program does not load: {}", format!("{e}").chars().take(100).collect::<String>()))) };
                    let Ok(a) = back.into_v1() else { return Some(Some("the loaded program is not version 1".into())) };
                    if a.program != p { return Some(Some("the program inside the JSON artifact changed".into())); }
                    // the debug info is a set of (id, name) pairs: the JSON stores it sorted by id, so it is
                    // compared as a map, not as an ordered list
                    if with_debug {
                        let Some(d) = &a.debug_info else { return Some(Some("the debug info was lost by the JSON round trip".into())) };
                        let d0 = &DebugInfo::extract(&p);
                        let mut t1: Vec<(u64, String)> = d.type_names.iter().map(|(k, v)| (k.id, v.to_string())).collect(); t1.sort();
                        let mut t0: Vec<(u64, String)> = d0.type_names.iter().map(|(k, v)| (k.id, v.to_string())).collect(); t0.sort();
                        let mut l1: Vec<(u64, String)> = d.libfunc_names.iter().map(|(k, v)| (k.id, v.to_string())).collect(); l1.sort();
                        let mut l0: Vec<(u64, String)> = d0.libfunc_names.iter().map(|(k, v)| (k.id, v.to_string())).collect(); l0.sort();
                        let mut f1: Vec<(u64, String)> = d.user_func_names.iter().map(|(k, v)| (k.id, v.to_string())).collect(); f1.sort();
                        let mut f0: Vec<(u64, String)> = d0.user_func_names.iter().map(|(k, v)| (k.id, v.to_string())).collect(); f0.sort();
                        if t1 != t0 || l1 != l0 || f1 != f0 { return Some(Some("the debug names changed by the JSON round trip".into())); }
                    }
                    let mut q = a.program.clone();
                    if let Some(d) = &a.debug_info { d.populate(&mut q); }
                    if with_debug && q.to_string() != p.to_string() { return Some(Some("the program loaded from JSON with its debug info prints differently".into())); }
                }
            }
            Some(None)
        }));
        match r { Ok(Some(None)) => checked += 1, Ok(Some(Some(w))) => fails.push((name.clone(), w)), Ok(None) => {}, Err(_) => fails.push((name.clone(), "panic".into())) }
    }
    let bound = format!("{} Sierra programs of the repository x {{with, without}} debug info x {{compact, pretty}} JSON; {checked} checked", files.len());
    let mut seen = HashSet::new();
    for (input, why) in &fails {
        if !seen.insert(why.clone()) { continue; }
        println!("VERIF-N id=N/n_c18_text/json_round_trip:{} status=fail key=\"{}\" input=\"{}\" detail=\"{}: {}\" bound=\"{bound}\"", seen.len(), why.replace('"', "'"), input.replace('"', "'"), input.replace('"', "'"), why.replace('"', "'"));
    }
    if fails.is_empty() {
        if checked == 0 { println!("VERIF-N id=N/n_c18_text/json_round_trip status=unknown"); } else { println!("VERIF-N id=N/n_c18_text/json_round_trip status=ok cases={} distinct={checked} bound=\"{bound}\"", checked * 4); }
    }
}
