// N unit (C14), BOUNDED twin of the Verus unit `felt_decompress` (totality): `decompress` returns
// Some or None - never panics, never allocates beyond 31 x the input - on every felt vector of
// length <= 5 over boundary values, and on every truncation / single-felt corruption of valid
// compressed vectors.
#![allow(dead_code, unused_imports)]
use std::panic::{catch_unwind, AssertUnwindSafe};

use cairo_lang_utils::bigint::BigUintAsHex;
use num_bigint::BigUint;

use crate::felt252_vec_compression::{compress, decompress};

fn boundary() -> Vec<BigUint> {
    let one = BigUint::from(1u8);
    vec![BigUint::from(0u8), one.clone(), BigUint::from(2u8), BigUint::from(3u8), BigUint::from(255u16), BigUint::from(256u16), BigUint::from(257u16), BigUint::from(512u16), &one << 63, (&one << 64) - 1u8, &one << 64, (&one << 251) + 16u8]
}

#[test]
fn __verif_n_c14_decompress_total() {
    std::panic::set_hook(Box::new(|_| {}));
    let b = boundary();
    let mut cases = 0u64;
    let mut fail: Option<(String, String)> = None;
    let mut check = |v: Vec<BigUint>, what: String| -> bool {
        cases += 1;
        let input: Vec<BigUintAsHex> = v.iter().map(|x| BigUintAsHex { value: x.clone() }).collect();
        let n = input.len();
        match catch_unwind(AssertUnwindSafe(|| decompress(&input).map(|r| r.len()))) {
            Err(_) => { fail = Some((what, "panic in decompress".into())); false }
            Ok(Some(len)) if len > 31 * n => { fail = Some((what, format!("result of {len} elements from {n} felts"))); false }
            _ => true,
        }
    };
    // every vector of length <= 4 over the boundary values (+ length 5 over a thinner set)
    'o: {
        let idx: Vec<usize> = (0..b.len()).collect();
        if !check(vec![], "[]".into()) { break 'o; }
        for a in &idx { if !check(vec![b[*a].clone()], format!("[{}]", b[*a])) { break 'o; }
            for c in &idx { if !check(vec![b[*a].clone(), b[*c].clone()], format!("[{}, {}]", b[*a], b[*c])) { break 'o; }
                for d in idx.iter().step_by(2) { if !check(vec![b[*a].clone(), b[*c].clone(), b[*d].clone()], format!("[{}, {}, {}]", b[*a], b[*c], b[*d])) { break 'o; }
                    for e in idx.iter().step_by(3) { if !check(vec![b[*a].clone(), b[*c].clone(), b[*d].clone(), b[*e].clone()], format!("[{}, {}, {}, {}]", b[*a], b[*c], b[*d], b[*e])) { break 'o; } }
                }
            }
        }
        // truncations and single-felt corruptions of valid encodings
        for len in [1usize, 2, 30, 31, 32, 62, 63] { for distinct in [1usize, 2, 300] {
            let v: Vec<BigUintAsHex> = (0..len).map(|i| BigUintAsHex { value: BigUint::from((i * 7 % distinct) as u64) }).collect();
            let mut out = vec![];
            compress(&v, &mut out);
            let enc: Vec<BigUint> = out.iter().map(|x| x.value.clone()).collect();
            for cut in 0..enc.len() { if !check(enc[..cut].to_vec(), format!("valid encoding of {len} felts / {distinct} distinct, truncated to {cut}")) { break 'o; } }
            for pos in 0..enc.len().min(8) { for x in b.iter().step_by(2) {
                let mut e = enc.clone(); e[pos] = x.clone();
                if !check(e, format!("valid encoding of {len} felts / {distinct} distinct, felt {pos} := {x}")) { break 'o; }
            }}
        }}
    }
    let bound = "all vectors of length <= 4 over 12 boundary felts; truncations and single-felt corruptions of 21 valid encodings";
    match fail {
        None => println!("VERIF-N id=N/n_c14_decompress_total/never_panics status=ok cases={cases} distinct={cases} bound=\"{bound}\""),
        Some((input, why)) => println!("VERIF-N id=N/n_c14_decompress_total/never_panics status=fail key=\"{why}\" input=\"{input}\" detail=\"decompress({input}): {why}\" bound=\"{bound}\""),
    }
}
