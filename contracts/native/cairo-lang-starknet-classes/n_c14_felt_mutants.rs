// N unit (C14), BOUNDED stand-in for the first quantifier of C14 over the WHOLE felt path:
//   "forall felt vectors v (mutants of valid serializations):
//    ContractClass{sierra_program: v}.extract_sierra_program returns"
// and, when it returns Ok, CasmContractClass::from_contract_class returns too. The element codecs
// are under contract (Verus felt_decompress, Kani felt_serde_scalar); the composite decoders
// (Program, declarations, statements, generic args: ~500 lines of macro-generated impls) and what
// they hand to the registry and the compiler are not - this unit runs them.
// Mutants of checked-in contract classes, at two levels:
//   A. the published felts themselves: felt i := boundary value / deleted / duplicated; truncation at i
//   B. the felts under the compression layer (decompress, mutate, compress again), so that the
//      mutation reaches the Program decoder: felt i := boundary value, +-1 / deleted / duplicated;
//      truncation at i; a length felt made huge.
// Contract: every call returns (Ok or Err). A panic, an abort or an allocation beyond the memory
// guard is a failure (the latter shows as UNDECIDED: no line from this unit).
#![allow(dead_code, unused_imports)]
use std::panic::{catch_unwind, AssertUnwindSafe};

use cairo_lang_utils::bigint::BigUintAsHex;
use num_bigint::BigUint;

use crate::casm_contract_class::CasmContractClass;
use crate::contract_class::ContractClass;
use crate::felt252_vec_compression::{compress, decompress};

fn boundary() -> Vec<BigUint> {
    let one = BigUint::from(1u8);
    let p_minus_1: BigUint = (&one << 251) + BigUint::from(17u8) * (&one << 192);
    vec![BigUint::from(0u8), one.clone(), BigUint::from(2u8), BigUint::from(3u8), BigUint::from(255u16), BigUint::from(65536u32), &one << 32, &one << 63, (&one << 64) - 1u8, &one << 64, &one << 128, (&one << 128) + (&one << 127), (&one << 191), (&one << 191) + 15u8, p_minus_1]
}

fn msg(e: Box<dyn std::any::Any + Send>) -> String { if let Some(s) = e.downcast_ref::<String>() { s.clone() } else if let Some(s) = e.downcast_ref::<&str>() { s.to_string() } else { "panic".into() } }

/// Runs the whole untrusted path on one felt vector. Ok(stage reached) or Err(panic message).
fn run(class: &ContractClass, felts: Vec<BigUintAsHex>) -> Result<&'static str, String> {
    let mut c = class.clone();
    c.sierra_program = felts;
    let c2 = c.clone();
    let h = std::thread::Builder::new().stack_size(64 << 20).spawn(move || {
        let ex = match catch_unwind(AssertUnwindSafe(|| c.extract_sierra_program(false))) { Err(e) => return Err(format!("extract_sierra_program: {}", msg(e))), Ok(Err(_)) => return Ok("not deserializable"), Ok(Ok(x)) => x };
        match catch_unwind(AssertUnwindSafe(|| c.extract_sierra_program(true))) { Err(e) => return Err(format!("extract_sierra_program(populate_debug_info): {}", msg(e))), _ => {} }
        match catch_unwind(AssertUnwindSafe(|| CasmContractClass::from_contract_class(c2, ex, false, usize::MAX))) { Err(e) => Err(format!("from_contract_class: {}", msg(e))), Ok(Err(_)) => Ok("rejected by the compiler"), Ok(Ok(_)) => Ok("compiled") }
    }).unwrap();
    match h.join() { Ok(r) => r, Err(_) => Err("thread died".into()) }
}

fn hexes(v: &[BigUint]) -> Vec<BigUintAsHex> { v.iter().map(|x| BigUintAsHex { value: x.clone() }).collect() }

#[test]
fn __verif_n_c14_felt_mutants() {
    static LAST: std::sync::Mutex<String> = std::sync::Mutex::new(String::new());
    std::panic::set_hook(Box::new(|info| { if let Some(l) = info.location() { *LAST.lock().unwrap() = format!("{}:{}", l.file(), l.line()); } }));
    let thorough = std::env::var("VERIF_TIER").map(|t| t == "thorough").unwrap_or(false);
    let mut dir = std::path::PathBuf::from(env!("CARGO_MANIFEST_DIR"));
    dir.pop();
    dir.extend(["cairo-lang-starknet", "test_data"]);
    let names: &[&str] = if thorough { &["minimal_contract__minimal_contract", "hello_starknet__hello_starknet", "circuit_contract__circuit_contract", "test_contract__test_contract", "with_ownable__ownable_balance", "max_entrypoint__max_entrypoint_contract"] } else { &["minimal_contract__minimal_contract", "hello_starknet__hello_starknet", "circuit_contract__circuit_contract"] };
    let bvals = boundary();
    let cap = if thorough { 1500usize } else { 400 };
    type Part = (u64, u64, std::collections::BTreeMap<&'static str, u64>, std::collections::BTreeMap<String, (String, String)>);
    let one_class = |n: &str| -> Part {
        let (mut cases, mut n_classes) = (0u64, 0u64);
        let mut outcomes: std::collections::BTreeMap<&'static str, u64> = Default::default();
        let mut fails: std::collections::BTreeMap<String, (String, String)> = Default::default();
        let mut seed = 0x9E3779B97F4A7C15u64;
        let bvals = &bvals;
        loop {
        let Ok(f) = std::fs::File::open(dir.join(format!("{n}.contract_class.json"))) else { break };
        let Ok(class) = serde_json::from_reader::<_, ContractClass>(std::io::BufReader::new(f)) else { break };
        n_classes += 1;
        let orig: Vec<BigUint> = class.sierra_program.iter().map(|x| x.value.clone()).collect();
        if run(&class, hexes(&orig)) != Ok("compiled") { fails.entry("base".into()).or_insert((n.to_string(), "the checked-in class itself does not compile (harness)".into())); break; }
        // the two levels: (label, header kept verbatim, body that is mutated, recompress?)
        let body_b: Option<Vec<BigUint>> = decompress(&class.sierra_program[6..]).map(|v| v.into_iter().cloned().collect());
        let mut levels: Vec<(&str, Vec<BigUint>, Vec<BigUint>, bool)> = vec![("published felt", vec![], orig.clone(), false)];
        if let Some(b) = body_b { levels.push(("decompressed felt", orig[..6].to_vec(), b, true)); }
        for (label, header, body, recompress) in levels {
            // positions: all when small, else a fixed pseudo-random sample plus the first 64 (declaration counts live there)
            let mut pos: Vec<usize> = if body.len() <= cap { (0..body.len()).collect() } else {
                let mut s: std::collections::BTreeSet<usize> = (0..64.min(body.len())).collect();
                while s.len() < cap { seed = seed.wrapping_mul(6364136223846793005).wrapping_add(1442695040888963407); s.insert((seed >> 33) as usize % body.len()); }
                s.into_iter().collect()
            };
            pos.push(body.len());
            for &i in &pos {
                let mut variants: Vec<(String, Vec<BigUint>)> = vec![];
                if i < body.len() {
                    for v in bvals.iter() { if *v != body[i] { let mut b = body.clone(); b[i] = v.clone(); variants.push((format!(":= {v}"), b)); } }
                    { let mut b = body.clone(); b[i] = &body[i] + 1u8; variants.push(("+1".into(), b)); }
                    if body[i] > BigUint::from(0u8) { let mut b = body.clone(); b[i] = &body[i] - 1u8; variants.push(("-1".into(), b)); }
                    { let mut b = body.clone(); b.remove(i); variants.push(("deleted".into(), b)); }
                    { let mut b = body.clone(); b.insert(i, body[i].clone()); variants.push(("duplicated".into(), b)); }
                }
                variants.push(("truncated here".into(), body[..i.min(body.len())].to_vec()));
                for (what, b) in variants {
                    let felts = if recompress {
                        let mut out = hexes(&header);
                        compress(&hexes(&b), &mut out);
                        out
                    } else { hexes(&b) };
                    cases += 1;
                    match run(&class, felts) {
                        Ok(o) => *outcomes.entry(o).or_default() += 1,
                        Err(m) => {
                            let at = LAST.lock().unwrap().clone();
                            let at = at.rsplit("/crates/").next().map(|x| format!("crates/{x}")).unwrap_or(at);
                            let key: String = format!("{m} at {at}").chars().take(110).collect::<String>().replace('"', "'").replace('\n', " ");
                            fails.entry(key).or_insert((format!("{n}: {label} {i} {what}"), format!("{m} at {at}")));
                        }
                    }
                }
            }
        }
        break;
        }
        (cases, n_classes, outcomes, fails)
    };
    let parts: Vec<Part> = std::thread::scope(|sc| { let hs: Vec<_> = names.iter().map(|n| { let f = &one_class; sc.spawn(move || f(n)) }).collect(); hs.into_iter().map(|h| h.join().unwrap()).collect() });
    let (mut cases, mut n_classes) = (0u64, 0u64);
    let mut outcomes: std::collections::BTreeMap<&'static str, u64> = Default::default();
    let mut fails: std::collections::BTreeMap<String, (String, String)> = Default::default();
    for (c, k, o, f) in parts { cases += c; n_classes += k; for (x, y) in o { *outcomes.entry(x).or_default() += y; } for (x, y) in f { fails.entry(x).or_insert(y); } }
    let bound = format!("{cases} felt-level mutants (published and decompressed level; boundary values, +-1, delete, duplicate, truncate at <= {cap} positions each) of {n_classes} checked-in contract classes; outcomes {outcomes:?}");
    for (k, (key, (input, why))) in fails.iter().enumerate() {
        println!("VERIF-N id=N/n_c14_felt_mutants/felt_path_total:{} status=fail key=\"{key}\" input=\"{}\" detail=\"the untrusted felt path panicked on `{}`: {}\" bound=\"{}\"", k + 1, input.replace('"', "'"), input.replace('"', "'"), why.replace('"', "'").replace('\n', " ").chars().take(220).collect::<String>(), bound.replace('"', "'"));
    }
    if fails.is_empty() {
        if n_classes == 0 { println!("VERIF-N id=N/n_c14_felt_mutants/felt_path_total status=unknown"); }
        else { println!("VERIF-N id=N/n_c14_felt_mutants/felt_path_total status=ok cases={cases} distinct={} bound=\"{}\"", outcomes.len().max(1), bound.replace('"', "'")); }
    }
}
