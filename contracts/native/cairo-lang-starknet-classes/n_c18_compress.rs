// N unit (C18), BOUNDED stand-in for the felt-vector compression round trip (`compress` builds an
// indexmap code book, so it is outside both verifiers; `decompress` is under a Verus contract for
// totality, which says nothing about ACCEPTING every valid encoding). Contract, from the property
// statement ("serializing to the felt252 array used in contract classes and reading it back
// succeeds and yields the same program"):  decompress(compress(v)) == Some(v)  for every v.
// Domain: lengths 0..=260 (covers several multiples of every words-per-felt value 31,27,25,22,20..)
// x number of distinct values in {1,2,3,200,255,256,257,300,513,1025,2049} x 2 value patterns.
#![allow(dead_code, unused_imports)]
use std::panic::{catch_unwind, AssertUnwindSafe};

use cairo_lang_utils::bigint::BigUintAsHex;
use num_bigint::BigUint;

use crate::felt252_vec_compression::{compress, decompress};

#[test]
fn __verif_n_c18_compress_round_trip() {
    std::panic::set_hook(Box::new(|_| {}));
    let mut cases = 0u64;
    let mut fail: Option<(String, String)> = None;
    let big: BigUint = (BigUint::from(1u8) << 251) + BigUint::from(17u8);
    'o: for distinct in [1usize, 2, 3, 200, 255, 256, 257, 300, 513, 1025, 2049] {
        for pattern in 0..2 {
            let lens: Vec<usize> = if distinct <= 300 { (0..=260).collect() } else { vec![0, 1, distinct - 1, distinct, distinct + 1, 2 * distinct, 2 * distinct + 7] };
            for len in lens {
                cases += 1;
                let v: Vec<BigUintAsHex> = (0..len).map(|i| {
                    let k = if pattern == 0 { i % distinct } else { (i * 7 + i / 3) % distinct };
                    BigUintAsHex { value: if k % 5 == 4 { &big - BigUint::from(k) } else { BigUint::from(k) } }
                }).collect();
                let r = catch_unwind(AssertUnwindSafe(|| {
                    let mut out = vec![];
                    compress(&v, &mut out);
                    decompress(&out).map(|x| x.into_iter().cloned().collect::<Vec<BigUint>>())
                }));
                let want: Vec<BigUint> = v.iter().map(|x| x.value.clone()).collect();
                let why = match r {
                    Err(_) => Some("panic".to_string()),
                    Ok(None) => Some("decompress rejects the output of compress".to_string()),
                    Ok(Some(got)) if got != want => Some("round trip changed the vector".to_string()),
                    _ => None,
                };
                if let Some(w) = why { fail = Some((format!("{len} felts with {distinct} distinct values (pattern {pattern})"), w)); break 'o; }
            }
        }
    }
    let bound = "lengths 0..=260 x distinct counts {1,2,3,200,255,256,257,300} + boundary lengths for {513,1025,2049}, 2 patterns";
    match fail {
        None => println!("VERIF-N id=N/n_c18_compress/round_trip status=ok cases={cases} distinct={cases} bound=\"{bound}\""),
        Some((input, why)) => println!("VERIF-N id=N/n_c18_compress/round_trip status=fail key=\"{why}\" input=\"{input}\" detail=\"{input}: {why}\" bound=\"{bound}\""),
    }
}
