// N unit (C18), BOUNDED stand-in for the debug-name half of the published form: a contract class
// carries the felt-serialized program (ids only) and, beside it, the debug names
// (`DebugInfo::extract` / `DebugInfo::populate`, cairo-lang-sierra/src/debug_info.rs - iterator
// chains over the three declaration lists and their generic arguments, not liftable verbatim).
// Contract, from the property statement ("survive every serialisation unchanged"), on every Sierra
// program recorded in the repository (e2e test files, starknet test data):
//   canon   = canonical renaming of parse(text)                 (what the compiler publishes)
//   class   = ContractClass::new(canon) -> JSON -> back
//   ex      = class.extract_sierra_program(populate_debug_info = true)
//   ex == canon (ids)  &&  canon(parse(print(ex))) == canon  &&  print(parse(print(ex))) == print(ex)
//   and without debug info: extract(false) == canon.
#![allow(dead_code, unused_imports)]
use std::panic::{catch_unwind, AssertUnwindSafe};

use cairo_lang_sierra::ProgramParser;
use cairo_lang_sierra_generator::canonical_id_replacer::CanonicalReplacer;
use cairo_lang_sierra_generator::replace_ids::SierraIdReplacer;

use crate::contract_class::{ContractClass, ContractEntryPoints};

#[path = "../shared/e2e_corpus.rs"]
mod e2e_corpus;

/// The assembled bytecode (and hints) of a program, when it compiles.
fn casm_of(p: &cairo_lang_sierra::program::Program) -> Option<String> {
    use cairo_lang_sierra_to_casm::compiler::{compile, SierraToCasmConfig};
    use cairo_lang_sierra_to_casm::metadata::{calc_metadata, calc_metadata_ap_change_only};
    let info = cairo_lang_sierra_type_size::ProgramRegistryInfo::new(p).ok()?;
    let (md, gas) = match calc_metadata(p, &info, Default::default()) { Ok(m) => (m, true), Err(_) => (calc_metadata_ap_change_only(p, &info).ok()?, false) };
    let casm = compile(p, &info, &md, SierraToCasmConfig { gas_usage_check: gas, max_bytecode_size: usize::MAX }).ok()?;
    let a = casm.assemble();
    Some(format!("{:?} {:?}", a.bytecode, a.hints))
}

fn check(text: &str) -> Result<bool, String> {
    let Ok(original) = ProgramParser::new().parse(text) else { return Ok(false) };
    let canonical = CanonicalReplacer::from_program(&original).apply(&original);
    let class = match ContractClass::new(&canonical, ContractEntryPoints::default(), None, Default::default()) {
        Ok(c) => c,
        // "serializing it to the felt252 array ... succeed[s]": a program that compiles has to be publishable
        Err(e) => { if casm_of(&canonical).is_some() { return Err(format!("a program that compiles cannot be published: {e}")); } return Ok(false); }
    };
    let json = serde_json::to_string(&class).map_err(|e| format!("class does not print as JSON: {e}"))?;
    let class: ContractClass = serde_json::from_str(&json).map_err(|e| format!("class JSON does not parse back: {e}"))?;
    let plain = class.extract_sierra_program(false).map_err(|e| format!("published class cannot be read back: {e}"))?.program;
    if plain != canonical { return Err("felt252 round trip changed the program".into()); }
    let named = class.extract_sierra_program(true).map_err(|e| format!("published class cannot be read back with debug info: {e}"))?.program;
    if named != canonical { return Err("felt252 round trip with debug info changed the program".into()); }
    // "parse(display(s)) succeeds and is isomorphic to s (display is a fixpoint after one round)":
    // names may differ from the source text (user type names are not part of the debug info and
    // print as their numeric id), the renaming has to be CONSISTENT.
    let printed = named.to_string();
    let reparsed = ProgramParser::new().parse(&printed).map_err(|_| "the program read back with its debug names prints as text that does not parse".to_string())?;
    let recanon = catch_unwind(AssertUnwindSafe(|| CanonicalReplacer::from_program(&reparsed).apply(&reparsed))).map_err(|_| "print -> parse of the program read back with its debug names refers to an id that is not declared (inconsistent renaming)".to_string())?;
    if recanon != canonical {
        let (a, b) = (recanon.to_string(), canonical.to_string());
        let line = a.lines().zip(b.lines()).find(|(x, y)| x != y).map(|(x, y)| format!("`{x}` instead of `{y}`")).unwrap_or_default();
        return Err(format!("print -> parse of the program read back with its debug names is not isomorphic to the published program: {line}"));
    }
    if reparsed.to_string() != printed { return Err("display is not a fixpoint after one round".into()); }
    // "compiling the round-tripped program produces byte-identical CASM. Replacing numeric ids by
    // debug names (or stripping them) never changes the generated CASM."
    if let Some(want) = casm_of(&canonical) {
        for (what, p) in [("the source text", &original), ("the program read back without debug names", &plain), ("the program read back with debug names", &named), ("print -> parse of the program read back", &reparsed)] {
            match casm_of(p) {
                Some(got) if got == want => {}
                Some(_) => return Err(format!("the CASM compiled from {what} differs from the CASM of the canonical program")),
                None => return Err(format!("{what} does not compile although the canonical program does")),
            }
        }
    }
    Ok(true)
}

#[test]
fn __verif_n_c18_debug_info() {
    std::panic::set_hook(Box::new(|_| {}));
    let thorough = std::env::var("VERIF_TIER").map(|t| t == "thorough").unwrap_or(false);
    let mut inputs = e2e_corpus::e2e_programs(env!("CARGO_MANIFEST_DIR"));
    let mut root = std::path::PathBuf::from(env!("CARGO_MANIFEST_DIR"));
    root.pop();
    root.pop();
    for d in ["crates/cairo-lang-starknet/test_data", "tests/test_data", "crates/cairo-lang-sierra/examples"] {
        let Ok(rd) = std::fs::read_dir(root.join(d)) else { continue };
        let mut files: Vec<_> = rd.filter_map(|e| e.ok()).map(|e| e.path()).filter(|p| p.extension().map(|x| x == "sierra").unwrap_or(false)).collect();
        files.sort();
        if !thorough { files.truncate(6); }
        for f in files { if let Ok(s) = std::fs::read_to_string(&f) { inputs.push((f.display().to_string(), s)); } }
    }
    // sierra-generator's own test data holds the coupon / function-call shapes
    let (mut cases, mut checked) = (0u64, 0u64);
    let mut fails: std::collections::BTreeMap<String, (String, String)> = Default::default();
    // every program with two or more functions also with its function declarations REVERSED: the order of
    // declarations is free (entry points are arbitrary statement indices), compiler output just happens to be sorted
    let reversed: Vec<(String, String)> = inputs.iter().filter_map(|(name, text)| {
        let mut p = ProgramParser::new().parse(text).ok()?;
        if p.funcs.len() < 2 || p.funcs.len() > 40 { return None; }
        p.funcs.reverse();
        Some((format!("{name} [function declarations reversed]"), p.to_string()))
    }).collect();
    inputs.extend(reversed);
    for (name, text) in &inputs {
        cases += 1;
        match catch_unwind(AssertUnwindSafe(|| check(text))) {
            Ok(Ok(true)) => checked += 1,
            Ok(Ok(false)) => {}
            Ok(Err(w)) => { fails.entry(w.chars().take(60).collect()).or_insert((name.clone(), w)); }
            Err(_) => { fails.entry("panic".into()).or_insert((name.clone(), "panic".into())); }
        }
    }
    let bound = format!("{cases} Sierra programs of the repository (e2e test files, test data), {checked} publishable and checked");
    for (k, (key, (input, why))) in fails.iter().enumerate() {
        println!("VERIF-N id=N/n_c18_debug_info/names_survive_publication:{} status=fail key=\"{}\" input=\"{}\" detail=\"{}: {}\" bound=\"{bound}\"", k + 1, key.replace('"', "'"), input.replace('"', "'"), input.replace('"', "'"), why.replace('"', "'"));
    }
    if fails.is_empty() {
        if checked == 0 { println!("VERIF-N id=N/n_c18_debug_info/names_survive_publication status=unknown"); }
        else { println!("VERIF-N id=N/n_c18_debug_info/names_survive_publication status=ok cases={cases} distinct={checked} bound=\"{bound}\""); }
    }
}
