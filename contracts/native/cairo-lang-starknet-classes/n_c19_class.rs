// N unit (C19), BOUNDED stand-in for the conjuncts of C19 that live in closures inside the
// 250-line `CasmContractClass::from_contract_class_with_debug_info` (no function to put under
// contract; needs a registry, metadata and a full compile). Contract, from the property
// statement, evaluated on every checked-in contract class under cairo-lang-starknet/test_data and
// on every adjacent swap / duplicate-selector perturbation of its entry-point lists:
//   Ok(casm) ==> entry points strictly sorted by selector (each kind)
//             && every bytecode word < prime  && segment lengths add up to bytecode.len()
//             && hint offsets strictly increasing and inside the bytecode
//             && every entry-point offset is the first instruction of the function it names
//             && its builtin list is exactly that function's builtin parameters, in protocol order
//   a class whose lists are not strictly increasing is rejected (never accepted)
//   compiling twice gives the same class (reproducible).
#![allow(dead_code, unused_imports)]
use std::panic::{catch_unwind, AssertUnwindSafe};

use crate::casm_contract_class::{CasmContractClass, CasmContractEntryPoint};
use crate::contract_class::ContractClass;
use crate::NestedIntList;

fn classes() -> Vec<(String, ContractClass)> {
    let mut dir = std::path::PathBuf::from(env!("CARGO_MANIFEST_DIR"));
    dir.pop();
    dir.extend(["cairo-lang-starknet", "test_data"]);
    let mut names: Vec<_> = std::fs::read_dir(&dir).unwrap().filter_map(|e| e.ok()).map(|e| e.file_name().to_string_lossy().to_string())
        .filter(|n| n.ends_with(".contract_class.json")).collect();
    names.sort();
    let thorough = std::env::var("VERIF_TIER").map(|t| t == "thorough").unwrap_or(false);
    if !thorough { names.retain(|n| n.contains("__")); names.truncate(8); }
    names.into_iter().filter_map(|n| {
        let f = std::fs::File::open(dir.join(&n)).ok()?;
        serde_json::from_reader(std::io::BufReader::new(f)).ok().map(|c| (n, c))
    }).collect()
}
fn compile(class: ContractClass) -> Result<CasmContractClass, String> {
    let program = class.extract_sierra_program(false).map_err(|e| format!("{e}"))?;
    CasmContractClass::from_contract_class(class, program, false, usize::MAX).map_err(|e| format!("{e}"))
}
/// "each entry point's offset is the first instruction of the function it names, its builtin list is
/// exactly the function's builtin parameters in protocol order" - checked against the Sierra
/// program of the class and the statement offsets of the compilation's debug info.
fn entry_points_match_functions(class: &ContractClass) -> Option<String> {
    let extracted = class.extract_sierra_program(false).ok()?;
    let program = extracted.program.clone();
    let (casm, dbg) = CasmContractClass::from_contract_class_with_debug_info(class.clone(), extracted, false, usize::MAX).ok()?;
    let builtin_name = |generic: &str| -> Option<&'static str> { Some(match generic {
        "Pedersen" => "pedersen", "RangeCheck" => "range_check", "Bitwise" => "bitwise", "EcOp" => "ec_op", "Poseidon" => "poseidon",
        "SegmentArena" => "segment_arena", "RangeCheck96" => "range_check96", "AddMod" => "add_mod", "MulMod" => "mul_mod", _ => return None }) };
    let protocol_order = ["pedersen", "range_check", "bitwise", "ec_op", "poseidon", "segment_arena", "range_check96", "add_mod", "mul_mod"];
    for (kind, sierra_eps, casm_eps) in [("external", &class.entry_points_by_type.external, &casm.entry_points_by_type.external), ("l1_handler", &class.entry_points_by_type.l1_handler, &casm.entry_points_by_type.l1_handler), ("constructor", &class.entry_points_by_type.constructor, &casm.entry_points_by_type.constructor)] {
        if sierra_eps.len() != casm_eps.len() { return Some(format!("{kind}: {} published entry points, {} compiled", sierra_eps.len(), casm_eps.len())); }
        for (s, c) in sierra_eps.iter().zip(casm_eps.iter()) {
            if s.selector != c.selector { return Some(format!("{kind}: selector changed by compilation")); }
            let f = program.funcs.get(s.function_idx)?;
            let want_off = dbg.sierra_statement_info.get(f.entry_point.0)?.start_offset;
            if c.offset != want_off { return Some(format!("{kind} entry point {:#x}: offset {} is not the first instruction ({want_off}) of function {}", c.selector, c.offset, f.id)); }
            let mut want: Vec<&str> = vec![];
            for p in &f.params {
                let decl = program.type_declarations.iter().find(|d| d.id == p.ty)?;
                if let Some(n) = builtin_name(&decl.long_id.generic_id.0) { want.push(n); }
            }
            if c.builtins.iter().map(|b| b.as_str()).collect::<Vec<_>>() != want { return Some(format!("{kind} entry point {:#x}: builtins {:?} are not the function's builtin parameters {:?}", c.selector, c.builtins, want)); }
            let pos: Vec<usize> = c.builtins.iter().filter_map(|b| protocol_order.iter().position(|x| x == b)).collect();
            if pos.len() != c.builtins.len() || pos.windows(2).any(|w| w[0] >= w[1]) { return Some(format!("{kind} entry point {:#x}: builtins {:?} are not in protocol order", c.selector, c.builtins)); }
        }
    }
    None
}
fn sum(l: &NestedIntList) -> usize { match l { NestedIntList::Leaf(n) => *n, NestedIntList::Node(v) => v.iter().map(sum).sum() } }
fn invariants(c: &CasmContractClass) -> Option<String> {
    for (kind, eps) in [("external", &c.entry_points_by_type.external), ("l1_handler", &c.entry_points_by_type.l1_handler), ("constructor", &c.entry_points_by_type.constructor)] {
        for w in eps.windows(2) { if !(w[0].selector < w[1].selector) { return Some(format!("{kind} entry points not strictly sorted by selector")); } }
        for e in eps.iter() { if e.offset >= c.bytecode.len() { return Some(format!("{kind} entry point offset {} outside the bytecode", e.offset)); } }
    }
    if let Some(w) = c.bytecode.iter().position(|w| w.value >= c.prime) { return Some(format!("bytecode word {w} is not a canonical field element")); }
    if sum(&c.get_bytecode_segment_lengths()) != c.bytecode.len() { return Some("bytecode segment lengths do not add up to the bytecode length".into()); }
    for w in c.hints.windows(2) { if !(w[0].0 < w[1].0) { return Some("hint offsets not strictly increasing".into()); } }
    if let Some((o, _)) = c.hints.last() { if *o >= c.bytecode.len() { return Some("hint offset outside the bytecode".into()); } }
    None
}

#[test]
fn __verif_n_c19_class_invariants() {
    std::panic::set_hook(Box::new(|_| {}));
    let mut cases = 0u64;
    let mut fail: Option<(String, String)> = None;
    let cls = classes();
    'o: for (name, class) in &cls {
        cases += 1;
        let base = match catch_unwind(AssertUnwindSafe(|| compile(class.clone()))) {
            Err(_) => { fail = Some((name.clone(), "panic while compiling the checked-in class".into())); break 'o; }
            Ok(Err(e)) => { fail = Some((name.clone(), format!("checked-in class rejected: {e}"))); break 'o; }
            Ok(Ok(c)) => c,
        };
        if let Some(w) = invariants(&base) { fail = Some((name.clone(), w)); break 'o; }
        if let Some(w) = entry_points_match_functions(class) { fail = Some((name.clone(), w)); break 'o; }
        match compile(class.clone()) { Ok(c2) if c2 == base => {}, _ => { fail = Some((name.clone(), "compiling the same class twice gives different results".into())); break 'o; } }
        // perturbations of each entry point list
        for kind in 0..3 {
            let len = match kind { 0 => class.entry_points_by_type.external.len(), 1 => class.entry_points_by_type.l1_handler.len(), _ => class.entry_points_by_type.constructor.len() };
            for i in 0..len.saturating_sub(1) { for dup in [false, true] {
                cases += 1;
                let mut c = class.clone();
                let list = match kind { 0 => &mut c.entry_points_by_type.external, 1 => &mut c.entry_points_by_type.l1_handler, _ => &mut c.entry_points_by_type.constructor };
                if dup { let s = list[i].selector.clone(); list[i + 1].selector = s; } else { list.swap(i, i + 1); }
                let what = format!("{name}: {} entry points, {} at positions {i},{}", ["external", "l1_handler", "constructor"][kind], if dup { "duplicate selector" } else { "swap" }, i + 1);
                match catch_unwind(AssertUnwindSafe(|| compile(c))) {
                    Err(_) => { fail = Some((what, "panic".into())); break 'o; }
                    Ok(Ok(_)) => { fail = Some((what, "a class whose entry points are not strictly increasing by selector was accepted".into())); break 'o; }
                    Ok(Err(_)) => {}
                }
            }}
        }
    }
    let bound = format!("{} checked-in contract classes x every adjacent swap / duplicate selector of each entry-point list", cls.len());
    match fail {
        None => println!("VERIF-N id=N/n_c19_class/class_invariants status=ok cases={cases} distinct={cases} bound=\"{bound}\""),
        Some((input, why)) => println!("VERIF-N id=N/n_c19_class/class_invariants status=fail key=\"{}\" input=\"{}\" detail=\"{}: {}\" bound=\"{bound}\"", why.replace('"', "'"), input.replace('"', "'"), input.replace('"', "'"), why.replace('"', "'")),
    }
}

/// Last conjunct of C19: "the class hashes are stable under JSON round-trips" (and the compiled
/// class does not depend on whether the published class went through JSON). For every checked-in
/// contract class k: parse(print(k)) == k, compile(parse(print(k))) == compile(k); for the compiled
/// class c, with and without pythonic hints: parse(print(c)) == c (compact and pretty JSON), both
/// class hashes of parse(print(c)) equal those of c, and the hashes do not depend on the hints.
#[test]
fn __verif_n_c19_class_json_hash() {
    std::panic::set_hook(Box::new(|_| {}));
    let mut cases = 0u64;
    let mut fail: Option<(String, String)> = None;
    let cls = classes();
    'o: for (name, class) in &cls {
        let r = catch_unwind(AssertUnwindSafe(|| -> Option<String> {
            let printed = serde_json::to_string(class).ok()?;
            let back: ContractClass = match serde_json::from_str(&printed) { Ok(b) => b, Err(e) => return Some(format!("printed contract class does not parse back: {e}")) };
            if &back != class { return Some("contract class changed by a JSON round trip".into()); }
            let base = compile(class.clone()).ok()?;
            match compile(back) { Ok(c) if c == base => {}, _ => return Some("the class compiled from the JSON round-tripped contract class differs".into()) }
            let extracted = class.extract_sierra_program(false).ok()?;
            let with_hints = CasmContractClass::from_contract_class(class.clone(), extracted, true, usize::MAX).ok()?;
            if with_hints.bytecode != base.bytecode || with_hints.entry_points_by_type != base.entry_points_by_type || with_hints.hints != base.hints { return Some("pythonic hints change the compiled code".into()); }
            let (h, lh) = (base.compiled_class_hash(), base.legacy_compiled_class_hash());
            if with_hints.compiled_class_hash() != h || with_hints.legacy_compiled_class_hash() != lh { return Some("the class hash depends on the pythonic hints".into()); }
            for c in [&base, &with_hints] {
                for pretty in [false, true] {
                    let s = if pretty { serde_json::to_string_pretty(c) } else { serde_json::to_string(c) }.ok()?;
                    let b: CasmContractClass = match serde_json::from_str(&s) { Ok(b) => b, Err(e) => return Some(format!("printed compiled class does not parse back: {e}")) };
                    if &b != c { return Some("compiled class changed by a JSON round trip".into()); }
                    if b.compiled_class_hash() != h || b.legacy_compiled_class_hash() != lh { return Some("class hash changed by a JSON round trip".into()); }
                    // printing again gives the same text (stable artifact)
                    let s2 = if pretty { serde_json::to_string_pretty(&b) } else { serde_json::to_string(&b) }.ok()?;
                    if s2 != s { return Some("printing the parsed compiled class gives a different JSON text".into()); }
                }
            }
            None
        }));
        cases += 1;
        match r { Ok(None) => {}, Ok(Some(w)) => { fail = Some((name.clone(), w)); break 'o; }, Err(_) => { fail = Some((name.clone(), "panic".into())); break 'o; } }
    }
    let bound = format!("{} checked-in contract classes x {{compact, pretty}} JSON x {{with, without}} pythonic hints", cls.len());
    match fail {
        None => println!("VERIF-N id=N/n_c19_class/json_hash_stable status=ok cases={} distinct={cases} bound=\"{bound}\"", cases * 4),
        Some((input, why)) => println!("VERIF-N id=N/n_c19_class/json_hash_stable status=fail key=\"{}\" input=\"{}\" detail=\"{}: {}\" bound=\"{bound}\"", why.replace('"', "'"), input.replace('"', "'"), input.replace('"', "'"), why.replace('"', "'")),
    }
}

/// First conjunct of C19: "the CASM class compiled from the published contract class (the
/// felt-serialized Sierra) equals the one compiled directly from the compiler's output". For every
/// checked-in contract with both its printed Sierra program X.sierra (the compiler's output) and its
/// published class X.contract_class.json:
///   A = compile(directly: parse(X.sierra), canonically renamed, never serialized)
///   B = compile(extract(ContractClass::new(that program)))      (serialized now, read back)
///   C = compile(extract(X.contract_class.json))                  (the published felts)
/// A == B == C.
#[test]
fn __verif_n_c19_class_published_equals_direct() {
    use cairo_lang_sierra::ProgramParser;
    use cairo_lang_sierra_generator::canonical_id_replacer::CanonicalReplacer;
    use cairo_lang_sierra_generator::replace_ids::SierraIdReplacer;
    use crate::contract_class::ExtractedSierraProgram;
    std::panic::set_hook(Box::new(|_| {}));
    let mut dir = std::path::PathBuf::from(env!("CARGO_MANIFEST_DIR"));
    dir.pop();
    dir.extend(["cairo-lang-starknet", "test_data"]);
    let mut cases = 0u64;
    let mut fail: Option<(String, String)> = None;
    let cls = classes();
    for (name, class) in &cls {
        let stem = name.trim_end_matches(".contract_class.json");
        // only the `<file>__<contract>` pairs are written by one and the same test of the repository
        // (same compilation); a bare `<file>.sierra` next to a `<file>.contract_class.json` is the
        // output of a different test with a different configuration - not "the compiler's output" of
        // that class
        if !stem.contains("__") { continue; }
        let Ok(text) = std::fs::read_to_string(dir.join(format!("{stem}.sierra"))) else { continue };
        let r = catch_unwind(AssertUnwindSafe(|| -> Option<String> {
            let parsed = match ProgramParser::new().parse(&text) { Ok(p) => p, Err(_) => return Some("the printed Sierra program does not parse".into()) };
            let direct = CanonicalReplacer::from_program(&parsed).apply(&parsed);
            let published = class.extract_sierra_program(false).ok()?;
            let (sv, cv) = (published.sierra_version, published.compiler_version);
            let c = CasmContractClass::from_contract_class(class.clone(), published, false, usize::MAX).ok()?;
            let a = match CasmContractClass::from_contract_class(class.clone(), ExtractedSierraProgram { program: direct.clone(), sierra_version: sv, compiler_version: cv }, false, usize::MAX) {
                Ok(a) => a, Err(e) => return Some(format!("the compiler's own output does not compile directly: {e}")) };
            if a != c { return Some("the class compiled from the published felts differs from the one compiled directly from the compiler's output".into()); }
            let again = match ContractClass::new(&direct, class.entry_points_by_type.clone(), None, Default::default()) { Ok(k) => k, Err(e) => return Some(format!("the compiler's output cannot be published: {e}")) };
            // publish under the versions the checked-in class was published with (the compilation is
            // version dependent: segmentation, solvers)
            let mut again = again;
            for i in 0..6.min(class.sierra_program.len()).min(again.sierra_program.len()) { again.sierra_program[i] = class.sierra_program[i].clone(); }
            let back = match again.extract_sierra_program(false) { Ok(x) => x, Err(e) => return Some(format!("the freshly published class cannot be read back: {e}")) };
            let b = match CasmContractClass::from_contract_class(again, back, false, usize::MAX) { Ok(b) => b, Err(e) => return Some(format!("the freshly published class does not compile: {e}")) };
            if a != b {
                let what = if a.bytecode != b.bytecode { "bytecode" } else if a.hints != b.hints { "hints" } else if a.entry_points_by_type != b.entry_points_by_type { "entry points" } else if a.bytecode_segment_lengths != b.bytecode_segment_lengths { "segment lengths" } else { "another field" };
                return Some(format!("publishing the compiler's output (felt serialization) and reading it back changes the compiled class ({what} differ)"));
            }
            None
        }));
        cases += 1;
        match r { Ok(None) => {}, Ok(Some(w)) => { fail = Some((stem.to_string(), w)); break; }, Err(_) => { fail = Some((stem.to_string(), "panic".into())); break; } }
    }
    let bound = format!("{cases} checked-in contracts with both the printed Sierra program and the published class");
    match fail {
        None if cases == 0 => println!("VERIF-N id=N/n_c19_class/published_equals_direct status=unknown"),
        None => println!("VERIF-N id=N/n_c19_class/published_equals_direct status=ok cases={cases} distinct={cases} bound=\"{bound}\""),
        Some((input, why)) => println!("VERIF-N id=N/n_c19_class/published_equals_direct status=fail key=\"{}\" input=\"{}\" detail=\"{}: {}\" bound=\"{bound}\"", why.replace('"', "'"), input.replace('"', "'"), input.replace('"', "'"), why.replace('"', "'")),
    }
}
