// N unit (C19), BOUNDED twin of the Verus unit `segmentation` (same contracts by enumeration, so a
// body rewrite that Verus cannot take verbatim still leaves a deciding check).
//   get_segment_lengths(starts, len): for sorted starts with last <= len: never panics, every length
//       > 0, at most one per start, and the lengths add up to len - starts[0].
//   FunctionInfo: a function [entry, end) is accepted (all visits Ok and finalize Ok) iff every
//       branch target of every statement lies in [entry, end).
#![allow(dead_code, unused_imports)]
use std::panic::{catch_unwind, AssertUnwindSafe};

use cairo_lang_sierra::ids::{ConcreteLibfuncId, VarId};
use cairo_lang_sierra::program::{BranchInfo, BranchTarget, Invocation, Statement, StatementIdx};

use super::{get_segment_lengths, FunctionInfo};

fn sorted_lists(max: usize, len: usize) -> Vec<Vec<usize>> {
    // all non-decreasing lists of length 1..=len over 0..=max
    let mut out: Vec<Vec<usize>> = (0..=max).map(|a| vec![a]).collect();
    let mut cur = out.clone();
    for _ in 1..len {
        let mut next = vec![];
        for l in &cur { for x in *l.last().unwrap()..=max { let mut m = l.clone(); m.push(x); next.push(m); } }
        out.extend(next.clone());
        cur = next;
    }
    out
}

#[test]
fn __verif_n_c19_segment_lengths() {
    std::panic::set_hook(Box::new(|_| {}));
    let mut cases = 0u64;
    let mut fail: Option<(String, String)> = None;
    'o: for starts in sorted_lists(5, 4) {
        for extra in [0usize, 1, 3] {
            cases += 1;
            let len = starts.last().unwrap() + extra;
            let s2 = starts.clone();
            let why = match catch_unwind(AssertUnwindSafe(|| get_segment_lengths(&s2, len))) {
                Err(_) => Some("panic".to_string()),
                Ok(r) => {
                    if r.iter().any(|x| *x == 0) { Some("a segment of length 0".into()) }
                    else if r.len() > starts.len() { Some("more segments than starts".into()) }
                    else if r.iter().sum::<usize>() != len - starts[0] { Some(format!("lengths {:?} add up to {}, expected {}", r, r.iter().sum::<usize>(), len - starts[0])) }
                    else { None }
                }
            };
            if let Some(w) = why { fail = Some((format!("get_segment_lengths({starts:?}, {len})"), w)); break 'o; }
        }
    }
    let bound = "all non-decreasing start lists of length 1..=4 over 0..=5, bytecode length last+{0,1,3}";
    match fail {
        None => println!("VERIF-N id=N/n_c19_segmentation_twin/segment_lengths status=ok cases={cases} distinct={cases} bound=\"{bound}\""),
        Some((input, why)) => println!("VERIF-N id=N/n_c19_segmentation_twin/segment_lengths status=fail key=\"{}\" input=\"{input}\" detail=\"{input}: {}\" bound=\"{bound}\"", why.replace('"', "'"), why.replace('"', "'")),
    }
}

fn stmt(targets: &[Option<usize>]) -> Statement {
    Statement::Invocation(Invocation {
        libfunc_id: ConcreteLibfuncId::new(0),
        args: vec![],
        branches: targets.iter().map(|t| BranchInfo { target: match t { None => BranchTarget::Fallthrough, Some(x) => BranchTarget::Statement(StatementIdx(*x)) }, results: vec![] }).collect(),
    })
}

#[test]
fn __verif_n_c19_function_info() {
    std::panic::set_hook(Box::new(|_| {}));
    let mut cases = 0u64;
    let mut fail: Option<(String, String)> = None;
    // functions [entry, end) with 1..=3 statements; each statement has 1 or 2 branches with targets in 0..=7 or fallthrough
    let tgt: Vec<Option<usize>> = std::iter::once(None).chain((0..8).map(Some)).collect();
    'o: for entry in [0usize, 2, 4] { for n in 1..=3usize {
        let end = entry + n;
        let mut choices: Vec<Vec<Vec<Option<usize>>>> = vec![vec![]];
        for _ in 0..n {
            let mut next = vec![];
            for c in &choices { for a in &tgt { let mut d = c.clone(); d.push(vec![*a]); next.push(d); } for a in tgt.iter().step_by(2) { for b in tgt.iter().step_by(3) { let mut d = c.clone(); d.push(vec![*a, *b]); next.push(d); } } }
            choices = next;
            if choices.len() > 6000 { choices.truncate(6000); }
        }
        for prog in choices {
            cases += 1;
            let mut want = true;
            for (k, brs) in prog.iter().enumerate() { for b in brs { let t = match b { None => entry + k + 1, Some(x) => *x }; if t < entry || t >= end { want = false; } } }
            let p2 = prog.clone();
            let r = catch_unwind(AssertUnwindSafe(|| {
                let mut fi = FunctionInfo::new(entry);
                for (k, brs) in p2.iter().enumerate() { if fi.visit_statement(entry + k, &stmt(brs)).is_err() { return false; } }
                fi.finalize(end).is_ok()
            }));
            let why = match r { Err(_) => Some("panic".to_string()), Ok(ok) if ok != want => Some(format!("accepted={ok}, every branch target inside [entry, end)={want}")), _ => None };
            if let Some(w) = why { fail = Some((format!("function [{entry}, {end}) with branch targets {prog:?}"), w)); break 'o; }
        }
    }}
    let bound = "functions of 1..=3 statements at entry {0,2,4}, 1-2 branches per statement, targets fallthrough or 0..=7";
    match fail {
        None => println!("VERIF-N id=N/n_c19_segmentation_twin/function_info status=ok cases={cases} distinct={cases} bound=\"{bound}\""),
        Some((input, why)) => println!("VERIF-N id=N/n_c19_segmentation_twin/function_info status=fail key=\"{}\" input=\"{input}\" detail=\"{input}: {}\" bound=\"{bound}\"", why.replace('"', "'"), why.replace('"', "'")),
    }
}
