// N unit (C19, C04, C14), BOUNDED stand-in for the entry-point validation closure and the entry
// cost check inside `CasmContractClass::from_contract_class_with_debug_info` (closures in a
// 250-line function: nothing to put under contract). The contract is taken from the property
// statements and evaluated on GENERATED contracts (C19's quantifier: "generated contracts with
// varied entry point sets and builtin use"):
//
//   a contract is generated from a signature S (a sequence of builtin-like types, followed by the
//   calldata span) and an optional use of a priced builtin that nothing in the function pays for;
//   its single function returns its builtins and Ok(calldata).
//
//   from_contract_class(k) never unwinds                                               (C14)
//   Ok(casm) ==> S = B ++ [GasBuiltin, System] with B strictly increasing in protocol order
//             && casm builtins == names of B  && offset == first instruction of the function   (C19)
//   Ok(casm) ==> the function's statically declared cost is exactly what the external caller
//                charges: {Const: ENTRY_POINT_COST}, no builtin token                     (C04)
//   every protocol-shaped signature without an unpaid use IS accepted (the sweep is not vacuous).
#![allow(dead_code, unused_imports)]
use std::fmt::Write;
use std::panic::{catch_unwind, AssertUnwindSafe};

use cairo_lang_sierra::extensions::gas::CostTokenType;
use cairo_lang_sierra::program::Program;
use cairo_lang_sierra::ProgramParser;
use cairo_lang_sierra_to_casm::metadata::{calc_metadata, MetadataComputationConfig};
use cairo_lang_sierra_type_size::ProgramRegistryInfo;
use num_bigint::BigUint;

use crate::casm_contract_class::{CasmContractClass, ENTRY_POINT_COST};
use crate::compiler_version::{current_compiler_version_id, current_sierra_version_id};
use crate::contract_class::{ContractClass, ContractEntryPoint, ContractEntryPoints, ExtractedSierraProgram};

pub const PROTOCOL: [(&str, &str); 9] = [("Pedersen", "pedersen"), ("RangeCheck", "range_check"), ("Bitwise", "bitwise"), ("EcOp", "ec_op"), ("Poseidon", "poseidon"),
    ("SegmentArena", "segment_arena"), ("RangeCheck96", "range_check96"), ("AddMod", "add_mod"), ("MulMod", "mul_mod")];
pub const ALPHABET: [&str; 11] = ["Pedersen", "RangeCheck", "Bitwise", "EcOp", "Poseidon", "SegmentArena", "RangeCheck96", "AddMod", "MulMod", "GasBuiltin", "System"];

#[derive(Clone, Copy, PartialEq, Eq, Debug)]
pub enum Use { None, Pedersen, Bitwise, Poseidon, WideImmediate }

/// The Sierra text of the generated contract (one function, index 0).
pub fn contract_sierra(sig: &[&str], unpaid: Use) -> String {
    contract_sierra_returning(sig, &(0..sig.len()).collect::<Vec<_>>(), unpaid)
}
/// Same, with the builtins RETURNED in the order `ret_order` (indices into `sig`): a function whose
/// builtin parameters and builtin return values are in different orders.
pub fn contract_sierra_returning(sig: &[&str], ret_order: &[usize], unpaid: Use) -> String {
    let mut s = String::new();
    s.push_str("type felt252 = felt252;\ntype u128 = u128;\ntype Arr = Array<felt252>;\ntype Snap = Snapshot<Arr>;\n");
    s.push_str("type Span = Struct<ut@core::array::Span::<core::felt252>, Snap>;\ntype TupleSpan = Struct<ut@Tuple, Span>;\n");
    s.push_str("type Panic = Struct<ut@core::panics::Panic>;\ntype TuplePanic = Struct<ut@Tuple, Panic, Arr>;\n");
    s.push_str("type PanicResult = Enum<ut@core::panics::PanicResult::<(core::array::Span::<core::felt252>,)>, TupleSpan, TuplePanic>;\n");
    let mut distinct: Vec<&str> = vec![];
    for b in sig { if !distinct.contains(b) { distinct.push(b); } }
    for b in &distinct { writeln!(s, "type {b} = {b};").unwrap(); }
    // P - 1 = 3618502788666131213697322783095070105623107215331596699973092056135872020480
    const LO: &str = "-3618502788666131213697322783095070105623107215331596699973092056135872020480";
    const MID_M1: &str = "-3618502788666131213697322783095070105623107215331596699973092056135872020353";
    const MID: &str = "-3618502788666131213697322783095070105623107215331596699973092056135872020352";
    const V: &str = "-3618502788666131213697322783095070105623107215331596699973092056135872020280";
    const HI: &str = "-3618502788666131213697322783095070105623107215331596699973092056135872020225";
    let wide = unpaid == Use::WideImmediate && sig.contains(&"RangeCheck");
    if wide {
        writeln!(s, "type BI = BoundedInt<{LO}, {HI}>;\ntype BILo = BoundedInt<{LO}, {MID_M1}>;\ntype BIHi = BoundedInt<{MID}, {HI}>;\ntype CBI = Const<BI, {V}>;").unwrap();
    }
    s.push_str("libfunc redeposit_gas = redeposit_gas;\nlibfunc felt_one = felt252_const<1>;\nlibfunc u128_one = u128_const<1>;\n");
    s.push_str("libfunc st_felt = store_temp<felt252>;\nlibfunc st_u128 = store_temp<u128>;\nlibfunc dup_felt = dup<felt252>;\nlibfunc dup_u128 = dup<u128>;\n");
    s.push_str("libfunc drop_felt = drop<felt252>;\nlibfunc drop_u128 = drop<u128>;\n");
    for (ty, decl) in [("Pedersen", "libfunc pedersen = pedersen;\n"), ("Bitwise", "libfunc bitwise = bitwise;\n"), ("Poseidon", "libfunc hades = hades_permutation;\n")] { if sig.contains(&ty) { s.push_str(decl); } }
    if wide {
        writeln!(s, "libfunc bi_const = const_as_immediate<CBI>;\nlibfunc st_bi = store_temp<BI>;\nlibfunc constrain = bounded_int_constrain<BI, {MID}>;\nlibfunc drop_lo = drop<BILo>;\nlibfunc drop_hi = drop<BIHi>;\nlibfunc align = branch_align;").unwrap();
    }
    s.push_str("libfunc mk_tuple = struct_construct<TupleSpan>;\nlibfunc mk_ok = enum_init<PanicResult, 0>;\nlibfunc st_res = store_temp<PanicResult>;\n");
    for b in &distinct { writeln!(s, "libfunc st_{b} = store_temp<{b}>;").unwrap(); }
    let k = sig.len();
    // current variable of each builtin parameter
    let mut cur: Vec<usize> = (0..k).collect();
    let mut next = 100usize;
    let mut fresh = || { next += 1; next };
    if let Some(g) = sig.iter().position(|b| *b == "GasBuiltin") {
        let v = fresh();
        writeln!(s, "redeposit_gas([{}]) -> ([{v}]);", cur[g]).unwrap();
        cur[g] = v;
    }
    match unpaid {
        Use::None => {}
        Use::Pedersen => if let Some(p) = sig.iter().position(|b| *b == "Pedersen") {
            let (c, d, p2, h) = (fresh(), fresh(), fresh(), fresh());
            writeln!(s, "felt_one() -> ([{c}]);\nst_felt([{c}]) -> ([{c}]);\ndup_felt([{c}]) -> ([{c}], [{d}]);\npedersen([{}], [{c}], [{d}]) -> ([{p2}], [{h}]);\nst_felt([{h}]) -> ([{h}]);\ndrop_felt([{h}]) -> ();", cur[p]).unwrap();
            cur[p] = p2;
        },
        Use::Bitwise => if let Some(p) = sig.iter().position(|b| *b == "Bitwise") {
            let (c, d, p2, x, y, z) = (fresh(), fresh(), fresh(), fresh(), fresh(), fresh());
            writeln!(s, "u128_one() -> ([{c}]);\nst_u128([{c}]) -> ([{c}]);\ndup_u128([{c}]) -> ([{c}], [{d}]);\nbitwise([{}], [{c}], [{d}]) -> ([{p2}], [{x}], [{y}], [{z}]);\ndrop_u128([{x}]) -> ();\ndrop_u128([{y}]) -> ();\ndrop_u128([{z}]) -> ();", cur[p]).unwrap();
            cur[p] = p2;
        },
        Use::WideImmediate => {}
        Use::Poseidon => if let Some(p) = sig.iter().position(|b| *b == "Poseidon") {
            let (c, d, e, p2, x, y, z) = (fresh(), fresh(), fresh(), fresh(), fresh(), fresh(), fresh());
            writeln!(s, "felt_one() -> ([{c}]);\nst_felt([{c}]) -> ([{c}]);\ndup_felt([{c}]) -> ([{c}], [{d}]);\ndup_felt([{c}]) -> ([{c}], [{e}]);\nhades([{}], [{c}], [{d}], [{e}]) -> ([{p2}], [{x}], [{y}], [{z}]);\ndrop_felt([{x}]) -> ();\ndrop_felt([{y}]) -> ();\ndrop_felt([{z}]) -> ();", cur[p]).unwrap();
            cur[p] = p2;
        },
    }
    let tail = |s: &mut String, cur: &Vec<usize>, a: usize, r: usize| {
        writeln!(s, "mk_tuple([{k}]) -> ([{a}]);\nmk_ok([{a}]) -> ([{r}]);").unwrap();
        for &i in ret_order { writeln!(s, "st_{}([{}]) -> ([{}]);", sig[i], cur[i], cur[i]).unwrap(); }
        writeln!(s, "st_res([{r}]) -> ([{r}]);").unwrap();
        let rets: Vec<String> = ret_order.iter().map(|&i| format!("[{}]", cur[i])).chain([format!("[{r}]")]).collect();
        writeln!(s, "return({});", rets.join(", ")).unwrap();
    };
    if wide {
        // a range split whose emitted code needs the immediate 2^128 - MID, which is >= PRIME: the published
        // bytecode has to hold it reduced
        let p = sig.iter().position(|b| *b == "RangeCheck").unwrap();
        let (c, rc2, lo, hi) = (fresh(), fresh(), fresh(), fresh());
        writeln!(s, "bi_const() -> ([{c}]);\nst_bi([{c}]) -> ([{c}]);\nconstrain([{}], [{c}]) {{ fallthrough([{rc2}], [{lo}]) WideHi([{rc2}], [{hi}]) }};", cur[p]).unwrap();
        cur[p] = rc2;
        writeln!(s, "align() -> ();\ndrop_lo([{lo}]) -> ();").unwrap();
        let (a, r) = (fresh(), fresh());
        tail(&mut s, &cur, a, r);
        writeln!(s, "WideHi:\nalign() -> ();\ndrop_hi([{hi}]) -> ();").unwrap();
        let (a, r) = (fresh(), fresh());
        tail(&mut s, &cur, a, r);
    } else {
        let (a, r) = (fresh(), fresh());
        tail(&mut s, &cur, a, r);
    }
    let params: Vec<String> = sig.iter().enumerate().map(|(i, b)| format!("[{i}]: {b}")).chain([format!("[{k}]: Span")]).collect();
    let ret_tys: Vec<String> = ret_order.iter().map(|&i| sig[i].to_string()).chain(["PanicResult".to_string()]).collect();
    writeln!(s, "gen::gen::__wrapper__f@0({}) -> ({});", params.join(", "), ret_tys.join(", ")).unwrap();
    s
}

pub fn class_of(program: Program, entry_points: ContractEntryPoints) -> (ContractClass, ExtractedSierraProgram) {
    (ContractClass { sierra_program: vec![], sierra_program_debug_info: None, contract_class_version: "0.1.0".into(), entry_points_by_type: entry_points, abi: None },
     ExtractedSierraProgram { program, sierra_version: current_sierra_version_id(), compiler_version: current_compiler_version_id() })
}
pub fn single_external() -> ContractEntryPoints {
    ContractEntryPoints { external: vec![ContractEntryPoint { selector: BigUint::from(0x1234u32), function_idx: 0 }], l1_handler: vec![], constructor: vec![] }
}

/// What the properties say about an ACCEPTED class, given the Sierra program it was compiled from.
/// Returns the first conjunct that does not hold.
pub fn accepted_class_defect(program: &Program, eps: &ContractEntryPoints, casm: &CasmContractClass, dbg: &cairo_lang_sierra_to_casm::compiler::CairoProgramDebugInfo) -> Option<(&'static str, String)> {
    let generic_of = |ty: &cairo_lang_sierra::ids::ConcreteTypeId| program.type_declarations.iter().find(|d| d.id == *ty).map(|d| d.long_id.generic_id.0.to_string());
    let info = ProgramRegistryInfo::new(program).ok();
    let mut entry_fns: Vec<(&str, cairo_lang_sierra::ids::FunctionId)> = vec![];
    for (kind, sierra_eps, casm_eps) in [("external", &eps.external, &casm.entry_points_by_type.external), ("l1_handler", &eps.l1_handler, &casm.entry_points_by_type.l1_handler), ("constructor", &eps.constructor, &casm.entry_points_by_type.constructor)] {
        if sierra_eps.len() != casm_eps.len() { return Some(("C19", format!("{kind}: {} published entry points, {} compiled", sierra_eps.len(), casm_eps.len()))); }
        for (s, c) in sierra_eps.iter().zip(casm_eps.iter()) {
            if s.selector != c.selector { return Some(("C19", format!("{kind}: selector changed by compilation"))); }
            let Some(f) = program.funcs.get(s.function_idx) else { return Some(("C19", format!("{kind}: entry point names function {} which does not exist", s.function_idx))); };
            let want_off = dbg.sierra_statement_info.get(f.entry_point.0).map(|i| i.start_offset);
            if Some(c.offset) != want_off { return Some(("C19", format!("{kind} entry point: offset {} is not the first instruction ({want_off:?}) of function {}", c.offset, f.id))); }
            // the function's parameters, by generic type name (both views of the signature must agree)
            let params: Vec<String> = f.params.iter().map(|p| generic_of(&p.ty).unwrap_or_default()).collect();
            let sig_params: Vec<String> = f.signature.param_types.iter().map(|t| generic_of(t).unwrap_or_default()).collect();
            if params != sig_params { return Some(("C19", format!("{kind} entry point: params {params:?} differ from signature.param_types {sig_params:?}"))); }
            // protocol: [builtins.., GasBuiltin, System, calldata]
            if params.len() < 3 { return Some(("C19", format!("{kind} entry point accepted with parameters {params:?}: gas, system and calldata are missing"))); }
            let (b, tail) = params.split_at(params.len() - 3);
            if tail[0] != "GasBuiltin" || tail[1] != "System" { return Some(("C19", format!("{kind} entry point accepted with parameters {params:?}: the two slots the OS fills with gas and the syscall pointer are not (GasBuiltin, System)"))); }
            let mut want: Vec<&str> = vec![];
            let mut last = None;
            for ty in b {
                let Some(pos) = PROTOCOL.iter().position(|(g, _)| g == ty) else { return Some(("C19", format!("{kind} entry point accepted with non-builtin parameter {ty}"))); };
                if last.is_some_and(|l| l >= pos) { return Some(("C19", format!("{kind} entry point accepted with builtin parameters {b:?}: not in protocol order"))); }
                last = Some(pos);
                want.push(PROTOCOL[pos].1);
            }
            if c.builtins.iter().map(|x| x.as_str()).collect::<Vec<_>>() != want { return Some(("C19", format!("{kind} entry point: declared builtins {:?} are not the function's builtin parameters {want:?}", c.builtins))); }
            entry_fns.push((kind, f.id.clone()));
        }
    }
    // C19: "every bytecode word is a canonical field element"
    if let Some(w) = casm.bytecode.iter().position(|w| w.value >= casm.prime) { return Some(("C19", format!("bytecode word #{w} = {:#x} is not a canonical field element", casm.bytecode[w].value))); }
    // C19: "the class hashes are stable under JSON round-trips"
    match serde_json::to_string(casm).ok().and_then(|js| serde_json::from_str::<CasmContractClass>(&js).ok()) {
        None => return Some(("C19", "the compiled class does not survive printing as JSON and loading it again".into())),
        Some(back) => {
            if back.compiled_class_hash() != casm.compiled_class_hash() || back.legacy_compiled_class_hash() != casm.legacy_compiled_class_hash() { return Some(("C19", format!("the class hash changes by a JSON round trip of the compiled class (bytecode segment lengths {:?} -> {:?})", casm.bytecode_segment_lengths, back.bytecode_segment_lengths))); }
            if &back != casm { return Some(("C19", "the compiled class changes by a JSON round trip".into())); }
        }
    }
    // C04: the statically declared entry cost is exactly what the external caller charges
    if let Some(info) = &info {
        let config = MetadataComputationConfig {
            function_set_costs: entry_fns.iter().map(|(_, id)| (id.clone(), [(CostTokenType::Const, ENTRY_POINT_COST)].into_iter().collect())).collect(),
            linear_gas_solver: true, linear_ap_change_solver: true, skip_non_linear_solver_comparisons: false, compute_runtime_costs: false };
        if let Ok(md) = calc_metadata(program, info, config) {
            for (kind, id) in &entry_fns {
                let Some(costs) = md.gas_info.function_costs.get(id) else { continue };
                for (token, v) in costs.iter() {
                    let want = if *token == CostTokenType::Const { ENTRY_POINT_COST as i64 } else { 0 };
                    if *v != want { return Some(("C04", format!("{kind} entry point {id} accepted although its declared cost has {token:?}: {v}; the external caller charges {want} for it (Const: {ENTRY_POINT_COST} only)"))); }
                }
                if costs.get(&CostTokenType::Const).is_none() { return Some(("C04", format!("{kind} entry point {id} accepted with no declared Const cost"))); }
            }
        }
    }
    None
}

pub enum Outcome { Panic(String), Rejected(String), Accepted, Defect(&'static str, String) }
pub fn judge(program: &Program, eps: ContractEntryPoints) -> Outcome { judge_as(program, eps, None) }
/// `minor`: the class claims Sierra version 1.<minor>.0 (versions below 1.4.0 select the equation solvers).
pub fn judge_as(program: &Program, eps: ContractEntryPoints, minor: Option<u32>) -> Outcome {
    // the untrusted path, exactly: publish (felt-serialize), read back, compile
    let msg = |e: Box<dyn std::any::Any + Send>| if let Some(s) = e.downcast_ref::<String>() { s.clone() } else if let Some(s) = e.downcast_ref::<&str>() { s.to_string() } else { "panic".into() };
    let class = match catch_unwind(AssertUnwindSafe(|| ContractClass::new(program, eps.clone(), None, Default::default()))) {
        Err(e) => return Outcome::Panic(format!("ContractClass::new: {}", msg(e))),
        Ok(Err(e)) => return Outcome::Rejected(format!("not serializable: {e}")),
        Ok(Ok(c)) => c,
    };
    let mut class = class;
    if let Some(m) = minor { if class.sierra_program.len() >= 3 { class.sierra_program[1].value = BigUint::from(m); class.sierra_program[2].value = BigUint::from(0u8); } }
    let extracted = match catch_unwind(AssertUnwindSafe(|| class.extract_sierra_program(false))) {
        Err(e) => return Outcome::Panic(format!("extract_sierra_program: {}", msg(e))),
        Ok(Err(e)) => return Outcome::Rejected(format!("not deserializable: {e}")),
        Ok(Ok(x)) => x,
    };
    let seen = extracted.program.clone();
    match catch_unwind(AssertUnwindSafe(|| CasmContractClass::from_contract_class_with_debug_info(class, extracted, false, usize::MAX))) {
        Err(e) => Outcome::Panic(msg(e)),
        Ok(Err(e)) => Outcome::Rejected(format!("{e}")),
        Ok(Ok((casm, dbg))) => match accepted_class_defect(&seen, &eps, &casm, &dbg) { None => Outcome::Accepted, Some((p, w)) => Outcome::Defect(p, w) },
    }
}
/// Parses generated Sierra text and renames ids canonically (what the compiler publishes).
pub fn parse_canonical(text: &str) -> Option<Program> {
    use cairo_lang_sierra_generator::canonical_id_replacer::CanonicalReplacer;
    use cairo_lang_sierra_generator::replace_ids::SierraIdReplacer;
    let p = ProgramParser::new().parse(text).ok()?;
    Some(CanonicalReplacer::from_program(&p).apply(&p))
}

fn is_protocol_shaped(sig: &[&str]) -> bool {
    if sig.len() < 2 || sig[sig.len() - 2] != "GasBuiltin" || sig[sig.len() - 1] != "System" { return false; }
    let mut last = None;
    for b in &sig[..sig.len() - 2] {
        let Some(pos) = PROTOCOL.iter().position(|(g, _)| g == b) else { return false };
        if last.is_some_and(|l| l >= pos) { return false; }
        last = Some(pos);
    }
    true
}

fn signatures() -> Vec<Vec<&'static str>> {
    let thorough = std::env::var("VERIF_TIER").map(|t| t == "thorough").unwrap_or(false);
    let mut out: Vec<Vec<&'static str>> = vec![];
    // every sequence over the 11 builtin-like types up to length 3 (4 in thorough)
    let maxlen = if thorough { 4 } else { 3 };
    let mut level: Vec<Vec<&'static str>> = vec![vec![]];
    for _ in 0..=maxlen {
        out.extend(level.iter().cloned());
        let mut nxt = vec![];
        for s in &level { for a in ALPHABET { let mut t = s.clone(); t.push(a); nxt.push(t); } }
        level = nxt;
    }
    // every protocol-shaped signature (2^9), and each with one adjacent swap / one duplicated / one dropped element
    for mask in 0u32..512 {
        let mut s: Vec<&'static str> = (0..9).filter(|i| mask >> i & 1 == 1).map(|i| PROTOCOL[i].0).collect();
        s.extend(["GasBuiltin", "System"]);
        out.push(s.clone());
        if thorough || mask % 7 == 0 {
            for i in 0..s.len() {
                if i + 1 < s.len() { let mut t = s.clone(); t.swap(i, i + 1); out.push(t); }
                let mut t = s.clone(); t.remove(i); out.push(t);
                let mut t = s.clone(); t.insert(i, s[i]); out.push(t);
            }
        }
    }
    out.sort();
    out.dedup();
    out
}

#[test]
fn __verif_n_class_gen_signatures() {
    std::panic::set_hook(Box::new(|_| {}));
    let sigs = signatures();
    let (mut cases, mut accepted, mut rejected) = (0u64, 0u64, 0u64);
    // first failure per (property, kind)
    let mut fails: std::collections::BTreeMap<(&'static str, String), (String, String)> = Default::default();
    for sig in &sigs {
        for unpaid in [Use::None, Use::Pedersen, Use::Bitwise, Use::Poseidon, Use::WideImmediate] {
            let needs = match unpaid { Use::None => None, Use::Pedersen => Some("Pedersen"), Use::Bitwise => Some("Bitwise"), Use::Poseidon => Some("Poseidon"), Use::WideImmediate => Some("RangeCheck") };
            if needs.is_some_and(|n| !sig.contains(&n)) { continue; }
            let text = contract_sierra(sig, unpaid);
            let Some(program) = parse_canonical(&text) else {
                fails.entry(("C19", "harness".into())).or_insert((format!("{sig:?} {unpaid:?}"), format!("generated Sierra does not parse (harness): {}", text.replace('\n', " | "))));
                continue;
            };
            cases += 1;
            let input = format!("generated contract: entry point parameters {sig:?} + calldata, unpaid builtin use {unpaid:?}");
            match judge(&program, single_external()) {
                Outcome::Panic(m) => { fails.entry(("C14", m.chars().take(60).collect())).or_insert((input, format!("from_contract_class panicked: {m}"))); }
                Outcome::Defect(p, w) => { fails.entry((p, w.chars().take(50).collect())).or_insert((input, w)); }
                Outcome::Accepted => {
                    accepted += 1;
                    if !is_protocol_shaped(sig) { fails.entry(("C19", "shape".into())).or_insert((input.clone(), "accepted although the parameters are not [builtins in protocol order.., GasBuiltin, System, calldata]".into())); }
                    if unpaid != Use::None && unpaid != Use::WideImmediate { fails.entry(("C04", "unpaid".into())).or_insert((input, "accepted although the entry point uses a priced builtin that neither the caller's fixed charge nor a withdraw_gas pays for".into())); }
                }
                Outcome::Rejected(e) => {
                    rejected += 1;
                    if is_protocol_shaped(sig) && (unpaid == Use::None || unpaid == Use::WideImmediate) { fails.entry(("C19", "complete".into())).or_insert((input, format!("a protocol-shaped entry point that pays for everything it uses was rejected: {e}"))); }
                }
            }
        }
    }
    // builtin parameters in one order, builtin return values in another: the parameters of every
    // permuted signature, the return values in protocol order ("its builtin list is exactly the
    // function's builtin PARAMETERS in protocol order")
    let rank = |b: &str| PROTOCOL.iter().position(|(g, _)| *g == b).unwrap_or(if b == "GasBuiltin" { 100 } else { 101 });
    for sig in &sigs {
        if is_protocol_shaped(sig) { continue; }
        let mut ret_order: Vec<usize> = (0..sig.len()).collect();
        ret_order.sort_by_key(|&i| rank(sig[i]));
        let sorted: Vec<&str> = ret_order.iter().map(|&i| sig[i]).collect();
        if !is_protocol_shaped(&sorted) { continue; }
        let text = contract_sierra_returning(sig, &ret_order, Use::None);
        let Some(program) = parse_canonical(&text) else {
            fails.entry(("C19", "harness".into())).or_insert((format!("{sig:?} returning {sorted:?}"), format!("generated Sierra does not parse (harness): {}", text.replace('\n', " | "))));
            continue;
        };
        cases += 1;
        let input = format!("generated contract: entry point parameters {sig:?} + calldata, builtins returned in the order {sorted:?}");
        match judge(&program, single_external()) {
            Outcome::Panic(m) => { fails.entry(("C14", m.chars().take(60).collect())).or_insert((input, format!("from_contract_class panicked: {m}"))); }
            Outcome::Defect(p, w) => { fails.entry((p, w.chars().take(50).collect())).or_insert((input, w)); }
            Outcome::Accepted => { accepted += 1; fails.entry(("C19", "shape".into())).or_insert((input, "accepted although the parameters are not [builtins in protocol order.., GasBuiltin, System, calldata]".into())); }
            Outcome::Rejected(_) => rejected += 1,
        }
    }
    // the smallest contracts: no entry point at all (a storage-only contract: an empty program), and
    // a program with functions none of which is an entry point - both are valid and must compile
    for (what, text) in [("a contract without entry points and without code", String::new()), ("a contract with one function that is not an entry point", contract_sierra(&["GasBuiltin", "System"], Use::None))] {
        cases += 1;
        let Some(program) = (if text.is_empty() { Some(Program { type_declarations: vec![], libfunc_declarations: vec![], statements: vec![], funcs: vec![] }) } else { parse_canonical(&text) }) else { continue };
        let none = ContractEntryPoints { external: vec![], l1_handler: vec![], constructor: vec![] };
        match judge(&program, none) {
            Outcome::Panic(m) => { fails.entry(("C14", m.chars().take(60).collect())).or_insert((what.to_string(), format!("from_contract_class panicked: {m}"))); }
            Outcome::Defect(p, w) => { fails.entry((p, w.chars().take(50).collect())).or_insert((what.to_string(), w)); }
            Outcome::Accepted => accepted += 1,
            Outcome::Rejected(e) => { fails.entry(("C19", "no entry points".into())).or_insert((what.to_string(), format!("{what} is a valid class but was rejected: {e}"))); }
        }
    }
    let bound = format!("{} signatures (all sequences over 11 builtin-like types up to length {}, all 512 protocol-shaped ones and their one-element perturbations) x unpaid use of none/pedersen/bitwise/poseidon; {accepted} accepted, {rejected} rejected",
        sigs.len(), if std::env::var("VERIF_TIER").map(|t| t == "thorough").unwrap_or(false) { 4 } else { 3 });
    for prop in ["C14", "C19", "C04"] {
        let mine: Vec<_> = fails.iter().filter(|((p, _), _)| *p == prop).collect();
        let id = match prop { "C14" => "total", "C19" => "signature_is_protocol", _ => "entry_cost_is_caller_charge" };
        for (n, ((_, key), (input, why))) in mine.iter().enumerate() {
            println!("VERIF-N id=N/n_class_gen/{id}:{} props={prop} status=fail key=\"{}\" input=\"{}\" detail=\"{}\" bound=\"{}\"", n + 1, key.replace('"', "'"), input.replace('"', "'"), why.replace('"', "'").replace('\n', " "), bound);
        }
        if mine.is_empty() {
            if accepted == 0 { println!("VERIF-N id=N/n_class_gen/{id} props={prop} status=fail key=\"vacuous\" input=\"all generated contracts\" detail=\"no generated contract was accepted\" bound=\"{bound}\""); }
            else { println!("VERIF-N id=N/n_class_gen/{id} props={prop} status=ok cases={cases} distinct={accepted} bound=\"{bound}\""); }
        }
    }
}

#[path = "../cairo-lang-sierra-to-casm/sierra_mutants.rs"]
mod sierra_mutants;

/// Single structured mutations (the C14 mutation space) of valid contracts, through the whole of
/// from_contract_class: never a panic, and whatever is still accepted satisfies the conjuncts above.
#[test]
fn __verif_n_class_gen_mutants() {
    std::panic::set_hook(Box::new(|_| {}));
    let thorough = std::env::var("VERIF_TIER").map(|t| t == "thorough").unwrap_or(false);
    let mut bases: Vec<(String, Program, ContractEntryPoints)> = vec![];
    for (sig, u) in [(vec!["GasBuiltin", "System"], Use::None), (vec!["Pedersen", "RangeCheck", "GasBuiltin", "System"], Use::None), (vec!["Pedersen", "GasBuiltin", "System"], Use::Pedersen)] {
        bases.push((format!("generated {sig:?} {u:?}"), parse_canonical(&contract_sierra(&sig, u)).unwrap(), single_external()));
    }
    let mut dir = std::path::PathBuf::from(env!("CARGO_MANIFEST_DIR"));
    dir.pop();
    dir.extend(["cairo-lang-starknet", "test_data"]);
    let names: &[&str] = if thorough { &["minimal_contract__minimal_contract", "hello_starknet__hello_starknet", "test_contract__test_contract", "with_erc20__erc20_contract"] } else { &["minimal_contract__minimal_contract", "hello_starknet__hello_starknet"] };
    for n in names {
        let Ok(f) = std::fs::File::open(dir.join(format!("{n}.contract_class.json"))) else { continue };
        let Ok(class) = serde_json::from_reader::<_, ContractClass>(std::io::BufReader::new(f)) else { continue };
        let Ok(ex) = class.extract_sierra_program(false) else { continue };
        bases.push((n.to_string(), ex.program, class.entry_points_by_type.clone()));
    }
    let (mut cases, mut accepted) = (0u64, 0u64);
    let mut seed = 0x2545F4914F6CDD1Du64;
    let mut fails: std::collections::BTreeMap<(&'static str, String), (String, String)> = Default::default();
    for (name, program, eps) in &bases {
        // the unmutated contract itself must be judged consistently (checked-in ones: accepted)
        match judge(program, eps.clone()) {
            Outcome::Panic(m) => { fails.entry(("C14", m.chars().take(60).collect())).or_insert((name.clone(), format!("from_contract_class panicked: {m}"))); }
            Outcome::Defect(p, w) => { fails.entry((p, w.chars().take(50).collect())).or_insert((name.clone(), w)); }
            _ => {}
        }
        let n = sierra_mutants::count_mutants(program);
        let cap = if thorough { 6000 } else { 1200 };
        let ms = if n <= cap { sierra_mutants::mutants(program) } else {
            let mut pick = std::collections::HashSet::new();
            while pick.len() < cap { seed = seed.wrapping_mul(6364136223846793005).wrapping_add(1442695040888963407); pick.insert((seed >> 33) as usize % n); }
            sierra_mutants::mutants_at(program, &|i| pick.contains(&i))
        };
        for (what, q) in ms {
            cases += 1;
            let input = format!("{name}: {what}");
            let eps = eps.clone();
            // every mutant twice: as a current-version class and as a 1.3.0 class (equation solvers)
            for minor in [None, Some(3u32)] {
            let (q, eps, input) = (q.clone(), eps.clone(), if minor.is_some() { format!("{input} [published as Sierra 1.3.0]") } else { input.clone() });
            let h = std::thread::Builder::new().stack_size(64 << 20).spawn(move || judge_as(&q, eps, minor)).unwrap();
            match h.join() {
                Ok(Outcome::Panic(m)) => { fails.entry(("C14", m.chars().take(60).collect())).or_insert((input, format!("from_contract_class panicked: {m}"))); }
                Ok(Outcome::Defect(p, w)) => { fails.entry((p, w.chars().take(50).collect())).or_insert((input, w)); }
                Ok(Outcome::Accepted) => accepted += 1,
                Ok(Outcome::Rejected(_)) => {}
                Err(_) => { fails.entry(("C14", "thread".into())).or_insert((input, "thread died".into())); }
            }
            }
        }
    }
    let bound = format!("{cases} single structured mutations of {} valid contracts (3 generated, {} checked-in); {accepted} mutants still accepted", bases.len(), bases.len() - 3);
    for prop in ["C14", "C19", "C04"] {
        let mine: Vec<_> = fails.iter().filter(|((p, _), _)| *p == prop).collect();
        let id = match prop { "C14" => "mutants_total", "C19" => "mutants_signature_is_protocol", _ => "mutants_entry_cost_is_caller_charge" };
        for (n, ((_, key), (input, why))) in mine.iter().enumerate() {
            println!("VERIF-N id=N/n_class_gen/{id}:{} props={prop} status=fail key=\"{}\" input=\"{}\" detail=\"{}\" bound=\"{}\"", n + 1, key.replace('"', "'"), input.replace('"', "'"), why.replace('"', "'").replace('\n', " "), bound);
        }
        if mine.is_empty() { println!("VERIF-N id=N/n_class_gen/{id} props={prop} status=ok cases={cases} distinct={} bound=\"{bound}\"", accepted.max(1)); }
    }
}
