// N unit (C18 + C14), BOUNDED stand-in: the two codecs of felt252_serde.rs whose bodies go through
// BigInt sign / shift code, which CBMC cannot finish (DESIGN 3: GenericArg::Value round trip over i64 gave
// no result in 4 min), plus the multi-digit GenericArg::UserType ids that the Kani unit
// felt_serde_scalar leaves out. Injected under #[cfg(test)] as a child module of felt252_serde.rs
// (the trait Felt252Serde and the struct ConcreteTypeInfo are private). Every call of real code runs
// inside catch_unwind; a panic is a failed C14 obligation.
//
// Domains (DESIGN 4/C18 and 4/C14):
//   M  = {0, 1, 2^63, 2^64-1, 2^64, 2^128, P-1, 2^256-1}        magnitudes, P = 2^251 + 17*2^192 + 1
//   V  = M u {-m : m in M, m != 0}                               GenericArg::Value / BigInt values
//   header words: len + (flags_word << 128) for len in {0, 1, 2, 2^32, 2^64-1}, all 16 flag patterns with
//   and without the marker bit 63, the empty flags word, and oversize words (len part >= 2^64, flags part
//   >= 2^64, i.e. word >= 2^192, P-1, 2^256-1).
// Nothing here is counted as proved.
#![allow(dead_code, unused_imports)]
use std::panic::{AssertUnwindSafe, catch_unwind};

use cairo_lang_sierra::ids::{ConcreteTypeId, GenericTypeId, UserTypeId};
use cairo_lang_sierra::program::{ConcreteTypeLongId, DeclaredTypeInfo, GenericArg};
use cairo_lang_utils::bigint::BigUintAsHex;
use num_bigint::{BigInt, BigUint, Sign};
use num_traits::{One, Zero};

use super::{ConcreteTypeInfo, Felt252Serde, Felt252SerdeError};

const UNIT: &str = "n_felt_serde_bigint";

fn pow2(k: u32) -> BigUint { BigUint::one() << k }
fn prime_minus_1() -> BigUint { pow2(251) + (BigUint::from(17u8) << 192u32) }
fn magnitudes() -> Vec<BigUint> {
    vec![BigUint::zero(), BigUint::one(), pow2(63), pow2(64) - 1u8, pow2(64), pow2(128), prime_minus_1(), pow2(256) - 1u8]
}
fn values() -> Vec<BigInt> {
    let mut v = vec![];
    for m in magnitudes() {
        v.push(BigInt::from(m.clone()));
        if !m.is_zero() { v.push(BigInt::from_biguint(Sign::Minus, m)); }
    }
    v
}
fn hex(v: BigUint) -> BigUintAsHex { BigUintAsHex { value: v } }
fn invalid<T>(r: &Result<T, Felt252SerdeError>) -> bool { matches!(r, Err(Felt252SerdeError::InvalidInputForDeserialization)) }

/// Collects the verdict of one obligation and prints the VERIF-N line.
struct Ob { id: &'static str, props: &'static str, bound: &'static str, cases: u64, fail: Option<(String, String, String)> }
impl Ob {
    fn new(id: &'static str, props: &'static str, bound: &'static str) -> Self {
        std::panic::set_hook(Box::new(|_| {}));
        Ob { id, props, bound, cases: 0, fail: None }
    }
    /// `f` returns Err(key, detail) when the contract is violated; a panic inside is a violation too.
    fn case(&mut self, input: String, f: impl FnOnce() -> Result<(), (&'static str, String)>) {
        if self.fail.is_some() { return; }
        self.cases += 1;
        match catch_unwind(AssertUnwindSafe(f)) {
            Ok(Ok(())) => {}
            Ok(Err((key, detail))) => self.fail = Some((key.to_string(), input, detail)),
            Err(_) => self.fail = Some(("C14 no panic".to_string(), input, "the real code panicked".to_string())),
        }
    }
    fn done(self) {
        match self.fail {
            None => println!("VERIF-N id=N/{}/{} status=ok cases={} distinct={} props={} bound=\"{}\"", UNIT, self.id, self.cases, self.cases, self.props, self.bound),
            Some((key, input, detail)) => println!(
                "VERIF-N id=N/{}/{} status=fail key=\"{}\" input=\"{}\" detail=\"{}: {}\" props={} bound=\"{}\"",
                UNIT, self.id, key, input.replace('"', "'"), key, detail.replace('"', "'"), self.props, self.bound
            ),
        }
    }
}
macro_rules! need {
    ($cond:expr, $key:literal) => { if !($cond) { return Err(($key, format!("violated: {}", stringify!($cond)))); } };
    ($cond:expr, $key:literal, $($arg:tt)*) => { if !($cond) { return Err(($key, format!($($arg)*))); } };
}

/// Serializes behind a two-felt prefix, checks the frame, returns the appended felts.
fn ser_framed<T: Felt252Serde>(x: &T) -> Result<Result<Vec<BigUint>, Felt252SerdeError>, (&'static str, String)> {
    let prefix = vec![hex(prime_minus_1()), hex(BigUint::from(7u8))];
    let mut out = prefix.clone();
    let r = x.serialize(&mut out);
    need!(out.len() >= 2 && out[..2] == prefix[..], "C18 serialize leaves the prefix untouched");
    match r {
        Ok(()) => Ok(Ok(out[2..].iter().map(|h| h.value.clone()).collect())),
        Err(e) => {
            need!(out.len() == 2, "C18 a failed serialize appends nothing");
            Ok(Err(e))
        }
    }
}
/// Deserializes from `felts` followed by `extra` more felts; returns the result and the number consumed.
fn deser<T: Felt252Serde>(felts: &[BigUint], extra: usize) -> (Result<T, Felt252SerdeError>, usize) {
    let mut all: Vec<BigUint> = felts.to_vec();
    for i in 0..extra { all.push(BigUint::from(1000u32 + i as u32)); }
    let mut it = all.iter();
    let y = T::deserialize(&mut it);
    (y, all.len() - it.len())
}

const BOUND_V: &str = "values {0, +-1, +-2^63, +-(2^64-1), +-2^64, +-2^128, +-(P-1), +-(2^256-1)}";

// ---------------------------------------------------------------- BigInt codec
#[test]
fn __verif_n_bigint_codec() {
    let mut ob = Ob::new("bigint_codec", "C18,C14", BOUND_V);
    for v in values() {
        ob.case(format!("BigInt {}", v), || {
            let s = ser_framed(&v)?;
            if v.sign() == Sign::Minus {
                need!(matches!(s, Err(Felt252SerdeError::BigIntOutOfBounds)), "C18 BigInt::serialize of a negative value is Err(BigIntOutOfBounds)");
                return Ok(());
            }
            let felts = match s { Ok(f) => f, Err(e) => return Err(("C18 BigInt::serialize of a non-negative value succeeds", format!("{:?}", e))) };
            need!(felts.len() == 1 && &felts[0] == v.magnitude(), "C18 BigInt::serialize appends exactly the magnitude");
            for extra in 0..3 {
                let (y, consumed) = deser::<BigInt>(&felts, extra);
                need!(consumed == 1, "C14 BigInt::deserialize consumes exactly one felt");
                need!(y.as_ref().ok() == Some(&v), "C18 BigInt: deserialize(serialize(v)) == v", "got {:?}", y);
            }
            Ok(())
        });
    }
    ob.case("BigInt from an exhausted iterator".into(), || {
        let (y, consumed) = deser::<BigInt>(&[], 0);
        need!(invalid(&y) && consumed == 0, "C14 BigInt::deserialize on an exhausted iterator is Err(InvalidInputForDeserialization)");
        Ok(())
    });
    ob.done();
}

// ---------------------------------------------------------------- GenericArg::Value (tags 2 and 5)
#[test]
fn __verif_n_generic_arg_value_roundtrip() {
    let mut ob = Ob::new("generic_arg_value_roundtrip", "C18", BOUND_V);
    for v in values() {
        ob.case(format!("GenericArg::Value({})", v), || {
            let x = GenericArg::Value(v.clone());
            let felts = match ser_framed(&x)? { Ok(f) => f, Err(e) => return Err(("C18 GenericArg::Value serialize succeeds", format!("{:?}", e))) };
            need!(felts.len() == 2, "C18 GenericArg::Value serialize appends exactly two felts (tag, magnitude)");
            let want_tag = if v.sign() == Sign::Minus { 5u8 } else { 2u8 };
            need!(felts[0] == BigUint::from(want_tag), "C18 GenericArg tag table: Value >= 0 uses tag 2, Value < 0 uses tag 5", "tag {} for {}", felts[0], v);
            need!(&felts[1] == v.magnitude(), "C18 GenericArg::Value: second felt is the magnitude");
            for extra in 0..3 {
                let (y, consumed) = deser::<GenericArg>(&felts, extra);
                need!(consumed == 2, "C18 GenericArg::Value: deserialize consumes exactly the two felts");
                need!(y.as_ref().ok() == Some(&x), "C18 GenericArg::Value: deserialize(serialize(x)) == x", "got {:?}", y);
            }
            Ok(())
        });
    }
    ob.done();
}
#[test]
fn __verif_n_generic_arg_value_total() {
    let mut ob = Ob::new("generic_arg_value_total", "C14,C18", "tags 2 and 5, magnitudes {0, 1, 2^63, 2^64-1, 2^64, 2^128, P-1, 2^256-1}, 0..=2 felts after the tag");
    for tag in [2u8, 5] {
        for m in magnitudes() {
            ob.case(format!("tag {} magnitude {}", tag, m), || {
                let felts = [BigUint::from(tag), m.clone()];
                let (y, consumed) = deser::<GenericArg>(&felts, 1);
                need!(consumed == 2, "C14 GenericArg::Value: consumes tag and magnitude only");
                let want = if tag == 2 { BigInt::from(m.clone()) } else { -BigInt::from(m.clone()) };
                need!(y.as_ref().ok() == Some(&GenericArg::Value(want)), "C18 GenericArg tag table: tag 2 decodes Value(m), tag 5 decodes Value(-m)", "got {:?}", y);
                Ok(())
            });
        }
        ob.case(format!("tag {} without magnitude", tag), || {
            let (y, consumed) = deser::<GenericArg>(&[BigUint::from(tag)], 0);
            need!(invalid(&y) && consumed == 1, "C14 GenericArg::Value: missing magnitude is Err(InvalidInputForDeserialization)");
            Ok(())
        });
    }
    ob.done();
}

// ---------------------------------------------------------------- GenericArg::UserType with multi-digit ids
#[test]
fn __verif_n_generic_arg_user_type_wide() {
    let mut ob = Ob::new("generic_arg_user_type_wide", "C18", "user type ids {0, 1, 2^63, 2^64-1, 2^64, 2^128, P-1, 2^256-1}");
    for m in magnitudes() {
        ob.case(format!("GenericArg::UserType(id {})", m), || {
            let x = GenericArg::UserType(UserTypeId { id: m.clone(), debug_name: Some("dbg".into()) });
            let felts = match ser_framed(&x)? { Ok(f) => f, Err(e) => return Err(("C18 GenericArg::UserType serialize succeeds", format!("{:?}", e))) };
            need!(felts.len() == 2 && felts[0].is_zero() && felts[1] == m, "C18 GenericArg::UserType: serialize appends tag 0 and the id");
            let (y, consumed) = deser::<GenericArg>(&felts, 1);
            need!(consumed == 2, "C18 GenericArg::UserType: deserialize consumes exactly the two felts");
            match y {
                Ok(GenericArg::UserType(u)) => need!(u.id == m && u.debug_name.is_none(), "C18 GenericArg::UserType: same id, debug_name dropped"),
                other => return Err(("C18 GenericArg::UserType: variant preserved", format!("got {:?}", other))),
            }
            Ok(())
        });
    }
    ob.done();
}

// ---------------------------------------------------------------- ConcreteTypeInfo header word
const MARKER: u64 = 1 << 63;
fn info_of(bits: u64) -> DeclaredTypeInfo {
    DeclaredTypeInfo { storable: bits & 1 != 0, droppable: bits & 2 != 0, duplicatable: bits & 4 != 0, zero_sized: bits & 8 != 0 }
}
fn header(len: &BigUint, flags_word: &BigUint) -> BigUint { len + (flags_word << 128u32) }
fn generic_id_felt() -> BigUint { BigUint::from_bytes_be(b"Struct") }
fn args_of(len: usize) -> Vec<GenericArg> { (0..len).map(|i| GenericArg::Type(ConcreteTypeId::new(i as u64 + 10))).collect() }

#[test]
fn __verif_n_type_info_header_encode() {
    let mut ob = Ob::new("type_info_header_encode", "C18", "generic_args.len() in {0, 1, 2, 5}; declared_type_info None or any of the 16 flag patterns");
    for len in [0usize, 1, 2, 5] {
        for pat in 0..17u64 {
            let decl = if pat == 16 { None } else { Some(info_of(pat)) };
            ob.case(format!("ConcreteTypeInfo len {} declared_type_info {:?}", len, decl), || {
                let x = ConcreteTypeInfo {
                    long_id: ConcreteTypeLongId { generic_id: GenericTypeId::from("Struct"), generic_args: args_of(len) },
                    declared_type_info: decl.clone(),
                };
                let felts = match ser_framed(&x)? { Ok(f) => f, Err(e) => return Err(("C18 ConcreteTypeInfo serialize succeeds", format!("{:?}", e))) };
                need!(felts.len() == 2 + 2 * len, "C18 ConcreteTypeInfo: generic id, header word, then two felts per Type argument");
                let word = &felts[1];
                let flags_word = word >> 128u32;
                let len_part = word & ((BigUint::one() << 128u32) - 1u8);
                need!(len_part == BigUint::from(len), "C18 ConcreteTypeInfo header: low 128 bits are generic_args.len()");
                need!(flags_word.is_zero() == decl.is_none(), "C18 ConcreteTypeInfo header: flags word == 0 iff declared_type_info is None");
                if decl.is_some() {
                    need!(flags_word == BigUint::from(MARKER | pat), "C18 ConcreteTypeInfo header: marker bit 63 and bits 0..3 = storable/droppable/duplicatable/zero_sized", "flags word {:#x}", flags_word);
                }
                // and the decoder inverts it
                let (y, consumed) = deser::<ConcreteTypeInfo>(&felts, 2);
                need!(consumed == felts.len(), "C18 ConcreteTypeInfo: deserialize consumes exactly what serialize appended");
                match y {
                    Ok(d) => need!(d.long_id == x.long_id && d.declared_type_info == decl, "C18 ConcreteTypeInfo: deserialize(serialize(x)) == x"),
                    Err(e) => return Err(("C18 ConcreteTypeInfo: deserialize(serialize(x)) is Ok", format!("{:?}", e))),
                }
                Ok(())
            });
        }
    }
    ob.done();
}
#[test]
fn __verif_n_type_info_header_decode() {
    let mut ob = Ob::new(
        "type_info_header_decode", "C14,C18",
        "header len in {0, 1, 2, 2^32, 2^64-1} x flags word in {0, 16 patterns with marker, 16 patterns without}; oversize words: len part 2^64 / 2^127, flags part 2^64 (word 2^192), P-1, 2^256-1; header missing",
    );
    let lens = [BigUint::zero(), BigUint::one(), BigUint::from(2u8), pow2(32), pow2(64) - 1u8];
    let mut flag_words: Vec<u64> = vec![0];
    for pat in 0..16u64 { flag_words.push(MARKER | pat); }
    for pat in 1..16u64 { flag_words.push(pat); }
    for len in &lens {
        for fw in &flag_words {
            ob.case(format!("header len {} flags word {:#x}", len, fw), || {
                let small_len = if *len <= BigUint::from(2u8) { Some(len.iter_u64_digits().next().unwrap_or(0) as usize) } else { None };
                let mut felts = vec![generic_id_felt(), header(len, &BigUint::from(*fw))];
                let n_args = small_len.unwrap_or(3); // a huge declared length never has enough felts behind it
                for a in args_of(n_args) {
                    if let GenericArg::Type(t) = a { felts.push(BigUint::one()); felts.push(BigUint::from(t.id)); }
                }
                let (y, consumed) = deser::<ConcreteTypeInfo>(&felts, 0);
                match small_len {
                    Some(l) => {
                        let d = match y { Ok(d) => d, Err(e) => return Err(("C14 ConcreteTypeInfo: a header whose length fits the remaining input is accepted", format!("{:?}", e))) };
                        need!(consumed == felts.len(), "C14 ConcreteTypeInfo: consumes the header and exactly len arguments");
                        need!(d.long_id.generic_args == args_of(l), "C18 ConcreteTypeInfo header: len is decoded from the low 128 bits");
                        if *fw == 0 || *fw & MARKER != 0 {
                            let want = if *fw == 0 { None } else { Some(info_of(*fw)) };
                            need!(d.declared_type_info == want, "C18 ConcreteTypeInfo header: flags decoded from bits 0..3, None iff the flags word is 0", "got {:?}", d.declared_type_info);
                        } else {
                            // unmarked non-zero flags words are never produced by serialize; the specification only asks for totality
                            need!(d.declared_type_info.is_none() || d.declared_type_info == Some(info_of(*fw)), "C14 ConcreteTypeInfo header: an unmarked flags word decodes to None or to its bits 0..3", "got {:?}", d.declared_type_info);
                        }
                    }
                    None => {
                        need!(invalid(&y), "C14 ConcreteTypeInfo: declared length larger than the remaining input is Err(InvalidInputForDeserialization) (no allocation)");
                        need!(consumed == 2, "C14 ConcreteTypeInfo: an oversize header is rejected before any argument is read");
                    }
                }
                Ok(())
            });
        }
    }
    let oversize: Vec<(&str, BigUint)> = vec![
        ("len part 2^64", pow2(64)),
        ("len part 2^127", pow2(127)),
        ("len part 2^64 with marker", header(&pow2(64), &BigUint::from(MARKER | 3))),
        ("flags part 2^64 (word 2^192)", pow2(192)),
        ("word 2^192 + 1", pow2(192) + 1u8),
        ("P-1", prime_minus_1()),
        ("2^256-1", pow2(256) - 1u8),
    ];
    for (name, w) in oversize {
        ob.case(format!("oversize header {}", name), || {
            let felts = vec![generic_id_felt(), w.clone(), BigUint::one(), BigUint::one()];
            let (y, consumed) = deser::<ConcreteTypeInfo>(&felts, 0);
            need!(invalid(&y), "C14 ConcreteTypeInfo: a header whose len or flags part does not fit is Err(InvalidInputForDeserialization)");
            need!(consumed == 2, "C14 ConcreteTypeInfo: an oversize header is rejected before any argument is read");
            Ok(())
        });
    }
    ob.case("header missing".into(), || {
        let (y, consumed) = deser::<ConcreteTypeInfo>(&[generic_id_felt()], 0);
        need!(invalid(&y) && consumed == 1, "C14 ConcreteTypeInfo: missing header is Err(InvalidInputForDeserialization)");
        let (y, consumed) = deser::<ConcreteTypeInfo>(&[], 0);
        need!(invalid(&y) && consumed == 0, "C14 ConcreteTypeInfo: empty input is Err(InvalidInputForDeserialization)");
        Ok(())
    });
    ob.done();
}
