// N unit (C18 + C14), BOUNDED stand-in: the generic `Vec<T>` codec of felt252_serde.rs for
// T in {VarId, ConcreteTypeId}. It was meant to be a Kani unit bounded to length <= 2; measured: even the
// round trip of the EMPTY vector exhausts 12 GB in CBMC (the declared length read back from the felt is
// not constant-propagated, so `Vec::with_capacity(size)` allocates an object of symbolic size and the
// `for _ in 0..size` loop with `push` is unwound over it). Moved to the native engine, never rewritten.
//
// Oracle: a vector is serialized as its length followed by its elements in order (1 + len felts, frame
// on the output); deserialize on exactly those felts gives the same ids (debug names dropped) and
// consumes everything (C18). On untrusted felts (C14): never panics; Err(InvalidInputForDeserialization)
// exactly when the length felt is missing / not a usize, the declared length exceeds the remaining
// felts (rejected before anything is read or allocated), or an element is missing / does not fit u64;
// Ok(v) => v has the declared length, the elements in order, and exactly 1 + len felts were consumed.
//
// Domain: lengths {0,1,2,3,17}; ids from {0, 1, 2^32, 2^63, 2^64-1}; untrusted streams: length felt in
// {0,1,2,3,4, 2^32, 2^64-1, 2^64, 2^128, P-1}, 0..=3 element felts behind it, at most one of them oversize
// (2^64 or 2^256-1) at each position. Nothing here is counted as proved.
#![allow(dead_code, unused_imports)]
use std::panic::{AssertUnwindSafe, catch_unwind};

use cairo_lang_sierra::ids::{ConcreteTypeId, VarId};
use cairo_lang_utils::bigint::BigUintAsHex;
use num_bigint::BigUint;
use num_traits::{One, ToPrimitive, Zero};

use super::{Felt252Serde, Felt252SerdeError};

const UNIT: &str = "n_felt_serde_vec";

trait HasId: Felt252Serde { fn mk(id: u64, named: bool) -> Self; fn id(&self) -> u64; fn unnamed(&self) -> bool; }
impl HasId for VarId {
    fn mk(id: u64, named: bool) -> Self { VarId { id, debug_name: if named { Some("v".into()) } else { None } } }
    fn id(&self) -> u64 { self.id }
    fn unnamed(&self) -> bool { self.debug_name.is_none() }
}
impl HasId for ConcreteTypeId {
    fn mk(id: u64, named: bool) -> Self { ConcreteTypeId { id, debug_name: if named { Some("t".into()) } else { None } } }
    fn id(&self) -> u64 { self.id }
    fn unnamed(&self) -> bool { self.debug_name.is_none() }
}

fn pow2(k: u32) -> BigUint { BigUint::one() << k }
fn prime_minus_1() -> BigUint { pow2(251) + (BigUint::from(17u8) << 192u32) }
fn invalid<T>(r: &Result<T, Felt252SerdeError>) -> bool { matches!(r, Err(Felt252SerdeError::InvalidInputForDeserialization)) }

struct Ob { id: String, props: &'static str, bound: &'static str, cases: u64, fail: Option<(String, String, String)> }
impl Ob {
    fn new(id: String, props: &'static str, bound: &'static str) -> Self {
        std::panic::set_hook(Box::new(|_| {}));
        Ob { id, props, bound, cases: 0, fail: None }
    }
    fn case(&mut self, input: String, f: impl FnOnce() -> Result<(), (&'static str, String)>) {
        if self.fail.is_some() { return; }
        self.cases += 1;
        match catch_unwind(AssertUnwindSafe(f)) {
            Ok(Ok(())) => {}
            Ok(Err((key, detail))) => self.fail = Some((key.to_string(), input, detail)),
            Err(_) => self.fail = Some(("C14 no panic".to_string(), input, "the real code panicked".to_string())),
        }
    }
    fn done(self) {
        match self.fail {
            None => println!("VERIF-N id=N/{}/{} status=ok cases={} distinct={} props={} bound=\"{}\"", UNIT, self.id, self.cases, self.cases, self.props, self.bound),
            Some((key, input, detail)) => println!(
                "VERIF-N id=N/{}/{} status=fail key=\"{}\" input=\"{}\" detail=\"{}: {}\" props={} bound=\"{}\"",
                UNIT, self.id, key, input.replace('"', "'"), key, detail.replace('"', "'"), self.props, self.bound
            ),
        }
    }
}
macro_rules! need {
    ($cond:expr, $key:literal) => { if !($cond) { return Err(($key, format!("violated: {}", stringify!($cond)))); } };
    ($cond:expr, $key:literal, $($arg:tt)*) => { if !($cond) { return Err(($key, format!($($arg)*))); } };
}

const IDS: [u64; 5] = [0, 1, 1 << 32, 1 << 63, u64::MAX];

fn roundtrip<T: HasId>(name: &str) {
    let mut ob = Ob::new(format!("vec_roundtrip_{}", name), "C18", "lengths {0,1,2,3,17}, ids cycling through {0, 1, 2^32, 2^63, 2^64-1} from 5 offsets, with and without debug names");
    for len in [0usize, 1, 2, 3, 17] {
        for off in 0..IDS.len() {
            for named in [false, true] {
                let ids: Vec<u64> = (0..len).map(|k| IDS[(k + off) % IDS.len()]).collect();
                ob.case(format!("Vec<{}> ids {:?} named {}", name, ids, named), || {
                    let x: Vec<T> = ids.iter().map(|i| T::mk(*i, named)).collect();
                    let prefix = vec![BigUintAsHex { value: prime_minus_1() }, BigUintAsHex { value: BigUint::from(7u8) }];
                    let mut out = prefix.clone();
                    let r = x.serialize(&mut out);
                    need!(r.is_ok(), "C18 Vec<T>: serialize succeeds");
                    need!(out[..2] == prefix[..], "C18 Vec<T>: serialize leaves the prefix untouched");
                    need!(out.len() == 2 + 1 + len, "C18 Vec<T>: serialize appends the length felt and one felt per element");
                    need!(out[2].value == BigUint::from(len), "C18 Vec<T>: first appended felt is the length");
                    for k in 0..len { need!(out[3 + k].value == BigUint::from(ids[k]), "C18 Vec<T>: elements are serialized in order"); }
                    let mut felts: Vec<BigUint> = out[2..].iter().map(|h| h.value.clone()).collect();
                    felts.push(BigUint::from(99u8)); // felt of the next element: must not be touched
                    let mut it = felts.iter();
                    let y = Vec::<T>::deserialize(&mut it);
                    need!(it.len() == 1, "C18 Vec<T>: deserialize consumes exactly the felts serialize appended");
                    let v = match y { Ok(v) => v, Err(e) => return Err(("C18 Vec<T>: deserialize(serialize(x)) is Ok", format!("{:?}", e))) };
                    need!(v.len() == len && (0..len).all(|k| v[k].id() == ids[k] && v[k].unnamed()), "C18 Vec<T>: same ids in the same order, debug names dropped");
                    // the same vector as the LAST thing in the stream (the function list of a program is):
                    // nothing follows, the declared length equals the remaining felts exactly
                    let last: Vec<BigUint> = out[2..].iter().map(|h| h.value.clone()).collect();
                    let mut it = last.iter();
                    let y = Vec::<T>::deserialize(&mut it);
                    need!(it.len() == 0, "C18 Vec<T>: deserialize consumes the whole stream when the vector is its last item");
                    let v = match y { Ok(v) => v, Err(e) => return Err(("C18 Vec<T>: deserialize(serialize(x)) is Ok when the vector ends the stream", format!("{:?}", e))) };
                    need!(v.len() == len && (0..len).all(|k| v[k].id() == ids[k]), "C18 Vec<T>: same ids when the vector ends the stream");
                    Ok(())
                });
            }
        }
    }
    ob.done();
}
#[test]
fn __verif_n_vec_roundtrip_var_id() { roundtrip::<VarId>("VarId"); }
#[test]
fn __verif_n_vec_roundtrip_concrete_type_id() { roundtrip::<ConcreteTypeId>("ConcreteTypeId"); }

fn total<T: HasId>(name: &str) {
    let mut ob = Ob::new(
        format!("vec_total_{}", name), "C14",
        "length felt in {0,1,2,3,4, 2^32, 2^64-1, 2^64, 2^128, P-1}; 0..=3 element felts; no or one oversize element (2^64 or 2^256-1) at each position",
    );
    let lens = [BigUint::zero(), BigUint::one(), BigUint::from(2u8), BigUint::from(3u8), BigUint::from(4u8), pow2(32), pow2(64) - 1u8, pow2(64), pow2(128), prime_minus_1()];
    let oversize = [pow2(64), pow2(256) - 1u8];
    for len in &lens {
        for n_elems in 0..=3usize {
            // bad = (position, which oversize value) or None
            let mut bads: Vec<Option<(usize, usize)>> = vec![None];
            for p in 0..n_elems { for w in 0..oversize.len() { bads.push(Some((p, w))); } }
            for bad in bads {
                ob.case(format!("Vec<{}> length felt {} then {} element felts, oversize {:?}", name, len, n_elems, bad), || {
                    let elems: Vec<BigUint> = (0..n_elems).map(|k| match bad { Some((p, w)) if p == k => oversize[w].clone(), _ => BigUint::from(IDS[(k + 2) % IDS.len()]) }).collect();
                    let mut felts = vec![len.clone()];
                    felts.extend(elems.iter().cloned());
                    let mut it = felts.iter();
                    let y = Vec::<T>::deserialize(&mut it);
                    let consumed = felts.len() - it.len();
                    // oracle
                    let header_ok = *len <= BigUint::from(n_elems);
                    let l = if header_ok { len.to_usize().unwrap() } else { 0 };
                    let good = (0..l).take_while(|k| elems[*k] <= BigUint::from(u64::MAX)).count();
                    let want_ok = header_ok && good == l;
                    let want_consumed = if !header_ok { 1 } else if want_ok { 1 + l } else { 1 + good + 1 };
                    need!(consumed == want_consumed, "C14 Vec<T>: consumes the length felt and the declared elements only (stops at the first bad one; nothing after a rejected length)", "consumed {} want {}", consumed, want_consumed);
                    match &y {
                        Ok(v) => {
                            need!(want_ok, "C14 Vec<T>: Ok only when the length is a usize not larger than the remaining felts and every element fits");
                            need!(v.len() == l && v.capacity() <= n_elems.max(l), "C14 Vec<T>: result has the declared length; allocation bounded by the remaining input");
                            need!((0..l).all(|k| BigUint::from(v[k].id()) == elems[k] && v[k].unnamed()), "C14 Vec<T>: elements decoded in order");
                        }
                        Err(_) => need!(!want_ok && invalid(&y), "C14 Vec<T>: Err(InvalidInputForDeserialization) exactly when the length is oversize/larger than the remaining felts or an element does not fit"),
                    }
                    Ok(())
                });
            }
        }
    }
    ob.case(format!("Vec<{}> from an exhausted iterator", name), || {
        let felts: Vec<BigUint> = vec![];
        let mut it = felts.iter();
        let y = Vec::<T>::deserialize(&mut it);
        need!(invalid(&y), "C14 Vec<T>: exhausted iterator is Err(InvalidInputForDeserialization)");
        Ok(())
    });
    ob.done();
}
#[test]
fn __verif_n_vec_total_var_id() { total::<VarId>("VarId"); }
#[test]
fn __verif_n_vec_total_concrete_type_id() { total::<ConcreteTypeId>("ConcreteTypeId"); }
