// N unit (C14): `words_per_felt` of felt252_vec_compression.rs, enumerated over EVERY argument its callers
// can pass: `decompress` and `compress` only call it with a power of two in [2^8, 2^63] (56 values).
// It was meant to be a Kani unit; measured: `Felt252::prime()` parses the prime from a hex string in a
// lazy static (`BigInt::from_str_radix`, 64 digits), and CBMC does not finish words_per_felt(2^63)
// (three loop iterations) in 400 s. The enumeration below is complete over that 56-element domain, but as
// an N unit it is reported as bounded, never as proved.
//
// Oracle (from the meaning, not the body): r words of b bits fit a felt iff every r-word string is below
// P, i.e. 2^(b*r) <= P; the result must be the largest such r. Because 2^251 < P < 2^252 this is
// floor(251 / b). The Verus contract of `decompress` assumes 1 <= r <= 31.
#![allow(dead_code, unused_imports)]
use std::panic::catch_unwind;

use num_bigint::BigUint;
use num_traits::One;

use super::words_per_felt;

#[test]
fn __verif_n_words_per_felt_powers_of_two() {
    std::panic::set_hook(Box::new(|_| {}));
    let bound = "all 56 powers of two 2^8..2^63 (every argument decompress/compress can pass)";
    let p: BigUint = (BigUint::one() << 251u32) + (BigUint::from(17u8) << 192u32) + 1u8;
    let mut cases = 0u64;
    let mut fail: Option<(String, String, String)> = None;
    for b in 8u32..=63 {
        cases += 1;
        let n = 1usize << b;
        let r = match catch_unwind(|| words_per_felt(n)) {
            Ok(r) => r,
            Err(_) => { fail = Some(("C14 no panic".into(), format!("words_per_felt(2^{})", b), "the real code panicked".into())); break; }
        };
        let fits = |k: usize| (BigUint::one() << (b as usize * k)) <= p;
        if !(1..=31).contains(&r) {
            fail = Some(("C14 words_per_felt: result within 1..=31".into(), format!("words_per_felt(2^{})", b), format!("returned {}", r)));
            break;
        }
        if !(fits(r) && !fits(r + 1)) || r != (251 / b) as usize {
            fail = Some(("C14 words_per_felt: largest r with 2^(b*r) <= P, i.e. floor(251/b)".into(), format!("words_per_felt(2^{})", b), format!("returned {} want {}", r, 251 / b)));
            break;
        }
    }
    match fail {
        None => println!("VERIF-N id=N/n_words_per_felt/powers_of_two status=ok cases={} distinct={} props=C14 bound=\"{}\"", cases, cases, bound),
        Some((key, input, detail)) => println!("VERIF-N id=N/n_words_per_felt/powers_of_two status=fail key=\"{}\" input=\"{}\" detail=\"{}: {}\" props=C14 bound=\"{}\"", key, input, key, detail, bound),
    }
}
