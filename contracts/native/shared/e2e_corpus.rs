// Shared: the Sierra programs recorded in the repository's end-to-end test files
// (tests/e2e_test_data/**: `//! > sierra_code` sections, real compiler output for every libfunc
// family). Returned as (test file :: test name, Sierra text).
#![allow(dead_code)]
pub fn e2e_programs(manifest_dir: &str) -> Vec<(String, String)> {
    let mut root = std::path::PathBuf::from(manifest_dir);
    root.pop();
    root.pop();
    root.push("tests/e2e_test_data");
    let mut files = vec![];
    let mut stack = vec![root];
    while let Some(d) = stack.pop() {
        let Ok(rd) = std::fs::read_dir(&d) else { continue };
        for e in rd.filter_map(|e| e.ok()) { let p = e.path(); if p.is_dir() { stack.push(p); } else { files.push(p); } }
    }
    files.sort();
    let mut out = vec![];
    for f in files {
        let Ok(text) = std::fs::read_to_string(&f) else { continue };
        let fname = f.file_name().map(|x| x.to_string_lossy().to_string()).unwrap_or_default();
        for test in text.split("//! > ==========================================================================") {
            let mut name = String::new();
            let mut section = String::new();
            let mut sierra = String::new();
            let mut first = true;
            for line in test.lines() {
                if let Some(h) = line.strip_prefix("//! > ") {
                    if first && !h.trim().is_empty() { name = h.trim().to_string(); first = false; section.clear(); } else { section = h.trim().to_string(); }
                    continue;
                }
                if section == "sierra_code" { sierra.push_str(line); sierra.push('\n'); }
            }
            if !sierra.trim().is_empty() { out.push((format!("e2e:{fname}::{name}"), sierra)); }
        }
    }
    out
}
