// Shared by n_c14_specialize (cairo-lang-sierra) and n_libfunc_sweep (cairo-lang-sierra-to-casm): the
// universe of boundary generic arguments (types with their declarations, values, user type, user
// function) and the assembly of one-declaration programs from it. The including module defines
// `sierra` as an alias of the cairo-lang-sierra crate (`use crate as sierra;` inside that crate).
#![allow(dead_code, unused_imports)]
use super::sierra;

#[derive(Clone)]
pub struct Arg { pub decls: Vec<String>, pub text: String }

pub fn simple(n: &str) -> Arg { Arg { decls: vec![format!("type {n} = {n};")], text: n.to_string() } }
/// `name = generic<args..>` over already built argument types.
pub fn comp(name: &str, generic: &str, prefix: &[&str], inner: &[&Arg], suffix: &[&str]) -> Arg {
    let mut decls: Vec<String> = vec![];
    for a in inner { for d in &a.decls { if !decls.contains(d) { decls.push(d.clone()); } } }
    let args: Vec<String> = prefix.iter().map(|s| s.to_string()).chain(inner.iter().map(|a| a.text.clone())).chain(suffix.iter().map(|s| s.to_string())).collect();
    decls.push(if args.is_empty() { format!("type {name} = {generic};") } else { format!("type {name} = {generic}<{}>;", args.join(", ")) });
    Arg { decls, text: name.to_string() }
}
fn unit0() -> Arg { comp("Unit", "Struct", &["ut@Tuple"], &[], &[]) }
pub fn value(v: &str) -> Arg { Arg { decls: vec![], text: v.to_string() } }

/// Every generic type id of the core library (the `ID` constants under extensions/modules).
pub const GENERIC_TYPE_IDS: [&str; 70] = ["AddMod", "AddModGate", "Array", "Bitwise", "Blake2sState", "BoundedInt", "BoundedIntGuarantee", "Box", "BuiltinCosts", "Circuit", "CircuitData", "CircuitDescriptor", "CircuitFailureGuarantee", "CircuitInput", "CircuitInputAccumulator", "CircuitModulus", "CircuitOutputs", "CircuitPartialOutputs", "ClassHash", "Const", "ContractAddress", "Coupon", "EcOp", "EcPoint", "EcState", "Enum", "Felt252Dict", "Felt252DictEntry", "GasBuiltin", "GasReserve", "IntRange", "InverseGate", "MulMod", "MulModGate", "NonZero", "Nullable", "Pedersen", "Poseidon", "RangeCheck", "RangeCheck96", "Secp256k1Point", "Secp256r1Point", "SegmentArena", "Sha256StateHandle", "Sha512StateHandle", "Snapshot", "Span", "SquashedFelt252Dict", "StorageAddress", "StorageBaseAddress", "Struct", "SubModGate", "System", "U128MulGuarantee", "U96Guarantee", "U96LimbsLtGuarantee", "Uninitialized", "bytes31", "felt252", "qm31", "u8", "u16", "u32", "u64", "u128", "i8", "i16", "i32", "i64", "i128"];
pub const P: &str = "3618502788666131213697322783095070105623107215331596699973092056135872020481";
pub const P_MINUS_1: &str = "3618502788666131213697322783095070105623107215331596699973092056135872020480";

pub fn universe(full: bool) -> Vec<Arg> {
    let mut u: Vec<Arg> = vec![];
    let felt = simple("felt252");
    let ints: Vec<Arg> = ["u8", "u16", "u32", "u64", "u128", "i8", "i16", "i32", "i64", "i128"].iter().map(|n| simple(n)).collect();
    u.push(felt.clone());
    let pick: &[usize] = if full { &[0, 1, 2, 3, 4, 5, 6, 7, 8, 9] } else { &[0, 4, 9] };
    for i in pick { u.push(ints[*i].clone()); }
    // BoundedInt<lo, hi> at the boundaries (hi is inclusive in the type, Range::upper is exclusive)
    let two128 = "340282366920938463463374607431768211456";
    let two128m1 = "340282366920938463463374607431768211455";
    let mut bounds: Vec<(&str, &str)> = vec![("0", "0"), ("0", "1"), ("1", "1"), ("-1", "0"), ("-1", "-1"), ("0", two128m1), ("0", P_MINUS_1), ("5", "2")];
    if full { bounds.push(("0", "255")); }
    if full { bounds.extend([("-1", "1"), ("0", two128), ("-170141183460469231731687303715884105728", "170141183460469231731687303715884105727"), ("79228162514264337593543950336", "79228162514264337593543950336"), ("1", P_MINUS_1), ("0", P), ("-128", "127"), ("2", "2")]); }
    // ranges of exactly 2^128 values next to the u128 range: the downcast builders treat a bound of 2^128 specially (F13, F25)
    let two129 = "680564733841876926926749214863536422912";
    bounds.extend([("1", two128), ("2", two128m1), (two128, two129)]);
    let mut bis = vec![];
    for (k, (lo, hi)) in bounds.iter().enumerate() { let b = comp(&format!("BI{k}"), "BoundedInt", &[lo, hi], &[], &[]); bis.push(b.clone()); u.push(b); }
    // wrappers
    u.push(comp("NZfelt", "NonZero", &[], &[&felt], &[]));
    u.push(comp("NZu8", "NonZero", &[], &[&ints[0]], &[]));
    u.push(comp("NZbi0", "NonZero", &[], &[&bis[0]], &[]));
    let arr = comp("ArrFelt", "Array", &[], &[&felt], &[]);
    u.push(arr.clone());
    u.push(comp("SnapArr", "Snapshot", &[], &[&arr], &[]));
    u.push(comp("BoxFelt", "Box", &[], &[&felt], &[]));
    u.push(comp("NullFelt", "Nullable", &[], &[&felt], &[]));
    u.push(comp("UninitFelt", "Uninitialized", &[], &[&felt], &[]));
    u.push(comp("DictFelt", "Felt252Dict", &[], &[&felt], &[]));
    let unit = comp("Unit", "Struct", &["ut@Tuple"], &[], &[]);
    u.push(unit.clone());
    u.push(comp("Pair", "Struct", &["ut@Tuple"], &[&felt, &ints[4]], &[]));
    // a wide value (40 cells): size-dependent costs and ap changes (store_temp, dup, boxes, enums around it)
    let wide = { let members: Vec<&Arg> = (0..40).map(|_| &felt).collect(); comp("Wide40", "Struct", &["ut@Tuple"], &members, &[]) };
    u.push(wide.clone());
    u.push(comp("OptWide", "Enum", &["ut@core::option::Option::<Wide40>"], &[&wide, &unit0()], &[]));
    let u256 = comp("U256", "Struct", &["ut@core::integer::u256"], &[&ints[4], &ints[4]], &[]);
    u.push(u256.clone());
    u.push(comp("Never", "Enum", &["ut@Never"], &[], &[]));
    u.push(comp("Opt", "Enum", &["ut@core::option::Option::<core::felt252>"], &[&felt, &unit], &[]));
    u.push(comp("Bool", "Enum", &["ut@core::bool"], &[&unit, &unit], &[]));
    u.push(comp("ConstFelt5", "Const", &[], &[&felt], &["5"]));
    u.push(comp("ConstU8_0", "Const", &[], &[&ints[0]], &["0"]));
    u.push(comp("ConstBi0", "Const", &[], &[&bis[0]], &["0"]));
    u.push(comp("ConstUnit", "Const", &[], &[&unit], &[]));
    u.push(comp("ConstPair", "Const", &[], &[&comp("PairFF", "Struct", &["ut@Tuple"], &[&felt, &felt], &[]), &comp("ConstFelt5", "Const", &[], &[&felt], &["5"]), &comp("ConstFelt5", "Const", &[], &[&felt], &["5"])], &[]));
    for b in ["RangeCheck", "GasBuiltin", "Pedersen", "Bitwise", "System", "SegmentArena", "RangeCheck96", "AddMod", "MulMod", "BuiltinCosts", "u96", "qm31"].iter().take(if full { 12 } else { 4 }) {
        if *b == "u96" { u.push(comp("U96", "BoundedInt", &["0", "79228162514264337593543950335"], &[], &[])); } else { u.push(simple(b)); }
    }
    // circuits
    let in0 = comp("In0", "CircuitInput", &["0"], &[], &[]);
    let in1 = comp("In1", "CircuitInput", &["1"], &[], &[]);
    let add = comp("Add01", "AddModGate", &[], &[&in0, &in1], &[]);
    let outs = comp("Outs", "Struct", &["ut@Tuple"], &[&add], &[]);
    let circ = comp("Circ", "Circuit", &[], &[&outs], &[]);
    u.push(in0.clone());
    u.push(add.clone());
    u.push(circ.clone());
    if full {
        u.push(comp("Inv0", "InverseGate", &[], &[&in0], &[]));
        u.push(comp("CircData", "CircuitData", &[], &[&circ], &[]));
        u.push(comp("CircOut", "CircuitOutputs", &[], &[&circ], &[]));
        u.push(comp("CircMod", "CircuitModulus", &[], &[], &[]));
        u.push(comp("SqG", "SquashedFelt252Dict", &[], &[&felt], &[]));
        u.push(comp("Span", "Struct", &["ut@core::array::Span::<core::felt252>"], &[&comp("SnapArr", "Snapshot", &[], &[&arr], &[])], &[]));
    }
    // guarantees, coupons, ranges, dict entries (types that only some libfuncs take as arguments)
    u.push(comp("Guar0", "BoundedIntGuarantee", &[], &[&bis[0]], &[]));
    u.push(comp("Guar3", "BoundedIntGuarantee", &[], &[&bis[3]], &[]));
    u.push(comp("GuarU128", "BoundedIntGuarantee", &[], &[&ints[4]], &[]));
    u.push(comp("CouponF", "Coupon", &["user@f"], &[], &[]));
    u.push(comp("RangeU8", "IntRange", &[], &[&ints[0]], &[]));
    u.push(comp("EntryFelt", "Felt252DictEntry", &[], &[&felt], &[]));
    if full {
        u.push(comp("Guar6", "BoundedIntGuarantee", &[], &[&bis[6]], &[]));
        u.push(comp("RangeBi1", "IntRange", &[], &[&bis[1]], &[]));
        u.push(comp("SpanFelt", "Span", &[], &[&felt], &[]));
        u.push(comp("LtG", "U96LimbsLtGuarantee", &["4"], &[], &[]));
        u.push(comp("LtG1", "U96LimbsLtGuarantee", &["1"], &[], &[]));
    }
    // more shapes: zero-sized in a box, enums whose variants differ in size, nested containers
    u.push(comp("BoxUnit", "Box", &[], &[&unit], &[]));
    u.push(comp("Enum3", "Enum", &["ut@Enum3"], &[&felt, &comp("Pair", "Struct", &["ut@Tuple"], &[&felt, &ints[4]], &[]), &unit], &[]));
    if full {
        let arr_arr = comp("ArrArr", "Array", &[], &[&arr], &[]);
        u.push(arr_arr.clone());
        u.push(comp("NullArr", "Nullable", &[], &[&arr], &[]));
        u.push(comp("SnapArrArr", "Snapshot", &[], &[&arr_arr], &[]));
        u.push(comp("Mixed", "Struct", &["ut@Mixed"], &[&unit, &felt, &arr, &u256], &[]));
        u.push(comp("EnumWide", "Enum", &["ut@EnumWide"], &[&unit, &comp("Wide40", "Struct", &["ut@Tuple"], &(0..40).map(|_| &felt).collect::<Vec<&Arg>>(), &[]), &felt], &[]));
        u.push(comp("NZbi3", "NonZero", &[], &[&bis[3]], &[]));
        // sizes at the i16 boundary: 2^14 cells, and 2^15 - 1 = 2^14 + 2^13 + .. + 1 cells
        let mut chain: Vec<Arg> = vec![felt.clone()];
        for i in 1..=14 { let prev = chain[i - 1].clone(); chain.push(comp(&format!("Pow{i}"), "Struct", &[&format!("ut@Pow{i}")], &[&prev, &prev], &[])); }
        u.push(chain[14].clone());
        let all: Vec<&Arg> = chain.iter().collect();
        u.push(comp("Max32767", "Struct", &["ut@Max32767"], &all, &[]));
    }
    // values, user type, user function
    let vals: &[&str] = if full { &["0", "1", "-1", "2", "255", "32768", "18446744073709551616", two128, P_MINUS_1, P, "115792089237316195423570985008687907853269984665640564039457584007913129639936"] } else { &["0", "1", "-1", two128, P] };
    for v in vals { u.push(value(v)); }
    u.push(value("ut@Foo"));
    u.push(value("user@f"));
    u
}

/// A universe element parsed once: its type declarations and the generic argument itself.
pub struct Parsed { pub decls: Vec<sierra::program::TypeDeclaration>, pub arg: sierra::program::GenericArg, pub text: String }
pub fn parse_arg(a: &Arg) -> Parsed {
    let mut s = String::from("type felt252 = felt252;\n");
    for d in &a.decls { if d != "type felt252 = felt252;" { s.push_str(d); s.push('\n'); } }
    s.push_str(&format!("libfunc L = x<{}>;\nreturn([0]);\nf@0([0]: felt252) -> (felt252);\n", a.text));
    let p = sierra::ProgramParser::new().parse(&s).unwrap_or_else(|e| panic!("harness: universe element does not parse: {s}: {e:?}"));
    Parsed { decls: p.type_declarations.clone(), arg: p.libfunc_declarations[0].long_id.generic_args[0].clone(), text: a.text.clone() }
}
pub fn base_program() -> sierra::program::Program {
    sierra::ProgramParser::new().parse("type felt252 = felt252;\nreturn([0]);\nf@0([0]: felt252) -> (felt252);\n").unwrap()
}
/// The program declaring the universe types needed by `args` and one target declaration.
pub fn assemble(base: &sierra::program::Program, args: &[&Parsed], target: &Target) -> sierra::program::Program {
    use sierra::program::{ConcreteLibfuncLongId, ConcreteTypeLongId, LibfuncDeclaration, TypeDeclaration};
    let mut p = base.clone();
    for a in args { for d in &a.decls { if !p.type_declarations.iter().any(|x| x.id == d.id) { p.type_declarations.push(d.clone()); } } }
    let generic_args: Vec<_> = args.iter().map(|a| a.arg.clone()).collect();
    match target {
        Target::Libfunc(id) => p.libfunc_declarations.push(LibfuncDeclaration { id: "L".into(), long_id: ConcreteLibfuncLongId { generic_id: id.as_str().into(), generic_args } }),
        Target::Type(id) => p.type_declarations.push(TypeDeclaration { id: "T".into(), long_id: ConcreteTypeLongId { generic_id: id.as_str().into(), generic_args }, declared_type_info: None }),
    }
    p
}
#[derive(Clone)]
pub enum Target { Libfunc(String), Type(String) }
impl Target { pub fn name(&self) -> String { match self { Target::Libfunc(l) => format!("libfunc {l}"), Target::Type(t) => format!("type {t}") } } }


/// Builds the registry of `p`; whenever a libfunc/type specialization fails only because a type it
/// looks up by long id is not declared (`TypeWasNotDeclared`), that type is declared and the build
/// is retried (a no-argument libfunc like `u8_overflowing_add` needs `u8` and `RangeCheck`).
/// Ok(Some(registry)) accepted, Ok(None) rejected, Err(panic message).
pub fn registry_autodecl(p: &mut sierra::program::Program) -> Result<Option<sierra::program_registry::ProgramRegistry<sierra::extensions::core::CoreType, sierra::extensions::core::CoreLibfunc>>, String> {
    use sierra::extensions::{ExtensionError, SpecializationError};
    use sierra::program_registry::{ProgramRegistry, ProgramRegistryError};
    for round in 0..12 {
        let r = std::panic::catch_unwind(std::panic::AssertUnwindSafe(|| ProgramRegistry::<sierra::extensions::core::CoreType, sierra::extensions::core::CoreLibfunc>::new(p)));
        let e = match r {
            Err(e) => return Err(if let Some(s) = e.downcast_ref::<String>() { s.clone() } else if let Some(s) = e.downcast_ref::<&str>() { s.to_string() } else { "panic".into() }),
            Ok(Ok(reg)) => return Ok(Some(reg)),
            Ok(Err(e)) => e,
        };
        let ext = match *e { ProgramRegistryError::LibfuncSpecialization { error, .. } | ProgramRegistryError::TypeSpecialization { error, .. } => error, _ => return Ok(None) };
        let spec = match ext { ExtensionError::LibfuncSpecialization { error, .. } | ExtensionError::TypeSpecialization { error, .. } => error, _ => return Ok(None) };
        let SpecializationError::TypeWasNotDeclared(generic_id, generic_args) = spec else { return Ok(None) };
        let long_id = sierra::program::ConcreteTypeLongId { generic_id, generic_args };
        if p.type_declarations.iter().any(|d| d.long_id == long_id) { return Ok(None); }
        // declared before the target declaration `T` (if any), after everything else
        let decl = sierra::program::TypeDeclaration { id: format!("auto{round}").into(), long_id, declared_type_info: None };
        let at = p.type_declarations.iter().position(|d| d.id == "T".into()).unwrap_or(p.type_declarations.len());
        p.type_declarations.insert(at, decl);
    }
    Ok(None)
}
