// Shared by n_libfunc_sweep and n_c17_casm_paths (both inside cairo-lang-sierra-to-casm): every path
// through the instructions emitted for ONE Sierra statement, with the number of instructions
// executed and the movement of ap along it.
#![allow(dead_code, unused_imports)]
use std::collections::{HashMap, HashSet};

use cairo_lang_casm::instructions::{Instruction, InstructionBody};
use cairo_lang_casm::operand::{DerefOrImmediate, ResOperand};
use num_traits::ToPrimitive;

/// byte offset -> instruction index
pub fn offsets(casm: &crate::compiler::CairoProgram) -> HashMap<usize, usize> {
    let mut at = HashMap::new();
    let mut o = 0usize;
    for (i, ins) in casm.instructions.iter().enumerate() { at.insert(o, i); o += ins.body.op_size(); }
    at
}

pub fn imm(d: &DerefOrImmediate) -> Option<i64> { match d { DerefOrImmediate::Immediate(v) => v.value.to_i64(), _ => None } }
pub fn is_fail(a: &cairo_lang_casm::instructions::AssertEqInstruction) -> bool {
    use cairo_lang_casm::operand::{BinOpOperand, CellRef, Operation, Register};
    let fp1 = CellRef { register: Register::FP, offset: -1 };
    matches!(&a.b, ResOperand::BinOp(BinOpOperand { op: Operation::Add, a: x, b: DerefOrImmediate::Immediate(v) }) if a.a == fp1 && *x == fp1 && v.value.to_i64() == Some(1))
}

/// Every path through the instructions of [start, end): (exit offset, instructions executed, ap movement).
/// None when the walk cannot decide (indirect jump, ret, non-immediate ap change, too many paths).
pub fn walk(casm: &crate::compiler::CairoProgram, at: &HashMap<usize, usize>, start: usize, end: usize) -> Option<Vec<(usize, i64, i64)>> {
    let mut out = vec![];
    let mut stack = vec![(start, 0i64, 0i64)];
    let mut seen: HashSet<(usize, i64, i64)> = HashSet::new();
    let mut guard = 0;
    while let Some((pc, steps, ap)) = stack.pop() {
        guard += 1;
        if guard > 200_000 { return None; }
        if !(start..end).contains(&pc) { out.push((pc, steps, ap)); continue; }
        if !seen.insert((pc, steps, ap)) { continue; }
        let k = *at.get(&pc)?;
        let ins: &Instruction = &casm.instructions[k];
        let size = ins.body.op_size();
        let s1 = steps + 1;
        let a1 = ap + if ins.inc_ap { 1 } else { 0 };
        match &ins.body {
            InstructionBody::Ret(_) => return None,
            InstructionBody::Call(c) => match (c.relative, imm(&c.target)) { (true, Some(d)) if d as usize == size => stack.push((pc + size, s1, a1 + 2)), _ => return None },
            InstructionBody::AssertEq(a) if is_fail(a) => {}
            InstructionBody::AddAp(a) => match &a.operand { ResOperand::Immediate(v) => stack.push((pc + size, s1, a1 + v.value.to_i64()?)), _ => return None },
            InstructionBody::AssertEq(_) | InstructionBody::QM31AssertEq(_) | InstructionBody::Blake2sCompress(_) => stack.push((pc + size, s1, a1)),
            InstructionBody::Jump(j) => match (j.relative, imm(&j.target)) {
                (true, Some(d)) => stack.push(((pc as i64 + d) as usize, s1, a1)),
                (true, None) => { let mut t = pc + size; while t < end { stack.push((t, s1, a1)); t += casm.instructions[*at.get(&t)?].body.op_size(); } stack.push((end, s1, a1)); }
                _ => return None,
            },
            InstructionBody::Jnz(j) => match imm(&j.jump_offset) { Some(d) => { stack.push((pc + size, s1, a1)); stack.push(((pc as i64 + d) as usize, s1, a1)); } None => return None },
        }
    }
    Some(out)
}

