// N unit (C04), BOUNDED stand-in, companion of n_trace_corpus for executions that cross contract
// calls: the runner simulates `library_call` / `call_contract` by running the callee on a nested VM
// and threading the gas counter through (casm_run/mod.rs `call_entry_point` - a 60-line method of
// the hint processor that needs a compiled contract and a VM: nothing to put under contract).
// The inequality of the property is evaluated on the WHOLE run (caller + callees):
//   100*steps + 70*range_checks + sum_b price(b)*uses(b) <= (g - gas_left) + 100
// for inner calls that succeed, that panic after doing work (the caller handles the error), that are
// nested, and that run out of gas.
#![allow(dead_code, unused_imports)]
use std::panic::{catch_unwind, AssertUnwindSafe};

use cairo_lang_compiler::db::RootDatabase;
use cairo_lang_semantic::test_utils::setup_test_module;
use cairo_lang_sierra::extensions::gas::CostTokenType;
use cairo_lang_sierra_generator::db::SierraGenGroup;
use cairo_lang_sierra_generator::program_generator::SierraProgramWithDebug;
use cairo_lang_sierra_generator::replace_ids::{DebugReplacer, SierraIdReplacer};
use cairo_lang_starknet::contract::{find_contracts, get_contracts_info};
use cairo_lang_starknet::starknet_plugin_suite;
use starknet_types_core::felt::Felt as Felt252;

use cairo_lang_runner::{token_gas_cost, Arg, SierraCasmRunner, StarknetState};

const PROGRAM: &str = r#"
#[starknet::interface]
trait IWorker<TContractState> {
    fn burn(self: @TContractState, n: felt252, fail: felt252) -> felt252;
    fn hash(self: @TContractState, n: felt252, fail: felt252) -> felt252;
    fn nested(self: @TContractState, class_hash: felt252, n: felt252, fail: felt252) -> felt252;
}

#[starknet::contract]
mod worker {
    #[storage]
    struct Storage {}

    #[abi(embed_v0)]
    impl WorkerImpl of super::IWorker<ContractState> {
        fn burn(self: @ContractState, n: felt252, fail: felt252) -> felt252 {
            let mut i = n;
            let mut acc = 0;
            while i != 0 { acc += i * i; i -= 1; };
            assert(fail == 0, 'BURNED');
            acc
        }
        fn hash(self: @ContractState, n: felt252, fail: felt252) -> felt252 {
            let mut i = n;
            let mut acc = 0;
            while i != 0 { acc = core::pedersen::pedersen(acc, i); let x: u128 = 7; acc += (x & 5).into(); i -= 1; };
            assert(fail == 0, 'HASHED');
            acc
        }
        fn nested(self: @ContractState, class_hash: felt252, n: felt252, fail: felt252) -> felt252 {
            let inner = starknet::syscalls::library_call_syscall(class_hash.try_into().unwrap(), selector!("burn"), [n, fail].span());
            match inner { Result::Ok(_) => 0, Result::Err(_) => { assert(fail != 2, 'NESTED'); 1 } }
        }
    }
}

fn call_burn(class_hash: felt252, n: felt252, fail: felt252) -> felt252 {
    match starknet::syscalls::library_call_syscall(class_hash.try_into().unwrap(), selector!("burn"), [n, fail].span()) { Result::Ok(_) => 0, Result::Err(_) => 1 }
}
fn call_hash(class_hash: felt252, n: felt252, fail: felt252) -> felt252 {
    match starknet::syscalls::library_call_syscall(class_hash.try_into().unwrap(), selector!("hash"), [n, fail].span()) { Result::Ok(_) => 0, Result::Err(_) => 1 }
}
fn call_nested(class_hash: felt252, n: felt252, fail: felt252) -> felt252 {
    match starknet::syscalls::library_call_syscall(class_hash.try_into().unwrap(), selector!("nested"), [class_hash, n, fail].span()) { Result::Ok(_) => 0, Result::Err(_) => 1 }
}
fn call_twice(class_hash: felt252, n: felt252, fail: felt252) -> felt252 {
    call_burn(class_hash, n, fail) + call_burn(class_hash, n, 0) + call_hash(class_hash, 3, fail)
}
"#;

fn price(b: &str) -> Option<usize> {
    Some(match b {
        "range_check" => 70,
        "range_check96" => 56,
        "pedersen" => token_gas_cost(CostTokenType::Pedersen),
        "poseidon" => token_gas_cost(CostTokenType::Poseidon),
        "bitwise" => token_gas_cost(CostTokenType::Bitwise),
        "ec_op" => token_gas_cost(CostTokenType::EcOp),
        "add_mod" => token_gas_cost(CostTokenType::AddMod),
        "mul_mod" => token_gas_cost(CostTokenType::MulMod),
        _ => return None,
    })
}

fn build_runner() -> Result<(SierraCasmRunner, Felt252), String> {
    let db = RootDatabase::builder().detect_corelib().with_cfg(cairo_lang_filesystem::cfg::CfgSet::from_iter([cairo_lang_filesystem::cfg::Cfg::kv("target", "test")])).with_default_plugin_suite(starknet_plugin_suite()).build().map_err(|e| format!("db: {e}"))?;
    let (module, diagnostics) = setup_test_module(&db, PROGRAM).split();
    if !diagnostics.is_empty() { return Err(format!("the program does not compile: {}", diagnostics.chars().take(600).collect::<String>())); }
    let crate_id = module.crate_id;
    let SierraProgramWithDebug { program: mut sierra_program, .. } = db.get_sierra_program(vec![crate_id]).map_err(|_| "sierra generation failed".to_string())?.clone();
    let replacer = DebugReplacer { db: &db };
    replacer.enrich_function_names(&mut sierra_program);
    let contracts = find_contracts(&db, &[crate_id]);
    let contracts_info = get_contracts_info(&db, contracts, &replacer).map_err(|e| format!("contracts info: {e}"))?;
    let class_hash = *contracts_info.keys().next().ok_or("no contract found")?;
    let sierra_program = replacer.apply(&sierra_program);
    let runner = SierraCasmRunner::new(sierra_program, Some(Default::default()), contracts_info, None).map_err(|e| format!("runner: {e}"))?;
    Ok((runner, class_hash))
}

#[test]
fn __verif_n_trace_starknet() {
    static LAST: std::sync::Mutex<String> = std::sync::Mutex::new(String::new());
    std::panic::set_hook(Box::new(|info| { *LAST.lock().unwrap() = format!("{info}").chars().take(300).collect(); }));
    let thorough = std::env::var("VERIF_TIER").map(|t| t == "thorough").unwrap_or(false);
    let built = std::thread::Builder::new().stack_size(256 << 20).spawn(|| catch_unwind(AssertUnwindSafe(build_runner))).unwrap().join();
    let (runner, class_hash) = match built {
        Ok(Ok(Ok(x))) => x,
        Ok(Ok(Err(e))) => { println!("VERIF-N id=N/n_trace_starknet/skip status=skip why=\"{}\"", e.replace('"', "'").replace('\n', " ")); println!("VERIF-N id=N/n_trace_starknet/inner_calls_covered status=unknown"); return; }
        _ => { println!("VERIF-N id=N/n_trace_starknet/skip status=skip why=\"toolchain panicked: {}\"", LAST.lock().unwrap().replace('"', "'")); println!("VERIF-N id=N/n_trace_starknet/inner_calls_covered status=unknown"); return; }
    };
    let ns: &[u64] = if thorough { &[0, 1, 10, 100, 1000] } else { &[0, 10, 300] };
    let budgets: &[usize] = if thorough { &[100_000_000, 1_000_000, 200_000] } else { &[100_000_000, 400_000] };
    let (mut cases, mut failed_inner) = (0u64, 0u64);
    let mut fails: Vec<(String, String)> = vec![];
    let mut skipped = 0u64;
    for fname in ["call_burn", "call_hash", "call_nested", "call_twice"] {
        for &n in ns { for fail in [0u64, 1, 2] { for &available in budgets {
            let what = format!("{fname}(class, n={n}, fail={fail}) with {available} gas");
            let r = catch_unwind(AssertUnwindSafe(|| -> Result<Option<String>, String> {
                let func = runner.find_function(&format!("::{fname}")).map_err(|e| format!("find: {e}"))?;
                let res = runner.run_function_with_starknet_context(func, vec![Arg::Value(class_hash), Arg::Value(Felt252::from(n)), Arg::Value(Felt252::from(fail))], Some(available), StarknetState::default()).map_err(|e| format!("run: {e}"))?;
                let Some(left) = res.gas_counter.and_then(|g| usize::try_from(g.to_biguint()).ok()) else { return Err("no gas counter".into()) };
                let b = &res.used_resources.basic_resources;
                let mut trace = 100 * b.n_steps;
                for (name, uses) in b.builtin_instance_counter.iter() { if let Some(p) = price(name.to_str()) { trace += p * uses; } }
                let charged = available - left;
                if trace > charged + 100 { return Ok(Some(format!("undercharged: trace cost {trace} ({} steps, builtins {:?}) > gas charged {charged} + 100", b.n_steps, b.builtin_instance_counter))); }
                if 100 * b.n_steps > available + 100 { return Ok(Some(format!("{} steps executed with only {available} gas available", b.n_steps))); }
                Ok(None)
            }));
            match r {
                Ok(Ok(None)) => { cases += 1; if fail != 0 { failed_inner += 1; } }
                Ok(Ok(Some(w))) => { cases += 1; if !fails.iter().any(|f: &(String, String)| f.1.chars().take(20).eq(w.chars().take(20)) && f.0.starts_with(fname)) { fails.push((what, w)); } }
                Ok(Err(_)) => skipped += 1,
                Err(_) => skipped += 1,
            }
        } } }
    }
    let bound = format!("{cases} runs of 4 callers of a compiled Starknet contract (library calls that succeed, panic after work, are nested) x loop lengths x gas budgets; {failed_inner} with a failing inner call, {skipped} skipped");
    for (k, (input, why)) in fails.iter().enumerate() {
        println!("VERIF-N id=N/n_trace_starknet/inner_calls_covered:{} status=fail key=\"{}\" input=\"{}\" detail=\"{}: {}\" bound=\"{bound}\"", k + 1, why.chars().take(60).collect::<String>().replace('"', "'"), input.replace('"', "'"), input.replace('"', "'"), why.replace('"', "'"));
    }
    if fails.is_empty() {
        if cases == 0 { println!("VERIF-N id=N/n_trace_starknet/inner_calls_covered status=unknown"); } else { println!("VERIF-N id=N/n_trace_starknet/inner_calls_covered status=ok cases={cases} distinct={} bound=\"{bound}\"", failed_inner.max(1)); }
    }
}
