"""Bounded validation of the assumed specifications the Verus units rely on."""
NATIVE = {
    'n_assumed_specs': dict(
        crate='cairo-lang-sierra',
        host='crates/cairo-lang-sierra/src/lib.rs',
        harness='native/cairo-lang-sierra/n_assumed_specs.rs',
        props={'C15', 'C18', 'C14'},
        bound='id equality/hash/clone on 4 id types; 200 x 40 random map operations against a finite-map model; 10 boundary BigUint values',
        functions=[],
    ),
}
