"""C04: gas charged covers the actual cost - the checker side."""
_OBJ = 'crates/cairo-lang-sierra-gas/src/objects.rs'
_GASMOD = 'crates/cairo-lang-sierra/src/extensions/modules/gas.rs'
KANI = {'gas_const_cost': {'crate': 'cairo-lang-sierra-gas',
                    'host': _OBJ,
                    'harness': 'kani/cairo-lang-sierra-gas/gas_const_cost.rs',
                    'props': {'C04'},
                    'functions': [(_OBJ, 'impl ConstCost', 'cost'),
                                  (_OBJ, 'impl ConstCost', 'steps'),
                                  (_OBJ, 'impl ConstCost', 'holes'),
                                  (_OBJ, 'impl ConstCost', 'range_checks'),
                                  (_OBJ, 'impl ConstCost', 'add'),
                                  (_OBJ, 'impl std::ops::Add for ConstCost', 'add'),
                                  (_OBJ, 'impl std::ops::Sub for ConstCost', 'sub'),
                                  (_OBJ, 'impl WithdrawGasBranchInfo', 'const_cost'),
                                  (_GASMOD, 'impl BuiltinCostsType', 'cost_computation_steps')],
                    'trusted': ['published price table 100/10/70/56 (steps/holes/range_checks/range_checks96) is taken from the property statement']}}
VERUS = {}
NATIVE = {}
