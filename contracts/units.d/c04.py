"""C04: gas charged covers the actual cost - the checker side."""
_OBJ = 'crates/cairo-lang-sierra-gas/src/objects.rs'
_GASMOD = 'crates/cairo-lang-sierra/src/extensions/modules/gas.rs'
KANI = {'gas_const_cost': {'crate': 'cairo-lang-sierra-gas',
                    'host': _OBJ,
                    'harness': 'kani/cairo-lang-sierra-gas/gas_const_cost.rs',
                    'props': {'C04'},
                    'functions': [(_OBJ, 'impl ConstCost', 'cost'),
                                  (_OBJ, 'impl ConstCost', 'steps'),
                                  (_OBJ, 'impl ConstCost', 'holes'),
                                  (_OBJ, 'impl ConstCost', 'range_checks'),
                                  (_OBJ, 'impl ConstCost', 'add'),
                                  (_OBJ, 'impl std::ops::Add for ConstCost', 'add'),
                                  (_OBJ, 'impl std::ops::Sub for ConstCost', 'sub'),
                                  (_OBJ, 'impl WithdrawGasBranchInfo', 'const_cost'),
                                  (_GASMOD, 'impl BuiltinCostsType', 'cost_computation_steps')],
                    'trusted': ['published price table 100/10/70/56 (steps/holes/range_checks/range_checks96) is taken from the property statement']}}
_GW = 'crates/cairo-lang-sierra-to-casm/src/environment/gas_wallet.rs'
KANI['gas_wallet'] = {'crate': 'cairo-lang-sierra-to-casm',
                      'host': _GW,
                      'harness': 'kani/cairo-lang-sierra-to-casm/gas_wallet.rs',
                      'props': {'C04'},
                      'functions': [(_GW, 'impl GasWallet', 'update'),
                                    (_GW, 'impl PartialEq for GasWallet', 'eq'),
                                    ('crates/cairo-lang-utils/src/small_ordered_map.rs', 'impl<Key: Eq, Value: Eq> SmallOrderedMap<Key, Value>', 'eq_unordered'),
                                    ('crates/cairo-lang-utils/src/collection_arithmetics.rs',
                                     'impl<Key: Eq, Value: HasZero + Clone + Eq> MergeCollection<Key, Value> for SmallOrderedMap<Key, Value>', 'merge_collection')],
                      'trusted': ['gas_wallet is BOUNDED in the key universe {Const, Pedersen} (concrete map shapes, one harness per presence pattern); '
                                  'values are symbolic i64 with |v| < 2^60 (A3: no overflow in m[k] - c[k])',
                                  'vector_map::VecMap and merge_collection run as real code under CBMC (not assumed)']}
_BLD = 'crates/cairo-lang-casm/src/builder.rs'
KANI['builder_steps'] = {'crate': 'cairo-lang-casm',
                         'host': _BLD,
                         'harness': 'kani/cairo-lang-casm/builder_steps.rs',
                         'props': {'C04', 'C17'},
                         'functions': [(_BLD, 'impl CasmBuilder', 'next_instruction'),
                                       (_BLD, 'impl CasmBuilder', 'add_ap'),
                                       (_BLD, 'impl CasmBuilder', 'increase_ap_change'),
                                       (_BLD, 'impl CasmBuilder', 'alloc_var'),
                                       (_BLD, 'impl CasmBuilder', 'steps'),
                                       (_BLD, 'impl CasmBuilder', 'curr_ap_change'),
                                       (_BLD, 'impl State', 'validate_finality'),
                                       (_BLD, 'impl State', 'intersect')],
                         'trusted': ['builder state invariant assumed on entry: allocated >= 0 (Default establishes it; alloc_var and increase_ap_change, '
                                     'the only writers, are proved to keep it) and ap_change/steps/next_instruction_offset < 2^48 (A3)',
                                     'State::intersect is BOUNDED: var maps have concrete shapes with <= 2 vars (symbolic contents)',
                                     'instruction size oracle 1 + has_immediate is the C16 obligation on op_size']}
VERUS = {'gas_lemmas': {'template': 'verus/gas_lemmas.vrs',
                        'props': {'C04'},
                        'probes': ['__reach_cost_monotone', '__reach_wallet_chain'],
                        'trusted': ['gas_lemmas are spec-level: spec_cost / update_ok / updated mirror the spec functions of the Kani units '
                                    'gas_const_cost and gas_wallet (written twice, Rust i128 and Verus int)']}}
NATIVE = {}

NATIVE = globals().get('NATIVE', {})
NATIVE['n_c04_entry_cost'] = dict(
    crate='cairo-lang-runner',
    host='crates/cairo-lang-runner/src/lib.rs',
    harness='native/cairo-lang-runner/n_c04_entry_cost.rs',
    props={'C04'},
    bound='token price table exhaustive; entry cost on hand-written functions with 0..=3 pedersen calls',
    functions=[('crates/cairo-lang-runner/src/lib.rs', None, 'token_gas_cost'), ('crates/cairo-lang-runner/src/lib.rs', 'impl SierraCasmRunner', 'initial_required_gas'), ('crates/cairo-lang-runner/src/lib.rs', None, 'initialize_vm')],
)
NATIVE['n_c04_metadata'] = dict(
    crate='cairo-lang-sierra-to-casm',
    host='crates/cairo-lang-sierra-to-casm/src/compiler.rs',
    harness='native/cairo-lang-sierra-to-casm/n_c04_metadata.rs',
    props={'C04'},
    bound='3 straight-line functions + fib_gas + hash_chain_gas; single tamperings of the honest metadata',
    functions=[('crates/cairo-lang-sierra-to-casm/src/compiler.rs', None, 'validate_metadata')],
)
NATIVE['n_c04_casm_steps'] = dict(
    crate='cairo-lang-sierra-to-casm',
    host='crates/cairo-lang-sierra-to-casm/src/compiler.rs',
    harness='native/cairo-lang-sierra-to-casm/n_c04_casm_steps.rs',
    props={'C04'},
    bound='Sierra corpus (as n_c17_casm_paths): every start-to-exit path of the code emitted for every invocation statement with a statement-independent cost',
    functions=[('crates/cairo-lang-sierra-to-casm/src/compiler.rs', None, 'compile')],
)
NATIVE['n_trace_corpus'] = dict(
    crate='cairo-lang-runner',
    host='crates/cairo-lang-runner/src/lib.rs',
    harness='native/cairo-lang-runner/n_trace_corpus.rs',
    props={'C04', 'C17'},
    bound='16 Cairo programs (recursion, arrays, dictionaries, hashes, integer arithmetic, EC, enums/boxes, byte arrays, panics, locals, circuits, signed and bounded ints, structs and spans, many-variant enums, felt division, dictionaries in structs) and 14 of the repository examples '
          'x 1-5 functions x <= 3 (quick) / all (thorough) inputs x {linear, equation} solvers, run on the VM; for C17 also 3 hand-written Sierra shapes the Cairo compiler never emits (finalize_locals without locals, locals allocated late, dummy_function_call)',
    functions=[('crates/cairo-lang-runner/src/lib.rs', 'impl SierraCasmRunner', 'run_function_with_starknet_context'),
               ('crates/cairo-lang-sierra-to-casm/src/compiler.rs', None, 'compile')],
)
NATIVE['n_trace_starknet'] = dict(
    crate='tests',
    test_target='examples_test',
    host='tests/examples_test.rs',
    harness='native/tests/n_trace_starknet.rs',
    props={'C04'},
    bound='4 callers of a compiled Starknet contract (library calls that succeed / panic after work / are nested) x 3 (5) loop lengths x 3 outcomes x 2 (3) gas budgets, run on the VM',
    functions=[('crates/cairo-lang-runner/src/casm_run/mod.rs', "impl CairoHintProcessor<'_>", 'call_entry_point')],
)
