"""C14 units (besides those shared with C17 / C18)."""
VERUS = {
    'refs_on_stack': dict(
        template='verus/refs_on_stack.vrs',
        props={'C14'},
        probes=[],
        pair='n_c14_pipeline',
        trusted=['BigInt, BigIntAsHex, ConcreteTypeId, Invocation, String, FrameStateError are opaque (only moved around)',
                 'derives that Verus cannot check on types holding opaque fields (Debug/Clone/PartialEq) are dropped'],
    ),
}
NATIVE = {
    'n_c14_pipeline': dict(
        crate='cairo-lang-sierra-to-casm',
        host='crates/cairo-lang-sierra-to-casm/src/compiler.rs',
        harness='native/cairo-lang-sierra-to-casm/n_c14_pipeline.rs',
        props={'C14'},
        bound='known-input replay of findings/repro/*.sierra; build_function_parameters_refs over 1..=3 params with boundary sizes; check_references_on_stack at the 32767/32768-cell boundary',
        functions=[
            ('crates/cairo-lang-sierra-to-casm/src/references.rs', None, 'build_function_parameters_refs'),
            ('crates/cairo-lang-sierra-to-casm/src/invocations/mod.rs', None, 'check_references_on_stack'),
            ('crates/cairo-lang-sierra-to-casm/src/invocations/mem.rs', None, 'build_alloc_local'),
        ],
    ),
}
NATIVE['n_c14_mutations'] = dict(
    crate='cairo-lang-sierra-to-casm',
    host='crates/cairo-lang-sierra-to-casm/src/compiler.rs',
    harness='native/cairo-lang-sierra-to-casm/n_c14_mutations.rs',
    props={'C14'},
    bound='all single structured mutations (see unit) of 5 small valid programs in quick, 13 in thorough; a fixed sample of 12 (120) mutants of each of the 382 e2e programs; both metadata solver pairs',
    functions=[('crates/cairo-lang-sierra-to-casm/src/compiler.rs', None, 'compile')],
)
NATIVE['n_c14_type_sizes'] = dict(
    crate='cairo-lang-sierra-type-size',
    host='crates/cairo-lang-sierra-type-size/src/lib.rs',
    harness='native/cairo-lang-sierra-type-size/n_c14_type_sizes.rs',
    props={'C14'},
    bound='12 struct shapes at the i16 size boundary x {struct, enum}',
    functions=[('crates/cairo-lang-sierra-type-size/src/lib.rs', None, 'get_type_size_map')],
)
NATIVE['n_c14_specialize'] = dict(
    crate='cairo-lang-sierra',
    host='crates/cairo-lang-sierra/src/program_registry.rs',
    harness='native/cairo-lang-sierra/n_c14_specialize.rs',
    props={'C14'},
    bound='every generic libfunc id (CoreLibfunc::supported_ids) and every generic type id x all generic-argument lists of length 0..=2 over a universe '
          'of boundary types and values (about 45 in quick, 80 in thorough), length 3 over 8',
    functions=[('crates/cairo-lang-sierra/src/program_registry.rs', 'impl<TType: GenericType, TLibfunc: GenericLibfunc> ProgramRegistry<TType, TLibfunc>', 'new')],
)
NATIVE['n_c14_felt_mutants'] = dict(
    crate='cairo-lang-starknet-classes',
    host='crates/cairo-lang-starknet-classes/src/contract_class.rs',
    harness='native/cairo-lang-starknet-classes/n_c14_felt_mutants.rs',
    props={'C14'},
    bound='felt-level mutants (boundary value, +-1, delete, duplicate, truncate) at <= 400 (quick) / 1500 (thorough) positions of the published felts and '
          'of the decompressed felts of 3 (6) checked-in contract classes, through extract_sierra_program and from_contract_class',
    functions=[('crates/cairo-lang-starknet-classes/src/contract_class.rs', 'impl ContractClass', 'extract_sierra_program'),
               ('crates/cairo-lang-starknet-classes/src/felt252_serde.rs', None, 'sierra_from_felt252s')],
)
NATIVE['n_libfunc_sweep'] = dict(
    crate='cairo-lang-sierra-to-casm',
    host='crates/cairo-lang-sierra-to-casm/src/compiler.rs',
    harness='native/cairo-lang-sierra-to-casm/n_libfunc_sweep.rs',
    props={'C14', 'C04', 'C17', 'C15'},
    bound='every generic libfunc id x generic-argument lists of length 0..=2 over the boundary universe; each accepted declaration compiled as a '
          'one-invocation program; per-branch declared ap change / cost vs every path of the emitted instructions',
    functions=[('crates/cairo-lang-sierra-to-casm/src/compiler.rs', None, 'compile'),
               ('crates/cairo-lang-sierra-ap-change/src/core_libfunc_ap_change.rs', None, 'core_libfunc_ap_change')],
)
