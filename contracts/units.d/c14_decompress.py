"""C14 units: felt decompression (V), enum variant selector (K), const enum data (K)."""
VERUS = {
    'felt_decompress': dict(
        template='verus/felt_decompress.vrs',
        props={'C14'},
        probes=['__reach_decompress'],
        trusted=['BigUint and its digit iterator U64Digits are opaque external types; assumed total: BigUint::to_usize (== uninterpreted spec_to_usize), '
                 'BigUint::iter_u64_digits, U64Digits::next (any Option<u64>)',
                 'words_per_felt is external_body with the ASSUMED contract `256 <= n && n.is_power_of_two() ==> 1 <= r <= 31` (n: usize, so n < 2^64); '
                 'it is proved separately by a Kani unit over the powers of two 2^8..2^63',
                 'IntoOrPanic::into_or_panic is modelled per instantiation by a template trait (CastFrom): usize->u128 total, u128->usize requires the value '
                 'to fit (a violated requires is the panic); result has the same integer value',
                 'assumed std specs: bool::then_some (Some(t) iff true), usize::trailing_zeros (r <= 64, r < 64 for n != 0), usize::is_power_of_two '
                 '(total, == uninterpreted is_pow2), core::cmp::min (the smaller argument, via vstd OrdSpec); vstd specs used as shipped: slice split_first/'
                 'split_at/get/len, Option::unwrap_or_default, usize::checked_add, Vec::with_capacity/push',
                 'allocation bound: Vec::with_capacity has no precondition in vstd, so the bound (<= 31 * remaining felts, * 8 <= isize::MAX) is an assert woven '
                 'directly before the call; the anchor needle contains the argument expression, so a changed argument loses the anchor (undecided), never passes',
                 'PRE packed_values.len() <= 2^40 (A3 machine size: an in-memory felt vector)'],
    ),
}

_ENM = 'crates/cairo-lang-sierra-to-casm/src/invocations/enm.rs'
_CT = 'crates/cairo-lang-sierra/src/extensions/modules/const_type.rs'
KANI = {
    'variant_selector': dict(
        crate='cairo-lang-sierra-to-casm',
        host=_ENM,
        harness='kani/cairo-lang-sierra-to-casm/variant_selector.rs',
        props={'C14'},
        attrs=[dict(file=_ENM, fn='get_variant_selector',
                    lines=['#[cfg_attr(kani, kani::requires(index < n_variants))]',
                           '#[cfg_attr(kani, kani::ensures(|r: &Result<usize, InvocationError>| '
                           'crate::invocations::enm::__verif_variant_selector::selector_post(n_variants, index, r)))]'])],
        functions=[(_ENM, None, 'get_variant_selector')],
        trusted=['PRE index < n_variants of get_variant_selector is established upstream (validate_const_enum_data; EnumInitLibfunc::specialize '
                 'range check); c14_variant_selector_pre_needed shows inputs outside it do panic'],
    ),
    'const_enum_data': dict(
        crate='cairo-lang-sierra',
        host=_CT,
        harness='kani/cairo-lang-sierra/const_enum_data.rs',
        props={'C14'},
        functions=[(_CT, None, 'validate_const_enum_data'), (_CT, None, 'extract_const_info'),
                   ('crates/cairo-lang-sierra/src/extensions/mod.rs', None, 'extract_type_generic_args')],
        trusted=['validate_const_enum_data: BOUNDED - enum with 0..=3 variants (one harness per count), mock TypeSpecializationContext that knows one '
                 'type; selector = BigInt::from(u64) over the full u64 range plus the concrete -1; type ids full u64; num-bigint, SmolStr and '
                 'derivative equality run as real code'],
    ),
}

NATIVE = globals().get('NATIVE', {})
NATIVE['n_c14_decompress_total'] = dict(
    crate='cairo-lang-starknet-classes',
    host='crates/cairo-lang-starknet-classes/src/felt252_vec_compression.rs',
    harness='native/cairo-lang-starknet-classes/n_c14_decompress_total.rs',
    props={'C14'},
    bound='vectors of length <= 4 over 12 boundary felts; truncations / corruptions of 21 valid encodings',
    functions=[('crates/cairo-lang-starknet-classes/src/felt252_vec_compression.rs', None, 'decompress')],
)
VERUS['felt_decompress']['pair'] = 'n_c14_decompress_total'
