"""C16: assembled bytecode means what the instruction says."""
KANI = {'c16_encode': {'crate': 'cairo-lang-casm',
                'host': 'crates/cairo-lang-casm/src/assembler.rs',
                'harness': 'kani/cairo-lang-casm/c16_encode.rs',
                'props': {'C16'},
                'pair': 'n_c16_shapes',
                'functions': [('crates/cairo-lang-casm/src/assembler.rs', 'impl Instruction', 'assemble'),
                              ('crates/cairo-lang-casm/src/assembler.rs', 'impl ResOperand', 'to_res_description'),
                              ('crates/cairo-lang-casm/src/assembler.rs', 'impl DerefOrImmediate', 'to_res_description'),
                              ('crates/cairo-lang-casm/src/assembler.rs', 'impl Register', 'to_op1_addr'),
                              ('crates/cairo-lang-casm/src/assembler.rs', 'impl Operation', 'to_res'),
                              ('crates/cairo-lang-casm/src/encoder.rs', 'impl InstructionRepr', 'encode'),
                              ('crates/cairo-lang-casm/src/instructions.rs', 'impl InstructionBody', 'op_size'),
                              ('crates/cairo-lang-casm/src/instructions.rs', None, 'op_size_based_on_res_operands'),
                              ('crates/cairo-lang-casm/src/instructions.rs', 'impl CallInstruction', 'op_size'),
                              ('crates/cairo-lang-casm/src/instructions.rs', 'impl JumpInstruction', 'op_size'),
                              ('crates/cairo-lang-casm/src/instructions.rs', 'impl JnzInstruction', 'op_size'),
                              ('crates/cairo-lang-casm/src/instructions.rs', 'impl AssertEqInstruction', 'op_size'),
                              ('crates/cairo-lang-casm/src/instructions.rs', 'impl RetInstruction', 'op_size'),
                              ('crates/cairo-lang-casm/src/instructions.rs', 'impl AddApInstruction', 'op_size'),
                              ('crates/cairo-lang-casm/src/instructions.rs', 'impl Blake2sCompressInstruction', 'op_size')],
                'trusted': ['num-bigint BigInt::{from, to_u128, bitor, shl} run as real code under CBMC (not assumed)']}}
NATIVE = {'n_c16_shapes': {'crate': 'cairo-lang-casm',
                  'host': 'crates/cairo-lang-casm/src/encoder.rs',
                  'harness': 'native/cairo-lang-casm/n_c16_shapes.rs',
                  'props': {'C16'},
                  'bound': 'offsets {-32768,-32767,-2,-1,0,1,2,32766,32767}+6 seeded, both registers, every instruction shape, 4 immediates, 3 machine states',
                  'functions': [('crates/cairo-lang-casm/src/encoder.rs', 'impl InstructionRepr', 'encode'),
                                ('crates/cairo-lang-casm/src/assembler.rs', 'impl Instruction', 'assemble')]}}
VERUS = {
    'casm_imm': dict(
        template='verus/casm_imm.vrs',
        props={'C16'},
        probes=['__reach_assemble'],
        pair='n_c16_shapes',
        trusted=['BigInt is opaque; BigInt::clone is assumed to return an equal value', 'Hint is opaque (carried, never inspected)',
                 'derives on types holding opaque fields are dropped'],
    ),
}

NATIVE['n_c16_reloc'] = dict(
    crate='cairo-lang-sierra-to-casm',
    host='crates/cairo-lang-sierra-to-casm/src/relocations.rs',
    harness='native/cairo-lang-sierra-to-casm/n_c16_reloc.rs',
    props={'C16'},
    bound='Relocation::apply over boundary offsets/immediates x 23 shapes x 2 map-free variants; relocate_instructions over 16 instruction patterns',
    functions=[('crates/cairo-lang-sierra-to-casm/src/relocations.rs', 'impl Relocation', 'apply'),
               ('crates/cairo-lang-sierra-to-casm/src/relocations.rs', None, 'relocate_instructions')],
)
NATIVE['n_c16_oracle_vs_vm'] = dict(
    crate='cairo-lang-runner',
    host='crates/cairo-lang-runner/src/lib.rs',
    harness='native/cairo-lang-runner/n_c16_oracle_vs_vm.rs',
    props={'C16'},
    bound='3 hand-written CASM snippets + up to 8 compiled Sierra examples run on the real cairo-vm; every trace step compared with the oracle',
    functions=[],
)
NATIVE['n_c16_layout'] = dict(
    crate='cairo-lang-sierra-to-casm',
    host='crates/cairo-lang-sierra-to-casm/src/compiler.rs',
    harness='native/cairo-lang-sierra-to-casm/n_c16_layout.rs',
    props={'C16', 'C19'},
    bound='every relative immediate target and every hint offset of every compiled corpus program (file corpus, 382 e2e programs, corpus/c16 with two circuit descriptors)',
    functions=[('crates/cairo-lang-sierra-to-casm/src/compiler.rs', 'impl ConstsInfo', 'new'),
               ('crates/cairo-lang-sierra-to-casm/src/relocations.rs', None, 'relocate_instructions')],
)
NATIVE['n_c16_entry_code'] = dict(
    crate='cairo-lang-runnable-utils',
    host='crates/cairo-lang-runnable-utils/src/builder.rs',
    harness='native/cairo-lang-runnable-utils/n_c16_entry_code.rs',
    props={'C16'},
    bound='entry codes (testing configuration) for 24 code offsets (incl. the 2^15 and 2^16 boundaries, up to 2^24) x 5 parameter lists',
    functions=[('crates/cairo-lang-runnable-utils/src/builder.rs', None, 'create_entry_code_from_params')],
)
