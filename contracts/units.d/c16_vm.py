"""C16-5 (thorough tier): layout oracle == cairo-vm's decoder."""
KANI = {
    'c16_vm_decoder': dict(
        crate='cairo-lang-runner',
        host='crates/cairo-lang-runner/src/lib.rs',
        harness='kani/cairo-lang-runner/c16_vm_decoder.rs',
        props={'C16'},
        functions=[],
        trusted=['cairo_vm::vm::decoding::decoder::decode_instruction runs as real code (registry crate cairo-vm 3.2.0)'],
    ),
}
