"""C17 (and the parts of C14 that share its units)."""
VERUS = {'env_ap_frame': {'template': 'verus/env_ap_frame.vrs',
                  'props': {'C17', 'C14'},
                  'probes': ['__reach_handle_alloc_local'],
                  'trusted': ['derive(Clone) of FrameState replaced by an assumed spec (clone returns an equal value)']}}
KANI = {'c17_apchange': {'crate': 'cairo-lang-casm',
                  'host': 'crates/cairo-lang-casm/src/ap_change.rs',
                  'harness': 'kani/cairo-lang-casm/c17_apchange.rs',
                  'props': {'C17'},
                  'attrs': [{'file': 'crates/cairo-lang-casm/src/ap_change.rs',
                             'impl': 'impl ApplyApChange for CellRef',
                             'fn': 'apply_known_ap_change',
                             'lines': ['#[cfg_attr(kani, kani::modifies(self))]',
                                       '#[cfg_attr(kani, kani::ensures(|r: &bool| crate::ap_change::__verif_c17_apchange::cellref_post(old(*self), *self, '
                                       'ap_change, *r)))]']}],
                  'functions': [('crates/cairo-lang-casm/src/ap_change.rs', 'impl ApplyApChange for CellRef', 'apply_known_ap_change'),
                                ('crates/cairo-lang-casm/src/ap_change.rs', 'impl ApplyApChange for CellRef', 'can_apply_unknown'),
                                ('crates/cairo-lang-casm/src/ap_change.rs', 'impl ApplyApChange for DerefOrImmediate', 'apply_known_ap_change'),
                                ('crates/cairo-lang-casm/src/ap_change.rs', 'impl ApplyApChange for DerefOrImmediate', 'can_apply_unknown'),
                                ('crates/cairo-lang-casm/src/ap_change.rs', 'impl ApplyApChange for BinOpOperand', 'apply_known_ap_change'),
                                ('crates/cairo-lang-casm/src/ap_change.rs', 'impl ApplyApChange for BinOpOperand', 'can_apply_unknown'),
                                ('crates/cairo-lang-casm/src/ap_change.rs', 'impl ApplyApChange for ResOperand', 'apply_known_ap_change'),
                                ('crates/cairo-lang-casm/src/ap_change.rs', 'impl ApplyApChange for ResOperand', 'can_apply_unknown'),
                                ('crates/cairo-lang-casm/src/cell_expression.rs', 'impl ApplyApChange for CellExpression', 'apply_known_ap_change'),
                                ('crates/cairo-lang-casm/src/cell_expression.rs', 'impl ApplyApChange for CellExpression', 'can_apply_unknown'),
                                ('crates/cairo-lang-casm/src/ap_change.rs', 'trait ApplyApChange: Sized', 'apply_ap_change'),
                                ('crates/cairo-lang-casm/src/ap_change.rs', 'trait ApplyApChange: Sized', 'unchecked_apply_known_ap_change')],
                  'trusted': ['callers of CellRef::apply_known_ap_change are verified against its contract (stub_verified), not its body']}}

KANI['c17_ref_expr'] = {
    'crate': 'cairo-lang-sierra-to-casm',
    'host': 'crates/cairo-lang-sierra-to-casm/src/references.rs',
    'harness': 'kani/cairo-lang-sierra-to-casm/c17_ref_expr.rs',
    'props': {'C17'},
    'functions': [('crates/cairo-lang-sierra-to-casm/src/references.rs', 'impl ApplyApChange for ReferenceExpression', 'apply_known_ap_change'),
                  ('crates/cairo-lang-sierra-to-casm/src/references.rs', 'impl ApplyApChange for ReferenceExpression', 'can_apply_unknown')],
    'trusted': [],
}

NATIVE = {
    'n_c17_return': {
        'crate': 'cairo-lang-sierra-to-casm',
        'host': 'crates/cairo-lang-sierra-to-casm/src/annotations.rs',
        'harness': 'native/cairo-lang-sierra-to-casm/n_c17_return.rs',
        'props': {'C17'},
        'bound': 'declared change in {None,0,1,2,3,MAX-1,MAX} x tracking {Disabled, Enabled x 3 bases} x 3 frame states',
        'functions': [('crates/cairo-lang-sierra-to-casm/src/annotations.rs', 'impl ProgramAnnotations', 'validate_return_properties'),
                      ('crates/cairo-lang-sierra-to-casm/src/annotations.rs', 'impl ProgramAnnotations', 'validate_final_annotations')],
    },
}

NATIVE['n_c17_casm_paths'] = {
    'crate': 'cairo-lang-sierra-to-casm',
    'host': 'crates/cairo-lang-sierra-to-casm/src/compiler.rs',
    'harness': 'native/cairo-lang-sierra-to-casm/n_c17_casm_paths.rs',
    'props': {'C17'},
    'bound': 'Sierra corpus: contracts/native/corpus/c17/*.sierra + the repository\'s *.sierra files that compile with the default configuration; every entry-to-ret path of every function with a Known declared ap change',
    'functions': [('crates/cairo-lang-sierra-ap-change/src/core_libfunc_ap_change.rs', None, 'core_libfunc_ap_change'),
                  ('crates/cairo-lang-sierra-to-casm/src/compiler.rs', None, 'compile')],
}

NATIVE['n_c17_env_twin'] = {
    'crate': 'cairo-lang-sierra-to-casm',
    'host': 'crates/cairo-lang-sierra-to-casm/src/environment/mod.rs',
    'harness': 'native/cairo-lang-sierra-to-casm/n_c17_env_twin.rs',
    'props': {'C17', 'C14'},
    'bound': 'boundary enumeration of tracking / ap change / frame state / size',
    'functions': [('crates/cairo-lang-sierra-to-casm/src/environment/ap_tracking.rs', None, 'update_ap_tracking'),
                  ('crates/cairo-lang-sierra-to-casm/src/environment/frame_state.rs', None, 'handle_alloc_local'),
                  ('crates/cairo-lang-sierra-to-casm/src/environment/frame_state.rs', None, 'handle_finalize_locals'),
                  ('crates/cairo-lang-sierra-to-casm/src/environment/frame_state.rs', None, 'validate_final_frame_state')],
}
VERUS['env_ap_frame']['pair'] = 'n_c17_env_twin'
