"""C18: text serialisation, bounded stand-in on the repository's printed programs."""
NATIVE = {
    'n_c18_text': dict(
        crate='cairo-lang-sierra',
        host='crates/cairo-lang-sierra/src/lib.rs',
        harness='native/cairo-lang-sierra/n_c18_text.rs',
        props={'C18'},
        bound='printed Sierra programs of the repository (a spread of ~14 in quick, all 50 in thorough)',
        functions=[],
    ),
}
NATIVE['n_c18_compress'] = dict(
    crate='cairo-lang-starknet-classes',
    host='crates/cairo-lang-starknet-classes/src/felt252_vec_compression.rs',
    harness='native/cairo-lang-starknet-classes/n_c18_compress.rs',
    props={'C18', 'C19'},
    bound='felt vectors of length 0..=260 x distinct-value counts up to 2049',
    functions=[('crates/cairo-lang-starknet-classes/src/felt252_vec_compression.rs', None, 'compress'),
               ('crates/cairo-lang-starknet-classes/src/felt252_vec_compression.rs', None, 'decompress')],
)
NATIVE['n_c18_debug_info'] = dict(
    crate='cairo-lang-starknet-classes',
    host='crates/cairo-lang-starknet-classes/src/contract_class.rs',
    harness='native/cairo-lang-starknet-classes/n_c18_debug_info.rs',
    props={'C18'},
    bound='every Sierra program recorded in the e2e test files (382) and a spread of the test-data programs (all in thorough): publish with debug names, read back, print, parse',
    functions=[('crates/cairo-lang-sierra/src/debug_info.rs', 'impl DebugInfo', 'populate'),
               ('crates/cairo-lang-sierra/src/debug_info.rs', 'impl DebugInfo', 'extract')],
)
