"""C18: text serialisation, bounded stand-in on the repository's printed programs."""
NATIVE = {
    'n_c18_text': dict(
        crate='cairo-lang-sierra',
        host='crates/cairo-lang-sierra/src/lib.rs',
        harness='native/cairo-lang-sierra/n_c18_text.rs',
        props={'C18'},
        bound='printed Sierra programs of the repository (a spread of ~14 in quick, all 50 in thorough)',
        functions=[],
    ),
}
