"""Registry of units under contract and of the claimed properties.

Units live in contracts/units.d/*.py (one fragment per property group), each defining
VERUS / KANI / NATIVE dicts that are merged here.

VERUS[name]  : template (woven from /repo on every run), properties served,
               reachability probes (must fail), trusted assumptions.
KANI[name]   : crate, host source file (the harness module is appended there as
               a child module under #[cfg(kani)]), harness file, contract
               attributes to insert above real functions (add-only), functions
               under contract (for sha256 / evidence).
NATIVE[name] : bounded stand-ins and replay entry points (#[cfg(test)]).
PROPS[id]    : scope, assumptions, unverified surrounding code.
"""

A0 = ('A0 execution-level composition: "every checker step is right => every execution trace of generated CASM obeys the '
      'property" is argued in DESIGN.md 2.3 but not mechanised (needs a CASM semantics and the libfunc generators)')
A1 = 'A1 tools: rustc (pinned toolchains of Kani and Verus), Kani 0.68 + CBMC 6.11 + CaDiCaL, Verus 0.2026.09.13 + its Z3, vstd specs of Vec/slice/Option/Result/checked_*'
A3 = 'A3 machine arithmetic is exact (bit-precise in Kani, overflow obligations in Verus); usize is 64 bits; counters of cells/ap offsets that a unit adds are assumed < 2^48 where a requires says so'
A4 = 'A4 the weaver/injector (python, engine/) is trusted to copy item text verbatim; per-item sha256 is in functions_under_contract'

VERUS = {}
KANI = {}
NATIVE = {}


def _load_fragments():
    import glob
    import os
    d = os.path.join(os.path.dirname(os.path.abspath(__file__)), 'units.d')
    for f in sorted(glob.glob(os.path.join(d, '*.py'))):
        ns = {}
        exec(compile(open(f).read(), f, 'exec'), ns)
        for name, tgt in (('VERUS', VERUS), ('KANI', KANI), ('NATIVE', NATIVE)):
            for k, v in ns.get(name, {}).items():
                if k in tgt:
                    raise RuntimeError('duplicate unit %s in %s' % (k, f))
                tgt[k] = v


_load_fragments()

PROPS = {
    'C16': dict(
        technique='Kani function-contract style proofs on the real assemble/encode (loop-free, full symbolic domain => complete), oracle decoder + VM step; native bounded stand-in for opcode-extension bits',
        level_text='Deductive proof per instruction shape: every obligation generated from the current source of assemble/encode/op_size is discharged by CBMC over the whole input domain (no bound). Extension bits (QM31/Blake2s) of encode and BigInt equality of the immediate word are bounded native checks, reported separately.',
        level_note='Trusted: the oracle (spec_decode/vm_step written from the Cairo machine definition), cairo-vm executing decoded instructions accordingly, Kani/CBMC, num-bigint run as real code. Bounded: opcode-extension bits and words[1]==imm over boundary offsets/4 immediates; the layout compile() produces (relative targets land on instructions / ret words, hints at the pc of their instruction) only on the compiled corpus (n_c16_layout).',
        scope='Every CASM instruction shape the toolchain can emit: the word produced by assemble().encode() decodes (layout oracle) and '
              'executes (state-transition oracle) to exactly the meaning of the CASM text, for both registers, all 2^16 values of every '
              'offset, inc_ap, and any (pc, ap, fp); size == op_size == 1 + has_immediate.',
        assumptions=[A0, A1, A3, A4,
                     'A5 cairo-vm executes a decoded instruction per the Cairo machine definition (the oracle vm_step); its decoder is '
                     'compared with the oracle spec_decode in the thorough tier'],
        outside=['cairo-vm execution of a decoded instruction (trusted, A5)', 'crates/cairo-lang-casm/src/inline.rs macros',
                 'Relocation::apply const-segment variants (hash-map lookups)', 'CairoProgram::assemble_ex and compile()\'s program_offset loop (sum of per-instruction sizes)'],
    ),
    'C17': dict(
        technique='Verus contracts on lifted real functions (ap tracking, frame state) + Kani function contracts on ApplyApChange impls and builder bookkeeping; composition lemmas in Verus',
        level_text='Deductive proof of the checker side: each function that validates or propagates ap changes satisfies an iff-contract written from the property statement, for all arguments.',
        level_note='Trusted: A0 (trace-level induction not mechanised), tools, assumed Clone specs. The solvers and the libfunc ap-change table are outside contracts; declared-vs-emitted ap movement is covered only by bounded native stand-ins: the path-sum over the Sierra corpus and generated boundary programs (n_c17_casm_paths), the per-libfunc table-vs-emitted comparison over the boundary universe of generic arguments (n_libfunc_sweep), trace-level call instances of compiled Cairo programs and of hand-written Sierra shapes on the VM under both solvers (n_trace_corpus); the return check by n_c17_return. One open known finding (F21: dummy_function_call declared Known(2)).',
        scope='Checker side of ap-change soundness: reference shifting, ap tracking accumulation, frame-state transitions, environment merge equality, builder ap bookkeeping.',
        assumptions=[A0, A1, A3, A4],
        outside=['validate_return_properties (Metadata lookup + closure)', 'ApChange mapping inside CompiledInvocationBuilder::build (closure in zip_eq/map/collect)',
                 'propagate_annotations (hash map + closures)', 'both ap-change solvers', 'core_libfunc_ap_change.rs tables'],
    ),
    'C14': dict(
        technique='Verus overflow/index/unwrap obligations on lifted real functions + Kani bit-precise harnesses; native bounded stand-ins',
        level_text='Panic-freedom (no overflow, no out-of-range index, no failed unwrap, bounded allocation) of each listed unit for all arguments under stated preconditions.',
        level_note='Per-unit claim, not whole-pipeline. Preconditions cite the upstream validator that establishes them. The rest of the untrusted path (ProgramRegistry, solvers, compile loop, build_* generators, type sizes) is covered only by bounded native stand-ins: known-input replay, a structured mutation space over small programs (n_c14_mutations), size-boundary programs (n_c14_type_sizes), a sweep of every generic libfunc/type id over boundary generic-argument lists through ProgramRegistry::new (n_c14_specialize), generated contracts and class mutants through the felt-serialized path into from_contract_class (n_class_gen), felt-level mutants of checked-in classes (n_c14_felt_mutants), one-invocation programs around every accepted libfunc declaration through both metadata solvers and compile (n_libfunc_sweep). Known-input replay has a 150 s limit per input (never hang). Seven open known findings (F28-F34: cost / ap-change integer overflow on call towers, the infallible CasmBuilder API at the i16 edges), each a KNOWN-FINDING line keyed by its input.',
        scope='Arithmetic, indexing, unwrap and allocation obligations of the units on the untrusted-Sierra path; not the whole pipeline.',
        assumptions=[A0, A1, A3, A4,
                     'A6 preconditions that cite an upstream validator (e.g. type sizes in [0, i16::MAX] from get_type_size_map) trust that validator'],
        outside=['ProgramRegistry::new and every libfunc specialize (trait objects, HashMap)', 'gas/ap solvers', "compile()'s main loop", 'all build_* generators',
                 'CasmContractClass::from_contract_class'],
    ),
    'C04': dict(
        technique='Kani function-contract proofs on the real cost/wallet/builder-step functions; Verus composition lemmas',
        level_text='Deductive proof of the checker side of gas accounting: cost price is linear with the published table, the wallet update is exact and rejects negatives, merges require equal wallets, builder step counting is exact.',
        level_note='Trusted: A0, tools. Bounded Kani units: wallet key universe (2 tokens), builder var maps (<= 2 vars). Outside contracts and covered only by bounded native stand-ins (never counted as proved): the per-libfunc cost table vs emitted code (n_c04_casm_steps, Sierra corpus), gas metadata validation (n_c04_metadata), the caller-side entry cost and run-time price table of the runner (n_c04_entry_cost), the entry-point cost check of contract classes on generated contracts with an unpaid builtin use (n_class_gen), the per-libfunc cost-vs-emitted-steps comparison over the boundary universe (n_libfunc_sweep), and the inequality of the property statement on VM runs of compiled Cairo programs under both solvers (n_trace_corpus). The gas solvers are outside.',
        scope='Checker side of gas soundness (DESIGN.md 4/C04).',
        assumptions=[A0, A1, A3, A4],
        outside=['gas solvers (compute_costs.rs, eq-solver)', 'core_libfunc_cost_base.rs tables', "the 'Wrong costs for' comparison inside build_from_casm_builder_ex", 'runner gas accounting'],
    ),
    'C15': dict(
        technique='Verus contracts on lifted EditState::take_vars/put_vars with an abstract map view; Kani harnesses for type/consistency checks and drop/dup signatures',
        level_text='Deductive proof that the acceptance primitives (take exactly once, never override, types match, merges consistent, drop/dup only when allowed) are right for every map and id list.',
        level_note='Trusted: A0, tools, assumed indexmap specs (swap_remove/insert as a finite map). compile()\'s own control flow, propagate_annotations and ProgramRegistry::validate_statement are outside contracts and covered only by bounded native stand-ins: n_c15_merge and n_c15_independent (accepted ==> an independent typing/linearity checker accepts, over the corpus, its single mutations and generated interleaved layouts). The ownership flags of composite types, which that checker reads from the real registry, are checked against containment laws by n_c15_type_info (bounded).',
        scope='Acceptance primitives of Sierra linearity and typing (DESIGN.md 4/C15).',
        assumptions=[A0, A1, A3, A4, 'A2 indexmap::IndexMap::{swap_remove, insert, reserve, len} behave as an insertion-ordered finite map (assumed specs in the Verus unit)'],
        outside=["compile()'s control flow (DanglingReferences / ExpectedBranchAlign tests)", 'ProgramRegistry::validate_statement', 'libfunc signatures',
                 'ProgramAnnotations::test_references_consistency (per-variable core test_var_consistency is proved)'],
    ),
    'C18': dict(
        technique='Kani inverse-pair harnesses on the real Felt252Serde element codecs; native bounded stand-ins for BigInt codecs; Verus contract on CanonicalReplacer',
        level_text='Deductive proof that every felt252 element codec within reach is an inverse pair (deserialize(serialize(x)) == x, exact consumption, frame on the output vector).',
        level_note='Element codecs and CanonicalReplacer are proved. The text serialisation (generated LALRPOP parser), the compress/decompress round trip, Vec/BigInt codecs are covered only by bounded native stand-ins (n_c18_text on the repository\'s printed programs, n_c18_compress, n_felt_serde_*). Debug names through publication, and byte-identical CASM of the source / published / read-back / re-parsed program, are covered only by the bounded stand-in n_c18_debug_info (396 recorded programs). The versioned JSON of programs (serde derive, with and without debug info) is covered only by the bounded stand-in n_c18_text/json_round_trip on the same programs.',
        scope='felt252 serde element codecs and canonical renaming (DESIGN.md 4/C18).',
        assumptions=[A0, A1, A3, A4],
        outside=['generic_id_serde! (string ids, keccak table)', 'compress/decompress round trip', 'Program::{serialize,deserialize} loops', 'fmt.rs / LALRPOP grammar', 'JSON (serde derive)'],
    ),
    'C19': dict(
        technique='Verus contracts with loop invariants on lifted contract_segmentation functions',
        level_text='Deductive proof of the segmentation conjunct: segment lengths are positive and add up to the bytecode length; branch targets stay inside their function.',
        level_note='Proved: the segmentation conjunct. The other conjuncts live in closures of a 250-line function that needs a full compile; selector order, canonical words, hint offsets, segment sum, reproducibility and the felt round trip are covered only by bounded native stand-ins on the checked-in contract classes (n_c19_class: selector order, entry offsets vs function starts, builtin lists and their protocol order, canonical words, hint offsets, segment sum, reproducibility; n_c18_compress: felt round trip; n_class_gen: entry-point signature validation on generated contracts over every builtin-type sequence up to length 3/4 and all 512 protocol-shaped signatures, and on single mutations of valid contracts). The first conjunct (published == direct) is covered only by the bounded stand-in n_c19_class/published_equals_direct (checked-in contracts: direct compile == freshly published == checked-in published). Hash stability under JSON round trips is covered only by the bounded stand-in n_c19_class/json_hash_stable (checked-in classes, compact/pretty JSON, with/without pythonic hints).',
        scope='Bytecode segmentation conjunct (DESIGN.md 4/C19).',
        assumptions=[A0, A1, A3, A4],
        outside=['find_functions_segments', 'functions_statement_ids_to_offsets', 'consts_segments_offsets', 'all other conjuncts of C19 (selectors, builtins, entry offsets, hashes)'],
    ),
}
