"""Registry of units under contract and of the claimed properties.

VERUS[name]  : template (woven from /repo on every run), properties served,
               reachability probes (must fail), trusted assumptions.
KANI[name]   : crate, host source file (the harness module is appended there as
               a child module under #[cfg(kani)]), harness file, contract
               attributes to insert above real functions (add-only), functions
               under contract (for sha256 / evidence).
NATIVE[name] : bounded stand-ins and replay entry points (#[cfg(test)]).
PROPS[id]    : scope, assumptions, unverified surrounding code.
"""

A0 = ('A0 execution-level composition: "every checker step is right => every execution trace of generated CASM obeys the '
      'property" is argued in DESIGN.md 2.3 but not mechanised (needs a CASM semantics and the libfunc generators)')
A1 = 'A1 tools: rustc (pinned toolchains of Kani and Verus), Kani 0.68 + CBMC 6.11 + CaDiCaL, Verus 0.2026.09.13 + its Z3, vstd specs of Vec/slice/Option/Result/checked_*'
A3 = 'A3 machine arithmetic is exact (bit-precise in Kani, overflow obligations in Verus); usize is 64 bits; counters of cells/ap offsets that a unit adds are assumed < 2^48 where a requires says so'
A4 = 'A4 the weaver/injector (python, engine/) is trusted to copy item text verbatim; per-item sha256 is in functions_under_contract'

VERUS = {
    'env_ap_frame': dict(
        template='verus/env_ap_frame.vrs',
        props={'C17', 'C14'},
        probes=['__reach_handle_alloc_local'],
        trusted=['derive(Clone) of FrameState replaced by an assumed spec (clone returns an equal value)'],
    ),
}

KANI = {
    'c16_encode': dict(
        crate='cairo-lang-casm',
        host='crates/cairo-lang-casm/src/assembler.rs',
        harness='kani/cairo-lang-casm/c16_encode.rs',
        props={'C16'},
        pair='n_c16_shapes',
        functions=[
            ('crates/cairo-lang-casm/src/assembler.rs', 'impl Instruction', 'assemble'),
            ('crates/cairo-lang-casm/src/assembler.rs', 'impl ResOperand', 'to_res_description'),
            ('crates/cairo-lang-casm/src/assembler.rs', 'impl DerefOrImmediate', 'to_res_description'),
            ('crates/cairo-lang-casm/src/assembler.rs', 'impl Register', 'to_op1_addr'),
            ('crates/cairo-lang-casm/src/assembler.rs', 'impl Operation', 'to_res'),
            ('crates/cairo-lang-casm/src/encoder.rs', 'impl InstructionRepr', 'encode'),
            ('crates/cairo-lang-casm/src/instructions.rs', 'impl InstructionBody', 'op_size'),
            ('crates/cairo-lang-casm/src/instructions.rs', None, 'op_size_based_on_res_operands'),
            ('crates/cairo-lang-casm/src/instructions.rs', 'impl CallInstruction', 'op_size'),
            ('crates/cairo-lang-casm/src/instructions.rs', 'impl JumpInstruction', 'op_size'),
            ('crates/cairo-lang-casm/src/instructions.rs', 'impl JnzInstruction', 'op_size'),
            ('crates/cairo-lang-casm/src/instructions.rs', 'impl AssertEqInstruction', 'op_size'),
            ('crates/cairo-lang-casm/src/instructions.rs', 'impl RetInstruction', 'op_size'),
            ('crates/cairo-lang-casm/src/instructions.rs', 'impl AddApInstruction', 'op_size'),
            ('crates/cairo-lang-casm/src/instructions.rs', 'impl Blake2sCompressInstruction', 'op_size'),
        ],
        trusted=['num-bigint BigInt::{from, to_u128, bitor, shl} run as real code under CBMC (not assumed)'],
    ),
}

NATIVE = {
    'n_c16_shapes': dict(
        crate='cairo-lang-casm',
        host='crates/cairo-lang-casm/src/encoder.rs',
        harness='native/cairo-lang-casm/n_c16_shapes.rs',
        props={'C16'},
        bound='offsets {-32768,-32767,-2,-1,0,1,2,32766,32767}+6 seeded, both registers, every instruction shape, 4 immediates, 3 machine states',
        functions=[('crates/cairo-lang-casm/src/encoder.rs', 'impl InstructionRepr', 'encode'), ('crates/cairo-lang-casm/src/assembler.rs', 'impl Instruction', 'assemble')],
    ),
}

PROPS = {
    'C16': dict(
        scope='Every CASM instruction shape the toolchain can emit: the word produced by assemble().encode() decodes (layout oracle) and '
              'executes (state-transition oracle) to exactly the meaning of the CASM text, for both registers, all 2^16 values of every '
              'offset, inc_ap, and any (pc, ap, fp); size == op_size == 1 + has_immediate.',
        assumptions=[A0, A1, A3, A4,
                     'A5 cairo-vm executes a decoded instruction per the Cairo machine definition (the oracle vm_step); its decoder is '
                     'compared with the oracle spec_decode in the thorough tier'],
        outside=['cairo-vm execution of a decoded instruction (trusted, A5)', 'crates/cairo-lang-casm/src/inline.rs macros',
                 'Relocation::apply const-segment variants (hash-map lookups)', 'CairoProgram::assemble_ex and compile()\'s program_offset loop (sum of per-instruction sizes)'],
    ),
    'C17': dict(
        scope='Checker side of ap-change soundness: reference shifting, ap tracking accumulation, frame-state transitions, environment merge equality, builder ap bookkeeping.',
        assumptions=[A0, A1, A3, A4],
        outside=['validate_return_properties (Metadata lookup + closure)', 'ApChange mapping inside CompiledInvocationBuilder::build (closure in zip_eq/map/collect)',
                 'propagate_annotations (hash map + closures)', 'both ap-change solvers', 'core_libfunc_ap_change.rs tables'],
    ),
    'C14': dict(
        scope='Arithmetic, indexing, unwrap and allocation obligations of the units on the untrusted-Sierra path; not the whole pipeline.',
        assumptions=[A0, A1, A3, A4,
                     'A6 preconditions that cite an upstream validator (e.g. type sizes in [0, i16::MAX] from get_type_size_map) trust that validator'],
        outside=['ProgramRegistry::new and every libfunc specialize (trait objects, HashMap)', 'gas/ap solvers', "compile()'s main loop", 'all build_* generators',
                 'CasmContractClass::from_contract_class'],
    ),
}
