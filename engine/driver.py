#!/usr/bin/env python3
"""./check <ID|all> [--tier quick|thorough] [--replay FILE] [--repo PATH] [--only UNIT]

Exit 0: every locked obligation discharged (open known findings are printed as
        KNOWN-FINDING lines), probes behave, scan clean.
Exit 1: `VIOLATION property=<id> replay=<path>` - an obligation that is
        discharged on the unchanged tree now fails with a verifier verdict.
Exit 2: `UNDECIDED ...` - tool/harness trouble (lost anchor, timeout, rlimit,
        unsupported construct). Never a VIOLATION.
"""
import argparse
import concurrent.futures
import hashlib
import json
import os
import re
import shutil
import sys
import time
import traceback

HERE = os.path.dirname(os.path.abspath(__file__))
VERIF = os.path.dirname(HERE)
sys.path.insert(0, HERE)
sys.path.insert(0, os.path.join(VERIF, 'contracts'))

import kani as K  # noqa: E402
import weave as W  # noqa: E402
import native as N  # noqa: E402
from rustscan import ScanError  # noqa: E402
from scratch import Scratch, sha256_item  # noqa: E402
import units as U  # noqa: E402

CONTRACTS = os.path.join(VERIF, 'contracts')
EVIDENCE = os.environ.get('VERIF_EVIDENCE_DIR') or os.path.join(VERIF, 'evidence')
REPLAY_DIR = os.path.join(EVIDENCE, 'replay')
LOG_DIR = os.path.join(EVIDENCE, 'logs')
KNOWN = os.path.join(VERIF, 'findings', 'known_findings.json')
LOCK = os.path.join(CONTRACTS, 'obligations.lock')


def log(msg):
    print(msg, flush=True)


class Obl:
    """One obligation (or bundle) with its verdict."""

    def __init__(self, oid, engine, unit, status, detail='', count=1, bounded=None, time_s=0.0, extra=None):
        self.id = oid
        self.engine = engine
        self.unit = unit
        self.status = status      # discharged | failed | undecided | probe-ok | probe-broken | bounded-ok
        self.detail = detail
        self.count = count        # number of verifier checks bundled
        self.bounded = bounded    # None or bound text
        self.time_s = time_s
        self.extra = extra or {}


# ---------------------------------------------------------------- V engine
def run_verus_unit(name, spec, repo, tier, workdir):
    obls = []
    info = {'unit': name, 'engine': 'verus', 'functions': [], 'drops': [], 'rewrites': [], 'trusted': spec.get('trusted', [])}
    tpl = os.path.join(CONTRACTS, spec['template'])
    try:
        text, lifted, origin = W.weave(repo, tpl)
    except (ScanError, W.WeaveError, OSError) as e:
        obls.append(Obl('V/%s/weave' % name, 'verus', name, 'undecided', 'lost anchor: %s' % e))
        return obls, info
    path = os.path.join(workdir, 'v_%s.rs' % name)
    with open(path, 'w') as f:
        f.write(text)
    for L in lifted:
        info['functions'].append({'path': L.relpath, 'item': '%s %s' % (L.kind, L.name), 'impl': L.impl,
                                  'line': L.src_start_line, 'sha256': L.sha256, 'engine': 'verus',
                                  'mode': 'complete' if L.kind == 'fn' else 'type'})
        info['drops'] += ['%s: %s' % (L.name, d) for d in L.drops]
        info['rewrites'] += ['%s: %s' % (L.name, r) for r in L.rewrites]
    rlimit = spec.get('rlimit')
    rc, js, err, wall, cmd = W.run_verus(path, rlimit=rlimit)
    info['cmd'] = cmd
    info['wall_s'] = wall
    errs = [e for e in W.parse_verus_stderr(err) if e['level'] == 'error' and not e['message'].startswith('aborting due to')]
    if js is None or 'verification-results' not in js:
        obls.append(Obl('V/%s/run' % name, 'verus', name, 'undecided', 'verus produced no result: %s' % err[-800:]))
        return obls, info
    vr = js['verification-results']
    lines = text.split('\n')

    def enclosing_fn(line_no):
        for k in range(min(line_no, len(lines)) - 1, -1, -1):
            m = re.search(r'\bfn\s+(\w+)', lines[k])
            if m and not lines[k].lstrip().startswith('//'):
                return m.group(1)
        return '?'

    # rlimit / non-verdict errors -> retry once with bigger rlimit
    nonverdict = [e for e in errs if not W.is_verdict(e['message'])]
    if nonverdict and any('rlimit' in e['message'].lower() or 'resource limit' in e['message'].lower() for e in nonverdict):
        rc, js, err, wall2, cmd = W.run_verus(path, rlimit=(rlimit or 10) * 4)
        info['wall_s'] += wall2
        errs = [e for e in W.parse_verus_stderr(err) if e['level'] == 'error' and not e['message'].startswith('aborting due to')]
        nonverdict = [e for e in errs if not W.is_verdict(e['message'])]
        vr = js['verification-results'] if js else {}
    if nonverdict or vr.get('encountered-vir-error'):
        msg = '; '.join('%s (line %s: %s)' % (e['message'], e['line'], lines[e['line'] - 1].strip() if e['line'] and e['line'] <= len(lines) else '') for e in nonverdict[:3])
        obls.append(Obl('V/%s/run' % name, 'verus', name, 'undecided', 'verus rejected the woven file: %s' % msg,
                        extra={'stderr': err[-3000:]}))
        return obls, info
    # per function status
    fb = []
    try:
        for m in js['times-ms']['smt']['smt-run-module-times']:
            fb += m.get('function-breakdown', [])
    except Exception:
        fb = []
    fn_time = {}
    for f in fb:
        fname = f['function'].split('::')[-1]
        fn_time[fname] = fn_time.get(fname, 0) + f.get('time-micros', 0) / 1e6
    failed_by_fn = {}
    for e in errs:
        fn = enclosing_fn(e['line']) if e['line'] else '?'
        failed_by_fn.setdefault(fn, []).append(e)
    probes = set(spec.get('probes', []))
    # all functions Verus checked = exec/proof fns in the woven text
    checked = []
    for i, ln in enumerate(lines):
        if ln.lstrip().startswith('//'):
            continue
        m = re.match(r'\s*(?:pub(?:\([a-z]+\))?\s+)?(?:(open|closed|uninterp)\s+)?(?:(spec|proof|exec|broadcast proof|axiom)\s+)?(?:const\s+)?fn\s+(\w+)', ln)
        if m and m.group(2) != 'spec' and m.group(3) not in checked and m.group(3) != 'main':
            # skip external_body fns (assumed specs)
            prev = '\n'.join(lines[max(0, i - 3):i])
            if 'external_body' in prev or 'external' in prev and 'verifier' in prev:
                continue
            checked.append(m.group(3))
    lifted_fn_names = {L.name for L in lifted if L.kind == 'fn'}
    for fn in checked:
        oid = 'V/%s/%s' % (name, fn)
        errs_fn = failed_by_fn.get(fn, [])
        if fn in probes:
            if errs_fn and all('postcondition not satisfied' in e['message'] for e in errs_fn):
                obls.append(Obl(oid, 'verus', name, 'probe-ok', 'reachability probe fails as required'))
            else:
                obls.append(Obl(oid, 'verus', name, 'probe-broken', 'reachability probe verified: precondition is contradictory (vacuous contract)'))
            continue
        if errs_fn:
            for e in errs_fn:
                srcline = lines[e['line'] - 1].strip() if e['line'] else ''
                org = origin[e['line'] - 1] if e['line'] and e['line'] - 1 < len(origin) else None
                where = ''
                if org and org[0] == 'src':
                    where = '%s:%d' % (org[1], org[2])
                elif org and org[0] == 'contract':
                    where = 'contract of %s' % org[3]
                kind = e['message']
                fid = '%s/%s@%s' % (oid, re.sub(r'\s+', '-', kind), re.sub(r'\s+', ' ', srcline)[:80])
                obls.append(Obl(fid, 'verus', name, 'failed', '%s at %s: `%s`' % (kind, where, srcline),
                                extra={'verus': '\n'.join(e['text']), 'where': where, 'function': fn,
                                       'real_code': fn in lifted_fn_names, 'woven': path}))
        else:
            obls.append(Obl(oid, 'verus', name, 'discharged', 'real function' if fn in lifted_fn_names else 'lemma/spec-level',
                            time_s=fn_time.get(fn, 0.0)))
    for fn in failed_by_fn:
        if fn not in checked:
            for e in failed_by_fn[fn]:
                obls.append(Obl('V/%s/%s' % (name, fn), 'verus', name, 'undecided', 'error outside a known function: %s' % e['message']))
    info['smt_s'] = js['times-ms']['smt']['total'] / 1000.0 if 'times-ms' in js else None
    info['assumption_scan'] = scan_assumptions(text, 'woven:' + name)
    if info['assumption_scan'] and not spec.get('trusted'):
        obls.append(Obl('V/%s/scan' % name, 'verus', name, 'undecided',
                        'assume/external_body/assume_specification present but the unit lists no trusted assumptions'))
    return obls, info


SCAN_RE = re.compile(r'\b(assume\s*\(|admit\s*\(|external_body|assume_specification|external_type_specification|kani::assume|kani::stub\b|kani::stub_verified|uninterp\b)')


def scan_assumptions(text, label):
    """Mechanical scan for assumptions (DESIGN 2.4): every hit is reported in the evidence."""
    out = []
    for i, ln in enumerate(text.split('\n')):
        if ln.lstrip().startswith('//'):
            continue
        m = SCAN_RE.search(ln)
        if m:
            out.append('%s:%d: %s' % (label, i + 1, ln.strip()[:140]))
    return out


# ---------------------------------------------------------------- K engine
def prepare_kani_units(scr, units, repo):
    """Inject all K units into the scratch copy. Returns (by_crate, infos, undecided_obls)."""
    by_crate = {}
    infos = {}
    und = []
    for name, spec in units.items():
        info = {'unit': name, 'engine': 'kani', 'functions': [], 'trusted': spec.get('trusted', []), 'crate': spec['crate']}
        infos[name] = info
        try:
            for (relpath, impl, fn) in spec.get('functions', []):
                sha, line = sha256_item(repo, relpath, 'fn', fn, impl)
                info['functions'].append({'path': relpath, 'item': 'fn ' + fn, 'impl': impl, 'line': line, 'sha256': sha, 'engine': 'kani'})
            for a in spec.get('attrs', []):
                scr.insert_attrs(a['file'], a['fn'], a['lines'], impl=a.get('impl'))
            hpath = os.path.join(CONTRACTS, spec['harness'])
            modname = '__verif_' + name
            scr.append_module(spec['host'], 'kani', modname, hpath)
            for extra in spec.get('append', []):
                scr.append_text(extra['file'], extra['text'])
        except (ScanError, OSError) as e:
            und.append(Obl('K/%s/inject' % name, 'kani', name, 'undecided', 'lost anchor: %s' % e))
            continue
        mp = K.module_path_of(spec['host'])
        prefix = (mp + '::' if mp else '') + modname + '::'
        hs = K.discover_harnesses(os.path.join(CONTRACTS, spec['harness']))
        info['harnesses'] = hs
        info['assumption_scan'] = scan_assumptions(open(os.path.join(CONTRACTS, spec['harness'])).read(), spec['harness'])
        info['prefix'] = prefix
        by_crate.setdefault(spec['crate'], []).append(name)
    return by_crate, infos, und


def run_kani_crate(scr, crate, unit_names, infos, tier, prop, jobs, logdir):
    obls = []
    wanted = []
    hmeta = {}
    for un in unit_names:
        info = infos[un]
        for h in info['harnesses']:
            hp = h['meta'].get('props')
            if hp and prop not in hp.split(','):
                continue
            if h['meta'].get('tier', 'quick') == 'thorough' and tier != 'thorough':
                continue
            if h['meta'].get('tier') == 'quick-only' and tier == 'thorough':
                continue
            full = info['prefix'] + h['name']
            wanted.append(full)
            hmeta[full] = (un, h)
    if not wanted:
        return obls, 0.0, ''
    timeout = max(int(h['meta'].get('timeout', 900 if tier == 'quick' else 3600)) for _, h in hmeta.values())
    logf = os.path.join(logdir, 'kani_%s_%s.log' % (prop, crate))
    rc, out, wall, cmd = K.run_kani(scr.path, crate, wanted, jobs, timeout, log=logf,
                                    wall_timeout=timeout * (1 + len(wanted) // jobs) + 1800)
    res = K.parse_output(out)
    if not res and ('error' in out.lower()):
        # build failure: compile error in injected harness or in the changed tree
        tail = '\n'.join(out.strip().split('\n')[-40:])
        obls.append(Obl('K/%s/build' % crate, 'kani', ','.join(unit_names), 'undecided', 'cargo kani did not run any harness (build error?)',
                        extra={'log': tail}))
        return obls, wall, cmd
    for full in wanted:
        un, h = hmeta[full]
        oid = 'K/%s/%s' % (un, h['name'])
        bound = h['meta'].get('bound')
        r = res.get(full)
        if r is None:
            obls.append(Obl(oid, 'kani', un, 'undecided', 'harness not reported by kani', bounded=bound))
            continue
        nprobe = int(h['meta'].get('covers', 0))
        if r.status in ('timeout', 'oom', 'error', 'missing'):
            obls.append(Obl(oid, 'kani', un, 'undecided', 'kani: %s' % r.status, bounded=bound, time_s=r.time_s))
            continue
        if r.status == 'success':
            if h['should_panic'] and not r.expected_panic:
                obls.append(Obl(oid, 'kani', un, 'undecided', 'should_panic harness reported plain success', time_s=r.time_s))
                continue
            if r.cover_total and r.cover_sat < r.cover_total:
                obls.append(Obl(oid, 'kani', un, 'probe-broken', 'cover property unsatisfiable: assumptions exclude every input (%d of %d)' % (r.cover_sat, r.cover_total),
                                time_s=r.time_s))
                continue
            if nprobe and r.cover_total < nprobe:
                obls.append(Obl(oid, 'kani', un, 'undecided', 'expected %d cover probes, saw %d' % (nprobe, r.cover_total), time_s=r.time_s))
                continue
            st = 'discharged' if not bound else 'bounded-ok'
            kind = 'precondition probe (must panic)' if h['should_panic'] else ('contract %s' % h['contract'] if h['contract'] else 'harness')
            obls.append(Obl(oid, 'kani', un, st, kind, count=max(r.checks, 1), bounded=bound, time_s=r.time_s,
                            extra={'covers': r.cover_sat}))
            continue
        # failed
        verdicts = [(d, loc) for d, loc in r.failed_checks if K.classify_failed_check(d) == 'verdict']
        if h['should_panic'] and not verdicts and not r.failed_checks:
            # should_panic harness that did not panic: the stated precondition no longer panics
            verdicts = [('expected panic did not occur', '')]
        if not verdicts:
            obls.append(Obl(oid, 'kani', un, 'undecided', 'kani failed without a verdict: %s' % '; '.join(d for d, _ in r.failed_checks[:3]),
                            bounded=bound, time_s=r.time_s, extra={'raw': r.raw[-2000:]}))
            continue
        for d, loc in verdicts:
            fid = '%s@%s' % (oid, re.sub(r'\s+', ' ', d)[:100])
            obls.append(Obl(fid, 'kani', un, 'failed', '%s [%s]' % (d, loc), bounded=bound, time_s=r.time_s,
                            extra={'harness': full, 'crate': crate, 'raw': r.raw[-3000:], 'location': loc}))
    return obls, wall, cmd


# ---------------------------------------------------------------- findings
def load_known():
    try:
        return json.load(open(KNOWN))
    except OSError:
        return {'findings': []}


def match_known(known, prop, obl):
    for f in known.get('findings', []):
        if f.get('status') != 'open':
            continue
        if prop not in f.get('properties', [f.get('property')]):
            continue
        if re.search(f['obligation_regex'], obl.id):
            return f
    return None


# ---------------------------------------------------------------- main per property
def check_property(prop, tier, repo, only=None, seed=0):
    t0 = time.time()
    pspec = U.PROPS[prop]
    os.makedirs(EVIDENCE, exist_ok=True)
    os.makedirs(REPLAY_DIR, exist_ok=True)
    os.makedirs(LOG_DIR, exist_ok=True)
    workdir = os.path.join('/var/tmp', 'cairo-verif-v-%s-%d' % (prop, os.getpid()))
    os.makedirs(workdir, exist_ok=True)
    all_obls = []
    infos = []
    cmds = []
    v_units = {n: s for n, s in U.VERUS.items() if prop in s['props'] and (not only or n in only)
               and (s.get('tier', 'quick') == 'quick' or tier == 'thorough')}
    k_units = {n: s for n, s in U.KANI.items() if prop in s['props'] and (not only or n in only)}
    n_units = {n: s for n, s in U.NATIVE.items() if prop in s['props'] and (not only or n in only)}
    log('[%s] tier=%s  verus units: %s  kani units: %s  native units: %s' % (prop, tier, ', '.join(v_units) or '-', ', '.join(k_units) or '-', ', '.join(n_units) or '-'))

    # V
    with concurrent.futures.ThreadPoolExecutor(max_workers=8) as ex:
        futs = {ex.submit(run_verus_unit, n, s, repo, tier, workdir): n for n, s in v_units.items()}
        for f in concurrent.futures.as_completed(futs):
            n = futs[f]
            try:
                obls, info = f.result()
            except Exception as e:  # tool trouble -> undecided
                obls, info = [Obl('V/%s/run' % n, 'verus', n, 'undecided', 'driver exception: %s' % e)], {'unit': n, 'engine': 'verus'}
                traceback.print_exc()
            all_obls += obls
            infos.append(info)
            cmds.append(info.get('cmd', ''))
            log('[%s]   V %-28s %s' % (prop, n, summarize(obls)))

    # K + N share one scratch copy
    scr = None
    scratch_diff = []
    try:
        if k_units or n_units:
            scr = Scratch(repo, prop)
            scr.create()
            by_crate, kinfos, und = prepare_kani_units(scr, k_units, repo)
            all_obls += und
            nat_by_crate, ninfos, und2 = N.prepare_native_units(scr, n_units, repo, CONTRACTS)
            all_obls += und2
            scratch_diff = list(scr.diff)
            # the K and the N engine use different target directories of the same scratch copy, so the two
            # run side by side (crates of one engine stay sequential: they share a cargo lock)
            def _k_all():
                out = []
                for crate, uns in by_crate.items():
                    obls, wall, cmd = run_kani_crate(scr, crate, uns, kinfos, tier, prop, int(os.environ.get('VERIF_JOBS', '8')), LOG_DIR)
                    out.append((obls, cmd))
                    for un in uns:
                        kinfos[un]['wall_s'] = wall
                        log('[%s]   K %-28s %s' % (prop, un, summarize([o for o in obls if o.unit == un])))
                return out

            def _n_all():
                out = []
                for crate, uns in nat_by_crate.items():
                    obls, wall, cmd = N.run_native_crate(scr, crate, uns, ninfos, tier, prop, LOG_DIR, seed)
                    out.append((obls, cmd))
                    for un in uns:
                        ninfos[un]['wall_s'] = wall
                        log('[%s]   N %-28s %s' % (prop, un, summarize([o for o in obls if o.unit == un])))
                return out

            with concurrent.futures.ThreadPoolExecutor(max_workers=2) as ex2:
                fk, fn_ = ex2.submit(_k_all), ex2.submit(_n_all)
                for obls, cmd in fk.result() + fn_.result():
                    all_obls += obls
                    cmds.append(cmd)
            infos += [dict((k, v) for k, v in i.items() if k not in ('harnesses',)) for i in kinfos.values()]
            infos += list(ninfos.values())

        # ---- verdicts
        known = load_known()
        violations = []
        known_hits = []
        undecided = [o for o in all_obls if o.status in ('undecided', 'probe-broken')]
        for o in all_obls:
            if o.status != 'failed':
                continue
            kf = match_known(known, prop, o)
            if kf:
                known_hits.append((kf, o))
            else:
                violations.append(o)
        # lock check: every obligation expected on the unchanged tree must be reported
        lock = load_lock()
        expected = set(lock.get(prop, {}).get(tier, []))
        if only:
            expected = set()
        seen = set(o.id.split('@')[0] for o in all_obls)
        missing = sorted(expected - seen)
        for m in missing:
            undecided.append(Obl(m, '?', '?', 'undecided', 'obligation listed in obligations.lock was not reported by this run'))

        replay_paths = []
        budget = {'kani_playback': 1}
        # cheapest failing harness first, so the one playback attempt goes to it
        for o in sorted(violations, key=lambda x: (x.engine != 'native', x.time_s)):
            rp = write_replay(prop, o, scr, tier, all_obls, budget)
            replay_paths.append((o, rp))

        write_evidence(prop, tier, seed, pspec, all_obls, infos, cmds, scratch_diff, known_hits, violations, undecided, time.time() - t0, partial=bool(only))

        for kf, o in known_hits:
            log('KNOWN-FINDING: property=%s %s (%s)' % (prop, kf['what'], o.id))
        for o in undecided:
            log('UNDECIDED property=%s unit=%s obligation=%s reason=%s' % (prop, o.unit, o.id, o.detail))
        for o, (rp, found) in replay_paths:
            log('  failed obligation: %s  -- %s' % (o.id, o.detail))
            log('VIOLATION property=%s replay=%s%s' % (prop, rp, '' if found else ' no-failing-input-found'))
        if violations:
            return 1
        if undecided:
            return 2
        return 0
    finally:
        if scr is not None:
            scr.remove()
        if os.environ.get('VERIF_KEEP_WORK') != '1':
            shutil.rmtree(workdir, ignore_errors=True)


def summarize(obls):
    c = {}
    for o in obls:
        c[o.status] = c.get(o.status, 0) + 1
    t = sum(o.time_s for o in obls)
    return ' '.join('%s=%d' % kv for kv in sorted(c.items())) + '  (%.1fs solver)' % t


def load_lock():
    try:
        return json.load(open(LOCK))
    except OSError:
        return {}


def write_replay(prop, o, scr, tier, all_obls, budget):
    """Write the replay file for a failed obligation.

    Counter-example, in order of preference:
      1. the unit's paired native enumerator (N engine) - the input is run on the
         real code natively, so finding it IS the replay;
      2. Kani concrete playback of the failing harness (second, single-threaded
         pass with a time budget; the generated test is then run natively on the
         real code with `cargo kani playback`);
      3. none: the replay file names the failed obligation and carries the
         verifier's output; the VIOLATION line ends with no-failing-input-found.
    """
    h = hashlib.sha256(o.id.encode()).hexdigest()[:10]
    rp = os.path.join(REPLAY_DIR, '%s-%s.json' % (prop, h))
    rec = {'property': prop, 'obligation': o.id, 'engine': o.engine, 'unit': o.unit, 'detail': o.detail,
           'verifier_output': o.extra.get('verus') or o.extra.get('raw') or o.extra.get('log') or '', 'failing_input': None, 'replay_on_real_code': None}
    found = False
    try:
        if o.engine == 'native':
            rec['failing_input'] = {'kind': 'native enumerator input (run on the real code)', 'input': o.extra.get('input')}
            rec['replay_on_real_code'] = o.extra.get('output', '')[-4000:]
            found = bool(o.extra.get('input'))
        else:
            spec = (U.VERUS if o.engine == 'verus' else U.KANI).get(o.unit, {})
            pair = spec.get('pair')
            if o.engine == 'verus' and o.extra.get('woven') and os.path.exists(o.extra['woven']):
                rec['woven_source'] = open(o.extra['woven']).read()
            if pair:
                hits = [x for x in all_obls if x.engine == 'native' and x.unit == pair and x.status == 'failed']
                if not hits and not any(x.unit == pair for x in all_obls):
                    ok, inp, rout = N.run_pair(scr, prop, o, pair, CONTRACTS, U, LOG_DIR)
                    if ok:
                        rec['failing_input'] = inp
                        rec['replay_on_real_code'] = rout[-4000:]
                        found = True
                elif hits:
                    x = hits[0]
                    rec['failing_input'] = {'kind': 'native enumerator input (run on the real code)', 'unit': pair, 'input': x.extra.get('input')}
                    rec['replay_on_real_code'] = x.detail
                    found = bool(x.extra.get('input'))
            if not found and o.engine == 'kani' and scr is not None and 'harness' in o.extra and budget['kani_playback'] > 0:
                budget['kani_playback'] -= 1
                test, out = K.run_playback_print(scr.path, o.extra['crate'], o.extra['harness'], 300 if tier == 'quick' else 1800,
                                                 log=os.path.join(LOG_DIR, 'playback_%s_%s.log' % (prop, h)))
                if test:
                    rec['failing_input'] = {'kind': 'kani concrete playback test', 'test': test}
                    ok, rout = N.replay_kani_test(scr, o, test, CONTRACTS, U)
                    rec['replay_on_real_code'] = rout[-4000:]
                    found = ok
    except Exception as e:  # replay trouble must not hide the violation
        rec['replay_error'] = '%s' % e
        traceback.print_exc()
    with open(rp, 'w') as f:
        json.dump(rec, f, indent=1)
    return rp, found


def write_evidence(prop, tier, seed, pspec, obls, infos, cmds, scratch_diff, known_hits, violations, undecided, wall, partial=False):
    proved = [o for o in obls if o.status == 'discharged']
    failed = [o for o in obls if o.status == 'failed']
    bounded = [o for o in obls if o.status == 'bounded-ok']
    probes = [o for o in obls if o.status == 'probe-ok']
    # obligations / discharged count the deductive obligations only; a failed BOUNDED check (every native unit is
    # one, e.g. the replay of an open known finding) is reported under failed_obligations / known_findings, not here
    n_obl = sum(o.count for o in proved) + len([o for o in failed if o.engine != 'native' and not o.bounded]) + len([o for o in obls if o.status == 'undecided' and not o.bounded])
    n_dis = sum(o.count for o in proved)
    by_engine = {}
    for o in proved:
        e = by_engine.setdefault(o.engine, {'obligation_bundles': 0, 'checks': 0, 'solver_s': 0.0})
        e['obligation_bundles'] += 1
        e['checks'] += o.count
        e['solver_s'] = round(e['solver_s'] + o.time_s, 3)
    functions = []
    trusted = list(pspec.get('trusted_base', []))
    drops = []
    scan = []
    for i in infos:
        for f in i.get('functions', []):
            if f.get('mode') == 'type':
                continue
            functions.append(f)
        for t in i.get('trusted', []):
            if t not in trusted:
                trusted.append(t)
        drops += i.get('drops', []) + i.get('rewrites', [])
        scan += i.get('assumption_scan', [])
    samples = [{'obligation': o.id, 'engine': o.engine, 'status': o.status, 'checks': o.count, 'what': o.detail} for o in (proved[:6] + bounded[:2] + failed[:4])]
    ev = {
        'property_id': prop,
        'tier': tier,
        'seed': seed,
        'level': 'proof',
        'coverage': {
            'obligations': n_obl,
            'discharged': n_dis,
            'checker_cmd': ' && '.join(c for c in cmds if c)[:4000] or './check %s' % prop,
            'trusted_base': trusted,
            'samples': samples,
            'obligation_ids': sorted(set(o.id for o in proved)),
            'per_backend': by_engine,
            'functions_under_contract': functions,
            'bounded_checks': [{'obligation': o.id, 'bound': o.bounded, 'checks': o.count, 'engine': o.engine} for o in bounded],
            'bounded_note': 'bounded checks are stand-ins with a stated bound; they are not part of obligations/discharged',
            'reachability_probes_ok': [o.id for o in probes] + [o.id for o in proved if o.extra.get('covers')],
            'extraction_drops': sorted(set(drops)),
            'assumption_scan': scan,
            'scratch_diff': [{'file': f, 'lines_added': n, 'lines_removed': 0} for f, n in scratch_diff],
            'unverified_surrounding_code': pspec.get('outside', []),
            'failed_obligations': [{'obligation': o.id, 'detail': o.detail} for o in failed],
            'undecided': [{'obligation': o.id, 'reason': o.detail} for o in undecided],
            'known_findings': [{'id': kf['id'], 'what': kf['what'], 'obligation': o.id} for kf, o in known_hits],
            'explanation': pspec.get('scope', ''),
        },
        'assumptions': pspec.get('assumptions', []),
        'wall_s': round(wall, 2),
        'violations': len(violations),
    }
    # a run restricted with --only is a development / replay run: it must not replace the evidence of the full check
    out_dir = os.path.join(EVIDENCE, 'partial') if partial else EVIDENCE
    os.makedirs(out_dir, exist_ok=True)
    with open(os.path.join(out_dir, '%s.json' % prop), 'w') as f:
        json.dump(ev, f, indent=1)


def gen_lock(tier_list, repo, only_props=None):
    """Regenerate contracts/obligations.lock from a run on the unchanged tree."""
    lock = load_lock()
    for prop in sorted(only_props or U.PROPS):
        for tier in tier_list:
            rc = check_property(prop, tier, repo)
            ev = json.load(open(os.path.join(EVIDENCE, '%s.json' % prop)))
            ids = set(ev['coverage']['obligation_ids'])
            ids |= set(b['obligation'] for b in ev['coverage']['bounded_checks'])
            ids |= set(ev['coverage']['reachability_probes_ok'])
            ids |= set(k['obligation'].split('@')[0] for k in ev['coverage']['known_findings'])
            lock.setdefault(prop, {})[tier] = sorted(ids)
            log('lock[%s][%s] = %d ids (rc=%d)' % (prop, tier, len(ids), rc))
            with open(LOCK, 'w') as f:
                json.dump(lock, f, indent=1, sort_keys=True)


def main():
    ap = argparse.ArgumentParser()
    ap.add_argument('target')
    ap.add_argument('--tier', default=os.environ.get('VERIF_TIER', 'quick'), choices=['quick', 'thorough'])
    ap.add_argument('--repo', default=os.environ.get('VERIF_REPO', '/repo'))
    ap.add_argument('--replay')
    ap.add_argument('--only', action='append')
    args = ap.parse_args()
    seed = int(os.environ.get('VERIF_SEED', '0'))
    if args.target == 'selftest':
        import selftest
        return selftest.main(args.only or [])
    if args.target == 'lock' or args.target.startswith('lock:'):
        gen_lock(['quick', 'thorough'] if args.tier == 'thorough' else ['quick'], args.repo,
                 only_props=args.target[5:].split(',') if ':' in args.target else None)
        return 0
    if args.replay:
        return N.replay_file(args.target, args.replay, args.repo, CONTRACTS, U)
    if args.target.startswith('unit:'):
        # development helper: run ONE unit under every property it is registered for
        # (a shared universe / corpus / helper changed: every property has to be looked at)
        unit = args.target[5:]
        spec = U.VERUS.get(unit) or U.KANI.get(unit) or U.NATIVE.get(unit)
        if spec is None:
            log('no such unit: %s' % unit)
            return 2
        worst = 0
        for p in sorted(spec['props']):
            rc = check_property(p, args.tier, args.repo, only=[unit], seed=seed)
            log('[%s] %s exit %d' % (p, unit, rc))
            worst = 1 if (rc == 1 or worst == 1) else max(worst, rc)
        return worst
    props = sorted(U.PROPS) if args.target == 'all' else [args.target]
    worst = 0
    for p in props:
        if p not in U.PROPS:
            log('property %s is not claimed (see MANIFEST.json not_applicable)' % p)
            return 2
        rc = check_property(p, args.tier, args.repo, only=args.only, seed=seed)
        log('[%s] exit %d' % (p, rc))
        worst = 1 if (rc == 1 or worst == 1) else max(worst, rc)
    return worst


if __name__ == '__main__':
    sys.exit(main())
