"""K engine: run Kani on the real crate inside a scratch copy, with contract
attributes and harness modules injected (add-only)."""
import os
import re
import subprocess
import time

HARNESS_RE = re.compile(
    r'((?:^[ \t]*//@[^\n]*\n)*)((?:^[ \t]*#\[[^\n]*\]\n)+)[ \t]*(?:pub )?fn (\w+)\s*\(\s*\)', re.M)


def discover_harnesses(path):
    """Find harness functions in a harness module. Metadata comes from
    `//@ key=value ...` lines directly above the attributes."""
    src = open(path).read()
    out = []
    for m in HARNESS_RE.finditer(src):
        meta_txt, attrs, name = m.group(1), m.group(2), m.group(3)
        if 'kani::proof' not in attrs:
            continue
        meta = {'tier': 'quick'}
        for ln in meta_txt.strip().split('\n'):
            ln = ln.strip()
            if not ln.startswith('//@'):
                continue
            for kv in re.findall(r'(\w+)=("[^"]*"|\S+)', ln[3:]):
                meta[kv[0]] = kv[1].strip('"')
        h = {
            'name': name,
            'should_panic': 'kani::should_panic' in attrs,
            'contract': None,
            'stubs': re.findall(r'kani::stub_verified\(([^)]*)\)', attrs),
            'meta': meta,
        }
        mc = re.search(r'kani::proof_for_contract\((.*)\)\]', attrs)
        if mc:
            h['contract'] = mc.group(1).strip()
        out.append(h)
    return out


def module_path_of(relpath):
    """crates/<crate>/src/a/b.rs -> a::b ; .../a/mod.rs -> a ; lib.rs -> ''"""
    m = re.match(r'crates/[^/]+/src/(.*)\.rs$', relpath)
    parts = m.group(1).split('/')
    if parts[-1] in ('mod', 'lib'):
        parts = parts[:-1]
    return '::'.join(parts)


class HarnessResult:
    def __init__(self, name):
        self.name = name
        self.status = 'missing'   # success | failed | timeout | oom | error | missing
        self.checks = 0
        self.failed = 0
        self.failed_checks = []   # [(description, location)]
        self.cover_total = 0
        self.cover_sat = 0
        self.time_s = 0.0
        self.raw = ''
        self.expected_panic = False


def parse_output(out):
    """Parse terse multi-thread (or single) kani output into {harness: HarnessResult}."""
    results = {}
    cur_by_thread = {}
    blocks = {}   # harness -> [lines]
    cur_thread = None
    single = None
    for ln in out.split('\n'):
        m = re.match(r'(?:Thread (\d+): )?Checking harness (\S+?)\.\.\.$', ln)
        if m:
            t = m.group(1)
            h = m.group(2)
            blocks.setdefault(h, [])
            if t is None:
                single = h
                cur_thread = None
            else:
                cur_by_thread[t] = h
            continue
        m = re.match(r'Thread (\d+):\s*$', ln)
        if m:
            cur_thread = m.group(1)
            continue
        h = None
        if cur_thread is not None and cur_thread in cur_by_thread:
            h = cur_by_thread[cur_thread]
        elif single is not None:
            h = single
        if h is not None:
            blocks[h].append(ln)
            if ln.startswith('Verification Time:') or 'CBMC timed out' in ln or 'run out of memory' in ln:
                if cur_thread is not None:
                    cur_thread = None
    for h, lines in blocks.items():
        r = HarnessResult(h)
        txt = '\n'.join(lines)
        r.raw = txt
        m = re.search(r'\*\* (\d+) of (\d+) failed', txt)
        if m:
            r.failed, r.checks = int(m.group(1)), int(m.group(2))
        m = re.search(r'\*\* (\d+) of (\d+) cover properties satisfied', txt)
        if m:
            r.cover_sat, r.cover_total = int(m.group(1)), int(m.group(2))
        m = re.search(r'Verification Time: ([0-9.]+)s', txt)
        if m:
            r.time_s = float(m.group(1))
        fc = re.findall(r'Failed Checks: (.*?)\n File: ([^\n]*)', txt, re.S)
        r.failed_checks = [(re.sub(r'\s+', ' ', a).strip(), b.strip()) for a, b in fc]
        if 'VERIFICATION:- SUCCESSFUL' in txt:
            r.status = 'success'
            r.expected_panic = 'panics as expected' in txt
        elif 'CBMC timed out' in txt:
            r.status = 'timeout'
        elif 'run out of memory' in txt:
            r.status = 'oom'
        elif 'VERIFICATION:- FAILED' in txt:
            r.status = 'failed'
        else:
            r.status = 'error'
        results[h] = r
    return results


UNDECIDED_CHECK_PAT = (
    'unwinding assertion',
    'is not currently supported by kani',
    'unsupported',
    'recursion unwinding',
)


def classify_failed_check(desc):
    d = desc.lower()
    for p in UNDECIDED_CHECK_PAT:
        if p in d:
            return 'undecided'
    return 'verdict'


def _run_group(cmd, cwd, env, timeout):
    """Run in its own process group so that a timeout kills our cbmc children only."""
    import signal
    # memory guard (DESIGN 2.4): an address-space limit inherited by every cbmc child; a harness that
    # hits it is reported by Kani as out of memory => undecided, never an alarm
    mem_gb = int(os.environ.get('VERIF_MEM_GB', '24'))

    def _limit():
        import resource
        try:
            resource.setrlimit(resource.RLIMIT_AS, (mem_gb << 30, mem_gb << 30))
        except (ValueError, OSError):
            pass
    p = subprocess.Popen(cmd, cwd=cwd, env=env, stdout=subprocess.PIPE, stderr=subprocess.STDOUT, text=True,
                         start_new_session=True, preexec_fn=_limit)
    try:
        out, _ = p.communicate(timeout=timeout)
        return p.returncode, out
    except subprocess.TimeoutExpired:
        try:
            os.killpg(p.pid, signal.SIGKILL)
        except OSError:
            pass
        out, _ = p.communicate()
        return -9, out or ''


def run_kani(scratch_path, crate, harness_names, jobs, harness_timeout, extra_z=(), wall_timeout=None, log=None):
    cmd = ['cargo', 'kani', '-p', crate, '-Z', 'function-contracts', '-Z', 'stubbing', '-Z', 'unstable-options']
    for z in extra_z:
        cmd += ['-Z', z]
    cmd += ['--exact']
    for h in harness_names:
        cmd += ['--harness', h]
    cmd += ['-j', str(jobs), '--output-format', 'terse', '--harness-timeout', '%ds' % harness_timeout]
    env = dict(os.environ)
    env['CARGO_NET_OFFLINE'] = 'true'
    env.pop('RUSTFLAGS', None)
    t0 = time.time()
    rc, out = _run_group(cmd, scratch_path, env, wall_timeout)
    wall = time.time() - t0
    if log:
        with open(log, 'w') as f:
            f.write('$ ' + ' '.join(cmd) + '\n' + out)
    return rc, out, wall, ' '.join(cmd)


def run_playback_print(scratch_path, crate, harness, timeout, log=None):
    """Second, single-threaded pass on one failing harness to obtain a concrete
    counter-example as a unit test."""
    cmd = ['cargo', 'kani', '-p', crate, '-Z', 'function-contracts', '-Z', 'stubbing', '-Z', 'unstable-options',
           '-Z', 'concrete-playback', '--concrete-playback=print', '--exact', '--harness', harness,
           '--output-format', 'terse', '--harness-timeout', '%ds' % timeout]
    env = dict(os.environ)
    env['CARGO_NET_OFFLINE'] = 'true'
    rc, out = _run_group(cmd, scratch_path, env, timeout + 300)
    if rc == -9:
        return None, out
    if log:
        with open(log, 'w') as f:
            f.write('$ ' + ' '.join(cmd) + '\n' + out)
    tests = re.findall(r'```\n(.*?)```', out, re.S)
    # cover properties get playback tests too; we want the one for a failed check
    failing = [t for t in tests if 'Check for `cover`' not in t]
    test = failing[0] if failing else None
    return test, out
