#!/usr/bin/env python3
"""Regenerate /verif/MANIFEST.json from contracts/units.py (claimed properties) and the fixed N/A list."""
import json, os, sys
HERE = os.path.dirname(os.path.abspath(__file__))
VERIF = os.path.dirname(HERE)
sys.path.insert(0, os.path.join(VERIF, 'contracts'))
import units as U

NA = {
 'C01': 'needs formal semantics of Cairo/Sierra/CASM and a simulation proof through salsa-held IRs; no function\'s postcondition states it',
 'C02': 'property of generated CASM run by cairo-vm; gas-cycle half rests on recursive hash-set graph algorithms outside both verifiers\' reach',
 'C03': '2-safety over executions of generated CASM with adversarial hints; the Rust functions only emit the constraints',
 'C05': 'relational equivalence of whole compilations; IR semantics undefined in code',
 'C06': 'arithmetic lives in generated CASM and inline hint arms over VM state, not in contractible functions',
 'C07': 'relates a salsa-bound interpreter to VM execution of compiled code',
 'C08': 'whole-pipeline panic freedom plus a borrow checker written in generic iterator/closure/hash-map style driven by salsa IR',
 'C09': 'lexer/parser/formatter/diagnostics all require &dyn salsa::Database; 4000-line mutually recursive parser',
 'C10': 'invariant of salsa-interned green/red trees and parser trivia handling',
 'C11': 'fixpoint property of a salsa-tree walk with line-breaking search',
 'C12': 'quantifies over schedules and query histories (no thread support in Kani; salsa not modelled)',
 'C13': 'whole-history property of salsa revisions and stable pointers',
 'C20': 'equality of two whole compilations across a cache round trip through salsa interning',
}
PENDING = {
 'C04': 'checker-side contracts (ConstCost, GasWallet::update, builder steps) designed in DESIGN.md 4/C04 but not built yet',
 'C14': 'units designed in DESIGN.md 4/C14 but not all built yet',
 'C15': 'units designed in DESIGN.md 4/C15 but not built yet',
 'C18': 'units designed in DESIGN.md 4/C18 but not built yet',
 'C19': 'units designed in DESIGN.md 4/C19 but not built yet',
}
baseline = json.load(open('/root/.vp/BASELINE.json'))['cmd']
checks = []
for pid in sorted(U.PROPS):
    p = U.PROPS[pid]
    if not p.get('claimed', True):
        continue
    checks.append({
        'property_id': pid,
        'quick_cmd': './check %s --tier quick' % pid,
        'thorough_cmd': './check %s --tier thorough' % pid,
        'evidence_file': '/verif/evidence/%s.json' % pid,
        'replay_cmd_template': './check %s --replay {path}' % pid,
        'engine': 'contract-verification driver (Verus weave + Kani in scratch copy + native bounded stand-ins)',
        'level_claimed': {'category': 'proof', 'text': p['level_text'], 'design_ref': 'DESIGN.md section 4/%s' % pid},
        'level_note': p['level_note'],
        'technique': p['technique'],
    })
claimed = {c['property_id'] for c in checks}
na = []
for pid in ['C%02d' % i for i in range(1, 21)]:
    if pid in claimed:
        continue
    na.append({'property_id': pid, 'reason': NA.get(pid) or PENDING[pid]})
m = {
 'version': 1,
 'setup_cmd': 'true',
 'hooks': {
   'guard': 'cfg(kani) (and cfg(test) for native bounded/replay modules); present only in the per-run scratch copy of /repo, never in /repo itself',
   'enable': 'engine/scratch.py rsyncs /repo to /var/tmp/cairo-verif-<id>-<pid>, inserts #[cfg_attr(kani, kani::requires/ensures)] lines above functions under contract and appends #[cfg(kani)]/#[cfg(test)] #[path] harness modules (add-only), then runs cargo kani / cargo test there; Verus units are woven from /repo sources on every run (engine/weave.py)',
   'baseline_off_cmd': baseline,
   'source_commits': [],
   'add_only': True,
 },
 'engines': [
   {'name': 'verus-weave', 'path': 'engine/weave.py', 'serves_properties': sorted(set(p for u in U.VERUS.values() for p in u['props'])), 'kind_free_text': 'Verus 0.2026.09.13 on real functions lifted verbatim from /repo into one file per unit; contracts spliced by structural position'},
   {'name': 'kani-inject', 'path': 'engine/kani.py', 'serves_properties': sorted(set(p for u in U.KANI.values() for p in u['props'])), 'kind_free_text': 'Kani 0.68 / CBMC 6.11 on the real crates in a scratch copy; function contracts and full-domain harnesses injected add-only'},
   {'name': 'native-bounded', 'path': 'engine/native.py', 'serves_properties': sorted(set(p for u in U.NATIVE.values() for p in u['props'])), 'kind_free_text': 'bounded enumeration / counter-example search / replay on the real crate (cargo test in the scratch copy); labelled bounded, never counted as proved'},
 ],
 'checks': checks,
 'not_applicable': na,
 'notes': 'Exit codes: 0 held, 1 VIOLATION, 2 UNDECIDED (tool trouble / lost anchor; never an alarm). Known findings: findings/known_findings.json. See DESIGN.md.',
}
json.dump(m, open(os.path.join(VERIF, 'MANIFEST.json'), 'w'), indent=1)
print('claimed:', sorted(claimed))
