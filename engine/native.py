"""N engine: native bounded enumeration / replay on the real crate inside the
scratch copy (modules injected under #[cfg(test)]). Bounded stand-in only:
nothing here is ever counted as proved.

Line protocol printed by the injected tests (one line each, on stdout):
  VERIF-N id=<obligation> status=ok cases=<n> distinct=<n> bound="<text>"
  VERIF-N id=<obligation> status=fail input="<text>" detail="<text>"
  VERIF-N id=<obligation> status=replay-ok|replay-fail ...
"""
import json
import os
import re
import shutil
import subprocess
import time

from rustscan import ScanError


def prepare_native_units(scr, units, repo, contracts):
    by_crate = {}
    infos = {}
    und = []
    from driver import Obl
    from scratch import sha256_item
    for name, spec in units.items():
        info = {'unit': name, 'engine': 'native', 'functions': [], 'trusted': spec.get('trusted', []), 'crate': spec['crate']}
        infos[name] = info
        try:
            for (relpath, impl, fn) in spec.get('functions', []):
                sha, line = sha256_item(repo, relpath, 'fn', fn, impl)
                info['functions'].append({'path': relpath, 'item': 'fn ' + fn, 'impl': impl, 'line': line, 'sha256': sha,
                                          'engine': 'native', 'mode': 'bounded: ' + spec.get('bound', '')})
            scr.append_module(spec['host'], 'test', '__verif_n_' + name, os.path.join(contracts, spec['harness']))
        except (ScanError, OSError) as e:
            und.append(Obl('N/%s/inject' % name, 'native', name, 'undecided', 'lost anchor: %s' % e))
            continue
        # a unit hosted in an integration-test target of its crate: run as `--test <target>`
        by_crate.setdefault(spec['crate'] + ('::test=' + spec['test_target'] if spec.get('test_target') else ''), []).append(name)
    return by_crate, infos, und


# not anchored at the line start: with --nocapture the libtest harness may have printed `test <name> ... ` on the same line
LINE_RE = re.compile(r'VERIF-N (id=.*)$', re.M)


def parse_kv(s):
    d = {}
    for m in re.finditer(r'(\w+)=("(?:[^"\\]|\\.)*"|\S+)', s):
        v = m.group(2)
        if v.startswith('"'):
            v = v[1:-1].replace('\\"', '"')
        d[m.group(1)] = v
    return d


def run_native_crate(scr, crate, unit_names, infos, tier, prop, logdir, seed, env_extra=None):
    from driver import Obl
    obls = []
    env = dict(os.environ)
    env['CARGO_NET_OFFLINE'] = 'true'
    env['VERIF_TIER'] = tier
    env['VERIF_SEED'] = str(seed)
    env['VERIF_PROP'] = prop
    env['CARGO_TARGET_DIR'] = os.path.join(scr.path, 'target-native')
    env.pop('RUSTFLAGS', None)
    if env_extra:
        env.update(env_extra)
    if '::test=' in crate:
        pkg, target = crate.split('::test=')
        cmd = ['cargo', 'test', '-p', pkg, '--test', target, '--offline', '--', '__verif_n_', '--nocapture', '--test-threads', '8']
    else:
        cmd = ['cargo', 'test', '-p', crate, '--lib', '--offline', '--', '__verif_n_', '--nocapture', '--test-threads', '8']
    t0 = time.time()
    # memory guard: a real-code path that allocates without bound must abort this test process, not
    # take the machine down (the unit is then reported UNDECIDED: no VERIF-N line)
    mem_gb = int(os.environ.get('VERIF_MEM_GB', '24'))

    def _limit():
        import resource
        try:
            resource.setrlimit(resource.RLIMIT_AS, (mem_gb << 30, mem_gb << 30))
        except (ValueError, OSError):
            pass
    try:
        p = subprocess.run(cmd, cwd=scr.path, env=env, stdout=subprocess.PIPE, stderr=subprocess.STDOUT, text=True,
                           timeout=3600 if tier == 'quick' else 4 * 3600, preexec_fn=_limit)
        out = p.stdout
    except subprocess.TimeoutExpired as e:
        out = e.stdout.decode() if isinstance(e.stdout, bytes) else (e.stdout or '')
        out += '\nTIMEOUT'
    wall = time.time() - t0
    with open(os.path.join(logdir, 'native_%s_%s.log' % (prop, crate.replace('::test=', '-'))), 'w') as f:
        f.write('$ ' + ' '.join(cmd) + '\n' + out)
    lines = [parse_kv(m.group(1)) for m in LINE_RE.finditer(out)]
    if 'error: could not compile' in out or ('error[' in out and not lines):
        obls.append(Obl('N/%s/build' % crate, 'native', ','.join(unit_names), 'undecided', 'native test build failed',
                        extra={'log': '\n'.join(out.split('\n')[-40:])}))
        return obls, wall, ' '.join(cmd)
    seen_units = set()
    for kv in lines:
        oid = kv.get('id', '?')
        un = oid.split('/')[1] if oid.count('/') >= 1 else '?'
        seen_units.add(un)
        kp = kv.get('props')
        if kp and prop not in kp.split(','):
            continue
        st = kv.get('status')
        if st == 'ok':
            obls.append(Obl(oid, 'native', un, 'bounded-ok', 'bounded enumeration', count=int(kv.get('cases', '1')),
                            bounded=kv.get('bound', 'see unit'), extra={'distinct': int(kv.get('distinct', kv.get('cases', '1')))}))
        elif st == 'fail':
            obls.append(Obl(oid + '@' + kv.get('key', kv.get('detail', ''))[:80], 'native', un, 'failed', kv.get('detail', ''), bounded=kv.get('bound', ''),
                            extra={'input': kv.get('input'), 'output': kv.get('detail', '')}))
        elif st == 'skip':
            pass
        else:
            obls.append(Obl(oid, 'native', un, 'undecided', 'unknown status %r' % st))
    for un in unit_names:
        if un not in seen_units:
            obls.append(Obl('N/%s/run' % un, 'native', un, 'undecided', 'no VERIF-N line from this unit',
                            extra={'log': '\n'.join(out.split('\n')[-30:])}))
    return obls, wall, ' '.join(cmd)


def replay_kani_test(scr, o, test, contracts, U):
    """Run Kani's concrete-playback unit test natively against the real code in
    the scratch copy. Returns (reproduced, output)."""
    unit = U.KANI[o.unit]
    hsrc = os.path.join(contracts, unit['harness'])
    dst_dir = os.path.join(scr.path, '__verif_playback')
    os.makedirs(dst_dir, exist_ok=True)
    dst = os.path.join(dst_dir, os.path.basename(hsrc))
    txt = open(hsrc).read() + '\n' + test + '\n'
    open(dst, 'w').write(txt)
    host = os.path.join(scr.path, unit['host'])
    s = open(host).read()
    s = s.replace('"%s"' % hsrc, '"%s"' % dst)
    open(host, 'w').write(s)
    m = re.search(r'fn (kani_concrete_playback_\w+)', test)
    if not m:
        return False, 'no playback test name'
    tname = m.group(1)
    env = dict(os.environ)
    env['CARGO_NET_OFFLINE'] = 'true'
    cmd = ['cargo', 'kani', 'playback', '-p', unit['crate'], '-Z', 'concrete-playback', '-Z', 'function-contracts', '--', tname, '--nocapture']
    try:
        p = subprocess.run(cmd, cwd=scr.path, env=env, stdout=subprocess.PIPE, stderr=subprocess.STDOUT, text=True, timeout=3600)
        out = p.stdout
    except subprocess.TimeoutExpired:
        return False, 'playback timed out'
    reproduced = ('panicked at' in out) or ('test result: FAILED' in out)
    tail = '\n'.join(out.split('\n')[-60:])
    return reproduced, '$ ' + ' '.join(cmd) + '\n' + tail


def run_pair(scr, prop, o, pair, contracts, U, logdir):
    """A Verus obligation failed (no model). Run the paired native enumerator of
    the same unit to look for a concrete failing input."""
    from scratch import Scratch
    own = False
    if scr is None:
        scr = Scratch(os.environ.get('VERIF_REPO', '/repo'), prop + '-pair')
        scr.create()
        own = True
    try:
        units = {pair: U.NATIVE[pair]}
        by_crate, infos, und = prepare_native_units(scr, units, scr.repo, contracts) if pair not in _already_injected(scr) else ({U.NATIVE[pair]['crate']: [pair]}, {pair: {}}, [])
        for crate, uns in by_crate.items():
            obls, wall, cmd = run_native_crate(scr, crate, uns, infos, 'quick', prop, logdir, 0, env_extra={'VERIF_PAIR': '1'})
            for ob in obls:
                if ob.status == 'failed':
                    return True, {'kind': 'native enumerator input', 'input': ob.extra.get('input'), 'unit': pair}, ob.detail
        return False, None, ''
    finally:
        if own:
            scr.remove()


def _already_injected(scr):
    out = set()
    for f, n in scr.diff:
        p = os.path.join(scr.path, f)
        try:
            for m in re.finditer(r'mod __verif_n_(\w+);', open(p).read()):
                out.add(m.group(1))
        except OSError:
            pass
    return out


def replay_file(prop, path, repo, contracts, U):
    """./check <ID> --replay <file>: re-run the unit named in the replay file on a
    fresh scratch copy and report whether the obligation still fails."""
    import driver
    rec = json.load(open(path))
    unit = rec.get('unit')
    print('replaying obligation %s (unit %s, engine %s)' % (rec.get('obligation'), unit, rec.get('engine')))
    if rec.get('failing_input'):
        print('recorded failing input: %s' % json.dumps(rec['failing_input'])[:2000])
    rc = driver.check_property(prop, 'quick', repo, only=[unit] + ([U.VERUS[unit]['pair']] if unit in U.VERUS and U.VERUS[unit].get('pair') else []))
    return rc
