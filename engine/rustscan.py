"""Small Rust-token-aware scanner.

It does not parse Rust. It knows enough lexical structure (comments, string /
raw-string / byte-string / char literals, lifetimes, bracket nesting) to
  * find an item (fn / struct / enum / impl / const / type / trait / static) by
    name at a given nesting level, together with its leading attributes and doc
    comments, and cut its text out verbatim;
  * find the n-th loop of a function body and the `{` that opens it;
  * find the end of the signature of a function (the `{` that opens the body).

Everything returns byte offsets into the original text so callers can splice
without touching anything else.
"""
import re


class ScanError(Exception):
    """An anchor was not found or the source has a shape the scanner does not
    handle. Callers turn this into UNDECIDED (exit 2), never into an alarm."""


OPEN = {'(': ')', '[': ']', '{': '}'}
CLOSE = {')': '(', ']': '[', '}': '{'}
IDENT_START = re.compile(r'[A-Za-z_]')
IDENT = re.compile(r'[A-Za-z_][A-Za-z0-9_]*')


def tokenize(text, start=0, end=None):
    """Yield (kind, value, pos, endpos). kinds: 'ident', 'punct', 'lit',
    'comment', 'doc', 'lifetime'. Whitespace is skipped."""
    i = start
    n = len(text) if end is None else end
    while i < n:
        c = text[i]
        if c in ' \t\r\n':
            i += 1
            continue
        # comments
        if text.startswith('//', i):
            j = text.find('\n', i)
            if j == -1 or j > n:
                j = n
            is_doc = (text.startswith('///', i) and not text.startswith('////', i)) or text.startswith('//!', i)
            yield ('doc' if is_doc else 'comment', text[i:j], i, j)
            i = j
            continue
        if text.startswith('/*', i):
            depth = 1
            j = i + 2
            while j < n and depth:
                if text.startswith('/*', j):
                    depth += 1
                    j += 2
                elif text.startswith('*/', j):
                    depth -= 1
                    j += 2
                else:
                    j += 1
            yield ('comment', text[i:j], i, j)
            i = j
            continue
        # raw strings r"..", r#".."#, br#".."#
        m = re.compile(r'(?:b|c)?r(#*)"').match(text, i)
        if m:
            hashes = m.group(1)
            close = '"' + hashes
            j = text.find(close, m.end())
            if j == -1:
                raise ScanError('unterminated raw string at %d' % i)
            j += len(close)
            yield ('lit', text[i:j], i, j)
            i = j
            continue
        # strings "..", b"..", c".."
        if c == '"' or (c in 'bc' and i + 1 < n and text[i + 1] == '"'):
            j = i + (1 if c == '"' else 2)
            while j < n:
                if text[j] == '\\':
                    j += 2
                elif text[j] == '"':
                    break
                else:
                    j += 1
            j += 1
            yield ('lit', text[i:j], i, j)
            i = j
            continue
        # char literal or lifetime
        if c == "'" or (c == 'b' and i + 1 < n and text[i + 1] == "'"):
            k = i + (1 if c == "'" else 2)
            if k < n and text[k] == '\\':
                j = text.find("'", k + 2)
                if j == -1:
                    raise ScanError('unterminated char at %d' % i)
                yield ('lit', text[i:j + 1], i, j + 1)
                i = j + 1
                continue
            # 'x' is a char if a quote follows exactly one char later
            if k + 1 < n and text[k + 1] == "'" and text[k] != "'":
                yield ('lit', text[i:k + 2], i, k + 2)
                i = k + 2
                continue
            m = IDENT.match(text, k)
            if m and c == "'":
                yield ('lifetime', text[i:m.end()], i, m.end())
                i = m.end()
                continue
            # multi-byte char literal like '\u{..}' handled above; unicode char
            j = text.find("'", k)
            if j != -1 and j - k <= 4:
                yield ('lit', text[i:j + 1], i, j + 1)
                i = j + 1
                continue
            raise ScanError('cannot lex quote at %d' % i)
        m = IDENT.match(text, i)
        if m:
            # raw identifier r#name
            yield ('ident', m.group(0), i, m.end())
            i = m.end()
            continue
        if c.isdigit():
            m = re.compile(r'[0-9][0-9A-Za-z_]*(?:\.[0-9][0-9A-Za-z_]*)?').match(text, i)
            yield ('lit', m.group(0), i, m.end())
            i = m.end()
            continue
        yield ('punct', c, i, i + 1)
        i += 1


def code_tokens(text, start=0, end=None):
    for t in tokenize(text, start, end):
        if t[0] not in ('comment', 'doc'):
            yield t


def match_close(text, open_pos):
    """Given the position of an opening bracket, return the position of the
    matching closing bracket."""
    opener = text[open_pos]
    assert opener in OPEN
    stack = []
    for kind, val, pos, _ in code_tokens(text, open_pos):
        if kind != 'punct':
            continue
        if val in OPEN:
            stack.append(val)
        elif val in CLOSE:
            if not stack or stack[-1] != CLOSE[val]:
                raise ScanError('unbalanced bracket at %d' % pos)
            stack.pop()
            if not stack:
                return pos
    raise ScanError('no matching close for bracket at %d' % open_pos)


ITEM_KW = ('fn', 'struct', 'enum', 'impl', 'const', 'type', 'trait', 'static', 'mod', 'union', 'macro_rules', 'use')
QUALIFIERS = ('pub', 'const', 'async', 'unsafe', 'extern', 'default')


class Item:
    __slots__ = ('kind', 'name', 'start', 'kw_pos', 'body_open', 'end', 'header')

    def __repr__(self):
        return 'Item(%s %s @%d..%d)' % (self.kind, self.name, self.start, self.end)


def _norm(s):
    return re.sub(r'\s+', ' ', s).strip()


def items_in(text, start=0, end=None):
    """Enumerate items whose keyword sits at nesting depth 0 of text[start:end].
    Each Item.start includes leading doc comments and attributes."""
    toks = list(tokenize(text, start, end))
    out = []
    depth = 0
    i = 0
    n = len(toks)
    lead_start = None  # start of attributes/docs/qualifiers preceding an item

    def reset_lead():
        nonlocal lead_start
        lead_start = None

    while i < n:
        kind, val, pos, epos = toks[i]
        if kind == 'comment':
            i += 1
            continue
        if depth == 0:
            if kind == 'doc':
                if lead_start is None:
                    lead_start = pos
                i += 1
                continue
            if kind == 'punct' and val == '#':
                # attribute #[...] or #![...]
                j = i + 1
                if j < n and toks[j][1] == '!':
                    j += 1
                if j < n and toks[j][1] == '[':
                    close = match_close(text, toks[j][2])
                    if lead_start is None:
                        lead_start = pos
                    while i < n and toks[i][2] <= close:
                        i += 1
                    continue
            if kind == 'ident' and val in QUALIFIERS and val != 'const':
                if lead_start is None:
                    lead_start = pos
                i += 1
                # pub(crate) / extern "C"
                if i < n and toks[i][1] == '(' and val == 'pub':
                    close = match_close(text, toks[i][2])
                    while i < n and toks[i][2] <= close:
                        i += 1
                elif i < n and toks[i][0] == 'lit' and val == 'extern':
                    i += 1
                continue
            if kind == 'ident' and val in ITEM_KW:
                # `const fn` : const is a qualifier
                if val == 'const' and i + 1 < n and toks[i + 1][1] in ('fn', 'unsafe', 'async', 'extern'):
                    if lead_start is None:
                        lead_start = pos
                    i += 1
                    continue
                it = Item()
                it.kind = val
                it.kw_pos = pos
                it.start = lead_start if lead_start is not None else pos
                # name
                name = None
                j = i + 1
                if val == 'impl':
                    name = None
                elif val == 'macro_rules':
                    j += 1  # skip '!'
                    if j < n:
                        name = toks[j][1]
                else:
                    if j < n and toks[j][0] == 'ident':
                        name = toks[j][1]
                    elif j < n and val == 'const' and toks[j][1] == '_':
                        name = '_'
                it.name = name
                # find end: first `{` or `;` at bracket depth 0 after keyword
                # (generic angle brackets can't contain `{`/`;` except in const
                # generic blocks, which we do not meet here).
                d = 0
                k = i + 1
                it.body_open = None
                it.end = None
                eq_seen = False
                while k < n:
                    tk, tv, tp, te = toks[k]
                    if tk == 'punct':
                        if tv == '=' and d == 0 and val in ('const', 'static', 'type'):
                            eq_seen = True
                        if tv in '([':
                            d += 1
                        elif tv in ')]':
                            d -= 1
                        elif tv == '{':
                            if d == 0 and not eq_seen:
                                it.body_open = tp
                                close = match_close(text, tp)
                                it.end = close + 1
                                # tuple/unit structs etc. never reach here
                                break
                            else:
                                close = match_close(text, tp)
                                while k < n and toks[k][2] < close:
                                    k += 1
                                continue
                        elif tv == ';' and d == 0:
                            it.end = te
                            break
                    k += 1
                if it.end is None:
                    raise ScanError('item %s %s has no end' % (val, name))
                hdr_end = it.body_open if it.body_open is not None else it.end
                it.header = _norm(text[it.kw_pos:hdr_end])
                out.append(it)
                # continue after item
                while i < n and toks[i][2] < it.end:
                    i += 1
                reset_lead()
                continue
            # anything else at depth 0 that is not part of an item lead
            if kind == 'punct' and val in OPEN:
                close = match_close(text, pos)
                while i < n and toks[i][2] <= close:
                    i += 1
                reset_lead()
                continue
            reset_lead()
            i += 1
            continue
        i += 1
    return out


def find_item(text, kind, name, start=0, end=None, impl_header=None):
    """Find a unique item. For methods pass impl_header (normalised text of the
    impl header, e.g. 'impl ApplyApChange for CellRef'); kind/name then select
    inside that impl's braces."""
    if impl_header is not None:
        want = _norm(impl_header)
        impls = [it for it in items_in(text, start, end) if it.kind in ('impl', 'trait') and it.header == want]
        if not impls:
            # allow a prefix match up to generics / where clauses
            impls = [it for it in items_in(text, start, end)
                     if it.kind in ('impl', 'trait') and (it.header.startswith(want + ' ') or it.header.startswith(want + '<'))]
        if len(impls) > 1:  # several impl blocks share the header (e.g. two `impl ConstCost`): keep those defining the item
            impls = [im for im in impls if any(x.kind == kind and x.name == name for x in items_in(text, im.body_open + 1, im.end - 1))]
        if len(impls) != 1:
            raise ScanError('impl header %r: %d matches' % (impl_header, len(impls)))
        imp = impls[0]
        return find_item(text, kind, name, imp.body_open + 1, imp.end - 1)
    cands = [it for it in items_in(text, start, end) if it.kind == kind and it.name == name]
    if len(cands) != 1:
        raise ScanError('%s %s: %d matches' % (kind, name, len(cands)))
    return cands[0]


def find_impl(text, impl_header, start=0, end=None):
    want = _norm(impl_header)
    impls = [it for it in items_in(text, start, end) if it.kind in ('impl', 'trait') and it.header == want]
    if len(impls) != 1:
        raise ScanError('impl header %r: %d matches' % (impl_header, len(impls)))
    return impls[0]


LOOP_KW = ('for', 'while', 'loop')


def loops_in(text, body_open, body_close):
    """Return [(kw, kw_pos, open_brace_pos)] for every loop inside the braces,
    in source order (nested loops included, closures included)."""
    out = []
    toks = list(code_tokens(text, body_open + 1, body_close))
    n = len(toks)
    for i, (kind, val, pos, epos) in enumerate(toks):
        if kind == 'ident' and val in LOOP_KW:
            # `for<'a>` higher-ranked bound is not a loop
            if val == 'for' and i + 1 < n and toks[i + 1][1] == '<':
                continue
            # `impl X for Y` cannot occur inside a body at statement level
            # except nested items; ignore those by requiring an `in` for `for`.
            d = 0
            k = i + 1
            open_pos = None
            saw_in = False
            while k < n:
                tk, tv, tp, te = toks[k]
                if tk == 'ident' and tv == 'in' and d == 0:
                    saw_in = True
                if tk == 'punct':
                    if tv in '([':
                        d += 1
                    elif tv in ')]':
                        d -= 1
                    elif tv == '{' and d == 0:
                        open_pos = tp
                        break
                    elif tv == ';' and d == 0:
                        break
                k += 1
            if open_pos is None:
                continue
            if val == 'for' and not saw_in:
                continue
            out.append((val, pos, open_pos))
    return out


def line_start(text, pos):
    j = text.rfind('\n', 0, pos)
    return j + 1


def line_end(text, pos):
    j = text.find('\n', pos)
    return len(text) if j == -1 else j


def indent_of(text, pos):
    ls = line_start(text, pos)
    m = re.compile(r'[ \t]*').match(text, ls)
    return m.group(0)
