"""Per-run scratch copy of /repo (outside /repo and /verif) with add-only
injection of contract attributes and harness modules."""
import hashlib
import os
import shutil
import subprocess

from rustscan import ScanError, find_item, line_start

SCRATCH_ROOT = os.environ.get('VERIF_SCRATCH_ROOT', '/var/tmp')


class Scratch:
    def __init__(self, repo, tag):
        self.repo = repo
        self.path = os.path.join(SCRATCH_ROOT, 'cairo-verif-%s-%d' % (tag, os.getpid()))
        self.diff = []  # (relpath, lines_added)
        self.created = False

    def create(self):
        if os.path.exists(self.path):
            shutil.rmtree(self.path)
        os.makedirs(self.path)
        subprocess.run(['rsync', '-a', '--exclude', '/target', '--exclude', '.git',
                        self.repo.rstrip('/') + '/', self.path + '/'], check=True)
        cfgdir = os.path.join(self.path, '.cargo')
        os.makedirs(cfgdir, exist_ok=True)
        with open(os.path.join(cfgdir, 'config.toml'), 'a') as f:
            f.write('\n[net]\noffline = true\n')
        self.created = True
        return self.path

    def remove(self):
        if os.environ.get('VERIF_KEEP_WORK') == '1':
            return
        if os.path.exists(self.path):
            shutil.rmtree(self.path, ignore_errors=True)

    # ---- add-only edits -------------------------------------------------
    def insert_attrs(self, relpath, fn_name, lines, impl=None, kind='fn'):
        """Insert attribute lines above the item (before its doc comments /
        existing attributes). The item text itself is untouched."""
        p = os.path.join(self.path, relpath)
        src = open(p).read()
        it = find_item(src, kind, fn_name, impl_header=impl)
        ls = line_start(src, it.start)
        indent = src[ls:it.start]
        if indent.strip():
            # item does not start its line (e.g. `impl X { fn f`) - insert inline
            ins = ' '.join(lines) + ' '
            new = src[:it.start] + ins + src[it.start:]
        else:
            ins = ''.join(indent + l + '\n' for l in lines)
            new = src[:ls] + ins + src[ls:]
        open(p, 'w').write(new)
        self.diff.append((relpath, len(lines)))

    def append_module(self, relpath, cfg, modname, abs_path):
        p = os.path.join(self.path, relpath)
        with open(p, 'a') as f:
            f.write('\n#[cfg(%s)]\n#[path = "%s"]\nmod %s;\n' % (cfg, abs_path, modname))
        self.diff.append((relpath, 4))

    def append_text(self, relpath, text):
        p = os.path.join(self.path, relpath)
        with open(p, 'a') as f:
            f.write(text)
        self.diff.append((relpath, text.count('\n')))


def sha256_item(repo, relpath, kind, name, impl=None):
    src = open(os.path.join(repo, relpath)).read()
    it = find_item(src, kind, name, impl_header=impl)
    return hashlib.sha256(src[it.start:it.end].encode()).hexdigest(), src.count('\n', 0, it.start) + 1
