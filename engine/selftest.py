#!/usr/bin/env python3
"""./check selftest [name...] : apply each committed mutant / benign refactor to a PRIVATE copy of /repo
(never to /repo itself), run the named property check with --repo on that copy and compare with the
expectation. This is the evidence that a pass means something; it is not a registered property check.

selftest/<name>.json: {"property": "C16", "only": ["unit", ..], "patch": "<file.diff>" | "seeded/<id>/patch.diff",
                       "expect": "VIOLATION" | "OK", "obligation_regex": "..." (for VIOLATION)}
"""
import glob
import json
import os
import re
import shutil
import subprocess
import sys

HERE = os.path.dirname(os.path.abspath(__file__))
VERIF = os.path.dirname(HERE)


def main(names):
    repo = os.environ.get('VERIF_REPO', '/repo')
    copy = '/var/tmp/cairo-verif-selftest-%d' % os.getpid()
    specs = sorted(glob.glob(os.path.join(VERIF, 'selftest', '*.json')))
    if names:
        specs = [s for s in specs if os.path.basename(s)[:-5] in names]
    bad = 0
    try:
        for sp in specs:
            name = os.path.basename(sp)[:-5]
            spec = json.load(open(sp))
            if os.path.exists(copy):
                shutil.rmtree(copy)
            subprocess.run(['rsync', '-a', '--exclude', '/target', '--exclude', '.git', repo.rstrip('/') + '/', copy + '/'], check=True)
            patch = os.path.join(VERIF, spec['patch'])
            r = subprocess.run(['patch', '-p1', '--no-backup-if-mismatch', '-i', patch], cwd=copy, capture_output=True, text=True)
            if r.returncode != 0:
                print('SELFTEST %-40s BROKEN: patch does not apply: %s' % (name, r.stdout[-300:]))
                bad += 1
                continue
            cmd = [os.path.join(VERIF, 'check'), spec['property'], '--repo', copy]
            for u in spec.get('only', []):
                cmd += ['--only', u]
            env = dict(os.environ)
            env['VERIF_EVIDENCE_DIR'] = '/var/tmp/cairo-verif-selftest-evidence-%d' % os.getpid()
            p = subprocess.run(cmd, capture_output=True, text=True, env=env)
            out = p.stdout + p.stderr
            viol = [l for l in out.split('\n') if l.startswith('VIOLATION ')]
            failed = [l for l in out.split('\n') if 'failed obligation:' in l]
            if spec['expect'] == 'VIOLATION':
                ok = p.returncode == 1 and viol and any(re.search(spec.get('obligation_regex', '.'), l) for l in failed)
            else:
                ok = p.returncode == 0 and not viol
            print('SELFTEST %-40s %s  (expect %s, exit %d, %d VIOLATION lines)%s' % (
                name, 'ok' if ok else 'MISMATCH', spec['expect'], p.returncode, len(viol),
                '' if ok else '\n' + '\n'.join(out.split('\n')[-15:])), flush=True)
            if not ok:
                bad += 1
    finally:
        shutil.rmtree(copy, ignore_errors=True)
        shutil.rmtree('/var/tmp/cairo-verif-selftest-evidence-%d' % os.getpid(), ignore_errors=True)
    print('selftest: %d of %d as expected' % (len(specs) - bad, len(specs)))
    return 1 if bad else 0


if __name__ == '__main__':
    sys.exit(main(sys.argv[1:]))
