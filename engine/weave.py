"""V engine: weave a single Verus file from a template plus items lifted
verbatim out of /repo, run `verus`, and map diagnostics back to obligations.

Template directives (lines starting with `//@`):

  //@lift <relpath> <kind> <name> [impl="<impl header>"] [as=<label>]
      Lift the item. Sub-directives until `//@end`:
  //@ret <name>                 `-> T` becomes `-> (name: T)`
  //@sig                        following `//@  ` lines are spliced between the
                                signature and the `{` of the body
  //@loop <n> [iter=<name>]     following lines go between the header of the
                                n-th loop (source order) and its `{`;
                                iter=<name> names the ghost iterator of a `for`
  //@before <n> "<needle>"      following lines are inserted on their own lines
  //@after <n> "<needle>"       before / after the line holding the n-th
                                occurrence of needle in the item text
  //@rewrite <count> /regex/ => /replacement/
                                closed list of rewrites (DESIGN 2.1 item 4);
                                the match count must be exactly <count>
  //@dropattr                   (implicit) attributes Verus does not understand
                                are dropped, the list is recorded
  //@end

Everything not named by a directive is copied byte-for-byte.
"""
import hashlib
import json
import os
import re
import shlex
import subprocess
import time

from rustscan import (ScanError, find_item, loops_in, line_start, line_end, tokenize, match_close)

KEEP_DERIVES = {'Clone', 'Copy', 'Debug', 'Eq', 'PartialEq', 'Hash', 'Default', 'PartialOrd', 'Ord'}


class WeaveError(Exception):
    pass


def _strip_attrs(item_text, drops, extra_drop=()):
    """Drop attributes Verus does not understand from the item text (anywhere
    in the item: on the item, on fields, on variants). Returns new text."""
    out = []
    i = 0
    toks = list(tokenize(item_text))
    spans = []  # (start, end, replacement)
    k = 0
    while k < len(toks):
        kind, val, pos, epos = toks[k]
        if kind == 'punct' and val == '#' and k + 1 < len(toks) and toks[k + 1][1] == '[':
            close = match_close(item_text, toks[k + 1][2])
            attr = item_text[pos:close + 1]
            inner = item_text[toks[k + 1][2] + 1:close].strip()
            name = re.match(r'[A-Za-z_:]+', inner)
            name = name.group(0) if name else ''
            if name == 'derive':
                lst = [d.strip() for d in inner[inner.index('(') + 1:inner.rindex(')')].split(',') if d.strip()]
                keep = KEEP_DERIVES - set(extra_drop)
                kept = [d for d in lst if d.split('::')[-1] in keep]
                dropped = [d for d in lst if d.split('::')[-1] not in keep]
                if dropped:
                    drops.append('derive(%s)' % ', '.join(dropped))
                    rep = '#[derive(%s)]' % ', '.join(kept) if kept else ''
                    spans.append((pos, close + 1, rep))
            elif name in ('doc', 'inline', 'allow', 'must_use', 'verifier', 'verus_spec'):
                pass
            else:
                drops.append('#[%s]' % re.sub(r'\s+', ' ', inner)[:80])
                spans.append((pos, close + 1, ''))
            while k < len(toks) and toks[k][2] <= close:
                k += 1
            continue
        k += 1
    if not spans:
        return item_text
    res = []
    last = 0
    for s, e, rep in spans:
        res.append(item_text[last:s])
        res.append(rep)
        last = e
    res.append(item_text[last:])
    return ''.join(res)


class Lifted:
    def __init__(self):
        self.relpath = None
        self.kind = None
        self.name = None
        self.impl = None
        self.sha256 = None
        self.src_start_line = None
        self.drops = []
        self.rewrites = []
        self.text = None
        self.linemap = []  # for each output line of this item: source line or None (spliced)


def _parse_template(tpl):
    """Split the template into literal chunks and lift blocks."""
    lines = tpl.split('\n')
    chunks = []  # ('text', [lines]) or ('lift', header, [(subdir, args, [lines])])
    i = 0
    cur = []
    while i < len(lines):
        ln = lines[i]
        s = ln.strip()
        if s.startswith('//@lift '):
            if cur:
                chunks.append(('text', cur))
                cur = []
            header = s[len('//@lift '):]
            subs = []
            i += 1
            while i < len(lines):
                s2 = lines[i].strip()
                if s2 == '//@end':
                    break
                if not s2.startswith('//@'):
                    raise WeaveError('line %d: expected //@ inside lift block: %r' % (i + 1, lines[i]))
                body = s2[3:]
                if body.startswith(' ') or body == '':
                    if not subs:
                        raise WeaveError('line %d: text before sub-directive' % (i + 1))
                    subs[-1][2].append(body[1:] if body.startswith(' ') else body)
                else:
                    parts = body.split(None, 1)
                    subs.append((parts[0], parts[1] if len(parts) > 1 else '', []))
                i += 1
            else:
                raise WeaveError('unterminated //@lift block')
            chunks.append(('lift', header, subs))
            i += 1
            continue
        cur.append(ln)
        i += 1
    if cur:
        chunks.append(('text', cur))
    return chunks


def _lift(repo, header, subs):
    toks = shlex.split(header)
    if len(toks) < 3:
        raise WeaveError('bad lift header: ' + header)
    relpath, kind, name = toks[0], toks[1], toks[2]
    opts = dict(t.split('=', 1) for t in toks[3:])
    path = os.path.join(repo, relpath)
    try:
        src = open(path).read()
    except OSError as e:
        raise ScanError('cannot read %s: %s' % (relpath, e))
    it = find_item(src, kind, name, impl_header=opts.get('impl'))
    L = Lifted()
    L.relpath, L.kind, L.name, L.impl = relpath, kind, name, opts.get('impl')
    raw = src[it.start:it.end]
    L.sha256 = hashlib.sha256(raw.encode()).hexdigest()
    L.src_start_line = src.count('\n', 0, it.start) + 1

    # We operate with insertions expressed against offsets in `raw`, then apply
    # them from the end. Attribute stripping is applied first but keeps line
    # structure (attributes are replaced in place; a now-empty line stays).
    text = raw
    inserts = []  # (offset, text)  inserted verbatim at offset
    replaces = []  # (start, end, text)

    # locate body
    rel_kw = it.kw_pos - it.start
    body_open = it.body_open - it.start if it.body_open is not None else None
    body_close = it.end - it.start - 1

    for sub, args, body in subs:
        payload = '\n'.join(body)
        if sub == 'ret':
            if kind != 'fn':
                raise WeaveError('ret on non-fn')
            sig = text[rel_kw:body_open]
            # last `->` at paren depth 0
            depth = 0
            arrow = None
            for k_, v_, p_, e_ in tokenize(text, rel_kw, body_open):
                if k_ == 'punct':
                    if v_ in '([':
                        depth += 1
                    elif v_ in ')]':
                        depth -= 1
                    elif v_ == '-' and depth == 0 and text[p_:p_ + 2] == '->':
                        arrow = p_
            if arrow is None:
                raise ScanError('fn %s has no return type' % name)
            # return type ends at `where` (depth 0) or body_open
            ty_start = arrow + 2
            ty_end = body_open
            depth = 0
            for k_, v_, p_, e_ in tokenize(text, ty_start, body_open):
                if k_ == 'punct' and v_ in '([<':
                    depth += 1
                elif k_ == 'punct' and v_ in ')]>':
                    depth -= 1
                elif k_ == 'ident' and v_ == 'where' and depth == 0:
                    ty_end = p_
                    break
            ty = text[ty_start:ty_end]
            stripped = ty.strip()
            lead = ty[:len(ty) - len(ty.lstrip())]
            trail = ty[len(ty.rstrip()):]
            replaces.append((ty_start, ty_end, '%s(%s: %s)%s' % (lead or ' ', args.strip(), stripped, trail or ' ')))
        elif sub == 'sig':
            if body_open is None:
                raise WeaveError('sig on item without body')
            inserts.append((body_open, '\n' + payload + '\n'))
        elif sub == 'loop':
            a = args.split()
            n = int(a[0])
            o = dict(x.split('=', 1) for x in a[1:])
            lps = loops_in(text, body_open, body_close)
            if n < 1 or n > len(lps):
                raise ScanError('fn %s: loop %d not found (%d loops)' % (name, n, len(lps)))
            kw, kw_pos, open_pos = lps[n - 1]
            if 'iter' in o:
                if kw != 'for':
                    raise ScanError('iter= on a %s loop' % kw)
                m = re.compile(r'\bin\b\s*').search(text, kw_pos, open_pos)
                if not m:
                    raise ScanError('for without in')
                inserts.append((m.end(), o['iter'] + ': '))
            inserts.append((open_pos, '\n' + payload + '\n'))
        elif sub in ('before', 'after'):
            m = re.match(r'(\d+)\s+"(.*)"\s*$', args)
            if not m:
                raise WeaveError('bad %s args: %s' % (sub, args))
            n, needle = int(m.group(1)), m.group(2)
            pos = -1
            for _ in range(n):
                pos = text.find(needle, pos + 1)
                if pos == -1:
                    raise ScanError('%s: needle %r occurrence %d not found in %s' % (sub, needle, n, name))
            if text.find(needle, pos + 1) != -1 and False:
                pass
            if sub == 'before':
                inserts.append((line_start(text, pos), payload + '\n'))
            else:
                inserts.append((line_end(text, pos) + 1, payload + '\n'))
        elif sub == 'rewrite':
            m = re.match(r'(\d+)\s+/(.*)/\s*=>\s*/(.*)/\s*$', args)
            if not m:
                raise WeaveError('bad rewrite: ' + args)
            cnt, rx, rep = int(m.group(1)), m.group(2), m.group(3)
            ms = list(re.finditer(rx, text))
            if len(ms) != cnt:
                raise ScanError('rewrite /%s/ in %s: %d matches, expected %d' % (rx, name, len(ms), cnt))
            for mm in ms:
                replaces.append((mm.start(), mm.end(), mm.expand(rep)))
            L.rewrites.append('%s => %s (x%d)' % (rx, rep, cnt))
        elif sub == 'strip':
            # remove the item's visibility / nothing else. args: literal prefix
            pass
        else:
            raise WeaveError('unknown sub-directive ' + sub)

    # attribute dropping expressed as replaces on raw text
    extra_drop = tuple(x for x in opts.get('dropderive', '').split(',') if x)
    stripped = _strip_attrs(text, L.drops, extra_drop)
    if stripped != text:
        # recompute as replaces: easier to redo by scanning attributes again
        toks = list(tokenize(text))
        k = 0
        while k < len(toks):
            kind_, val_, pos_, epos_ = toks[k]
            if kind_ == 'punct' and val_ == '#' and k + 1 < len(toks) and toks[k + 1][1] == '[':
                close = match_close(text, toks[k + 1][2])
                one = text[pos_:close + 1]
                d2 = []
                rep = _strip_attrs(one, d2, extra_drop)
                if rep != one:
                    replaces.append((pos_, close + 1, rep))
                while k < len(toks) and toks[k][2] <= close:
                    k += 1
                continue
            k += 1

    # apply edits from the end; check for overlap
    edits = [(s, e, t) for (s, e, t) in replaces] + [(o, o, t) for (o, t) in inserts]
    edits.sort(key=lambda x: (x[0], x[1]))
    for a, b in zip(edits, edits[1:]):
        if a[1] > b[0]:
            raise WeaveError('overlapping edits in %s' % name)
    pos = 0
    pieces = []  # (text, is_source)
    for s, e, t in edits:
        pieces.append((text[pos:s], True))
        pieces.append((t, False))
        if e > s:
            pieces.append((text[s:e], 'skipped'))
        pos = e
    pieces.append((text[pos:], True))
    # simpler: compute mapping by walking pieces char by char per line
    final_text = ''.join(seg for seg, is_src in pieces if is_src != 'skipped')
    # map: for each output line, the source line of the first source char on it
    mapping = []
    src_line = L.src_start_line
    cur = None
    for seg, is_src in pieces:
        if is_src == 'skipped':
            src_line += seg.count('\n')
            continue
        for ch in seg:
            if ch == '\n':
                mapping.append(cur)
                cur = None
                if is_src is True:
                    src_line += 1
            else:
                if is_src is True and cur is None and not ch.isspace():
                    cur = src_line
    mapping.append(cur)
    L.text = final_text
    L.linemap = mapping
    return L


def weave(repo, template_path):
    tpl = open(template_path).read()
    chunks = _parse_template(tpl)
    out_lines = []
    lifted = []
    origin = []  # per output line: ('tpl', lineno) or ('src', relpath, lineno, item)
    tpl_line = 1
    for ch in chunks:
        if ch[0] == 'text':
            for ln in ch[1]:
                out_lines.append(ln)
                origin.append(('tpl', os.path.basename(template_path), None))
        else:
            L = _lift(repo, ch[1], ch[2])
            lifted.append(L)
            tl = L.text.split('\n')
            for k, ln in enumerate(tl):
                out_lines.append(ln)
                sl = L.linemap[k] if k < len(L.linemap) else None
                if sl is not None:
                    origin.append(('src', L.relpath, sl, L.name))
                else:
                    origin.append(('contract', L.relpath, None, L.name))
    return '\n'.join(out_lines), lifted, origin


ERR_RE = re.compile(r'^(error|warning)(?:\[[A-Z0-9]+\])?: (.*)$')
LOC_RE = re.compile(r'^\s*--> (.*?):(\d+):(\d+)')


def parse_verus_stderr(stderr):
    """-> list of {level, message, line, notes}"""
    out = []
    cur = None
    for ln in stderr.split('\n'):
        m = ERR_RE.match(ln)
        if m:
            cur = {'level': m.group(1), 'message': m.group(2), 'line': None, 'text': [ln]}
            out.append(cur)
            continue
        if cur is not None:
            cur['text'].append(ln)
            m = LOC_RE.match(ln)
            if m and cur['line'] is None:
                cur['line'] = int(m.group(2))
    return out


VERDICT_MSGS = (
    'postcondition not satisfied',
    'precondition not satisfied',
    'precondition not met',
    'invariant not satisfied',
    'possible arithmetic underflow/overflow',
    'possible division by zero',
    'assertion failed',
    'index out of bounds',
    'decreases not satisfied',
    'possible bit shift underflow/overflow',
    'recommendation not met',
    'unreachable',
    'loop invariant not satisfied',
    'possible truncation',
    'unwrap',
)


def is_verdict(msg):
    m = msg.lower()
    return any(v in m for v in VERDICT_MSGS) and 'rlimit' not in m and 'resource limit' not in m


def run_verus(path, rlimit=None, extra=None, timeout=600):
    cmd = ['verus', path, '--output-json', '--time', '--multiple-errors', '5']
    if rlimit:
        cmd += ['--rlimit', str(rlimit)]
    if extra:
        cmd += extra
    t0 = time.time()
    env = dict(os.environ)
    p = subprocess.run(cmd, capture_output=True, text=True, timeout=timeout, cwd=os.path.dirname(path), env=env)
    wall = time.time() - t0
    js = None
    try:
        js = json.loads(p.stdout)
    except Exception:
        js = None
    return p.returncode, js, p.stderr, wall, ' '.join(cmd)
