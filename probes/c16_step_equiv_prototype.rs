#![allow(dead_code)]
use cairo_lang_casm::instructions::*;
use cairo_lang_casm::operand::*;
use num_bigint::BigInt;
use num_traits::ToPrimitive;

// ---------- oracle 1: decoder written from the Cairo machine definition ----------
#[derive(Clone, Copy, PartialEq, Eq, Debug)] pub enum Reg { AP, FP }
#[derive(Clone, Copy, PartialEq, Eq, Debug)] pub enum Op1 { Op0, Imm, FP, AP }
#[derive(Clone, Copy, PartialEq, Eq, Debug)] pub enum ResL { Op1, Add, Mul, Unconstrained }
#[derive(Clone, Copy, PartialEq, Eq, Debug)] pub enum PcU { Regular, Jump, JumpRel, Jnz }
#[derive(Clone, Copy, PartialEq, Eq, Debug)] pub enum ApU { Regular, Add, Add1, Add2 }
#[derive(Clone, Copy, PartialEq, Eq, Debug)] pub enum FpU { Regular, ApPlus2, Dst }
#[derive(Clone, Copy, PartialEq, Eq, Debug)] pub enum Opc { Nop, AssertEq, Call, Ret }
#[derive(Clone, Copy, PartialEq, Eq, Debug)]
pub struct Dec { off0: i32, off1: i32, off2: i32, dst: Reg, op0: Reg, op1: Op1, res: ResL, pc: PcU, ap: ApU, fp: FpU, opc: Opc, ext: u128 }

pub fn spec_decode(w: u128) -> Option<Dec> {
    let off = |x: u128| -> i32 { (x & 0xffff) as i32 - 0x8000 };
    let f = w >> 48;
    let bit = |i: u32| -> bool { (f >> i) & 1 == 1 };
    let op1 = match (bit(2), bit(3), bit(4)) { (false,false,false)=>Op1::Op0, (true,false,false)=>Op1::Imm, (false,true,false)=>Op1::FP, (false,false,true)=>Op1::AP, _=>return None };
    let pc = match (bit(7), bit(8), bit(9)) { (false,false,false)=>PcU::Regular, (true,false,false)=>PcU::Jump, (false,true,false)=>PcU::JumpRel, (false,false,true)=>PcU::Jnz, _=>return None };
    let res = match (bit(5), bit(6)) { (false,false)=> if pc == PcU::Jnz { ResL::Unconstrained } else { ResL::Op1 }, (true,false)=>ResL::Add, (false,true)=>ResL::Mul, _=>return None };
    let opc = match (bit(12), bit(13), bit(14)) { (false,false,false)=>Opc::Nop, (true,false,false)=>Opc::Call, (false,true,false)=>Opc::Ret, (false,false,true)=>Opc::AssertEq, _=>return None };
    let ap = match (bit(10), bit(11)) { (false,false)=> if opc == Opc::Call { ApU::Add2 } else { ApU::Regular }, (true,false)=>ApU::Add, (false,true)=>ApU::Add1, _=>return None };
    let fp = match opc { Opc::Call => FpU::ApPlus2, Opc::Ret => FpU::Dst, _ => FpU::Regular };
    Some(Dec { off0: off(w), off1: off(w >> 16), off2: off(w >> 32), dst: if bit(0) {Reg::FP} else {Reg::AP}, op0: if bit(1) {Reg::FP} else {Reg::AP}, op1, res, pc, ap, fp, opc, ext: w >> 63 })
}

// ---------- abstract machine ----------
#[derive(Clone, Copy, PartialEq, Eq, Debug)]
pub enum Val { Cell(i64 /*addr*/), Imm, Add(i64, i64, bool /*second is imm*/), Mul(i64, i64, bool), DD(i64, i32) /* [[addr]+off] */, None }
#[derive(Clone, Copy, PartialEq, Eq, Debug)]
pub enum Next { Seq(i64), Abs(Val), Rel(Val), JnzRel(i64 /*cond addr*/, Val, i64 /*fallthrough size*/) }
#[derive(Clone, Copy, PartialEq, Eq, Debug)]
pub struct Step { assert_eq: Option<(i64, Val)>, call_writes: Option<(i64, i64, i64)>, pc: Next, ap: ApNext, fp: FpNext, ext: u128 }
#[derive(Clone, Copy, PartialEq, Eq, Debug)] pub enum ApNext { Same, Plus(i64), PlusRes(Val) }
#[derive(Clone, Copy, PartialEq, Eq, Debug)] pub enum FpNext { Same, ApPlus2, FromCell(i64) }
#[derive(Clone, Copy)] pub struct St { pc: i64, ap: i64, fp: i64 }

fn base(st: St, r: Reg) -> i64 { match r { Reg::AP => st.ap, Reg::FP => st.fp } }

// the VM's rule for a decoded instruction (whitepaper state transition)
pub fn vm_step(d: Dec, st: St) -> Option<Step> {
    let dst = base(st, d.dst) + d.off0 as i64;
    let op0 = base(st, d.op0) + d.off1 as i64;
    let size: i64 = if d.op1 == Op1::Imm { 2 } else { 1 };
    if d.op1 == Op1::Imm && d.off2 != 1 { return None; }
    let op1v = match d.op1 { Op1::Imm => Val::Imm, Op1::AP => Val::Cell(st.ap + d.off2 as i64), Op1::FP => Val::Cell(st.fp + d.off2 as i64), Op1::Op0 => Val::DD(op0, d.off2) };
    let is_imm = d.op1 == Op1::Imm;
    let op1addr = match op1v { Val::Cell(a) => a, _ => 0 };
    let res = match d.res { ResL::Op1 => op1v, ResL::Add => match op1v { Val::DD(..) => return None, _ => Val::Add(op0, op1addr, is_imm) }, ResL::Mul => match op1v { Val::DD(..) => return None, _ => Val::Mul(op0, op1addr, is_imm) }, ResL::Unconstrained => Val::None };
    let pc = match d.pc { PcU::Regular => Next::Seq(size), PcU::Jump => Next::Abs(res), PcU::JumpRel => Next::Rel(res), PcU::Jnz => Next::JnzRel(dst, op1v, size) };
    let ap = match d.ap { ApU::Regular => ApNext::Same, ApU::Add => ApNext::PlusRes(res), ApU::Add1 => ApNext::Plus(1), ApU::Add2 => ApNext::Plus(2) };
    let (fp, call_writes, assert_eq) = match d.opc {
        Opc::Nop => (FpNext::Same, None, None),
        Opc::AssertEq => (FpNext::Same, None, Some((dst, res))),
        Opc::Call => { if !(d.dst == Reg::AP && d.off0 == 0 && d.op0 == Reg::AP && d.off1 == 1) { return None; } (FpNext::ApPlus2, Some((dst, op0, size)), None) }
        Opc::Ret => (FpNext::FromCell(dst), None, None),
    };
    Some(Step { assert_eq, call_writes, pc, ap, fp, ext: d.ext })
}

// the meaning of the CASM text
fn cell(st: St, c: CellRef) -> i64 { (match c.register { Register::AP => st.ap, Register::FP => st.fp }) + c.offset as i64 }
fn doi(st: St, x: &DerefOrImmediate) -> Val { match x { DerefOrImmediate::Deref(c) => Val::Cell(cell(st, *c)), DerefOrImmediate::Immediate(_) => Val::Imm } }
fn resop(st: St, r: &ResOperand) -> Val { match r {
    ResOperand::Deref(c) => Val::Cell(cell(st, *c)),
    ResOperand::DoubleDeref(c, o) => Val::DD(cell(st, *c), *o as i32),
    ResOperand::Immediate(_) => Val::Imm,
    ResOperand::BinOp(b) => { let (a1, imm) = match &b.b { DerefOrImmediate::Deref(c) => (cell(st, *c), false), DerefOrImmediate::Immediate(_) => (0, true) };
        match b.op { Operation::Add => Val::Add(cell(st, b.a), a1, imm), Operation::Mul => Val::Mul(cell(st, b.a), a1, imm) } } } }
pub fn ref_step(i: &Instruction, st: St) -> Step {
    let size = i.body.op_size() as i64;
    let inc = if i.inc_ap { ApNext::Plus(1) } else { ApNext::Same };
    match &i.body {
        InstructionBody::AssertEq(x) => Step { assert_eq: Some((cell(st, x.a), resop(st, &x.b))), call_writes: None, pc: Next::Seq(size), ap: inc, fp: FpNext::Same, ext: 0 },
        InstructionBody::QM31AssertEq(x) => Step { assert_eq: Some((cell(st, x.a), resop(st, &x.b))), call_writes: None, pc: Next::Seq(size), ap: inc, fp: FpNext::Same, ext: 3 },
        InstructionBody::AddAp(x) => Step { assert_eq: None, call_writes: None, pc: Next::Seq(size), ap: ApNext::PlusRes(resop(st, &x.operand)), fp: FpNext::Same, ext: 0 },
        InstructionBody::Jump(x) => Step { assert_eq: None, call_writes: None, pc: if x.relative { Next::Rel(doi(st, &x.target)) } else { Next::Abs(doi(st, &x.target)) }, ap: inc, fp: FpNext::Same, ext: 0 },
        InstructionBody::Jnz(x) => Step { assert_eq: None, call_writes: None, pc: Next::JnzRel(cell(st, x.condition), doi(st, &x.jump_offset), size), ap: inc, fp: FpNext::Same, ext: 0 },
        InstructionBody::Call(x) => Step { assert_eq: None, call_writes: Some((st.ap, st.ap + 1, size)), pc: if x.relative { Next::Rel(doi(st, &x.target)) } else { Next::Abs(doi(st, &x.target)) }, ap: ApNext::Plus(2), fp: FpNext::ApPlus2, ext: 0 },
        InstructionBody::Ret(_) => Step { assert_eq: None, call_writes: None, pc: Next::Abs(Val::Cell(st.fp - 1)), ap: ApNext::Same, fp: FpNext::FromCell(st.fp - 2), ext: 0 },
        InstructionBody::Blake2sCompress(_) => unimplemented!(),
    }
}

#[cfg(kani)]
mod proofs {
    use super::*;
    fn any_reg() -> Register { if kani::any() { Register::FP } else { Register::AP } }
    fn any_cell() -> CellRef { CellRef { register: any_reg(), offset: kani::any() } }
    fn any_imm() -> cairo_lang_utils::bigint::BigIntAsHex { BigInt::from(kani::any::<i64>()).into() }
    fn any_doi() -> DerefOrImmediate { if kani::any() { DerefOrImmediate::Deref(any_cell()) } else { DerefOrImmediate::Immediate(any_imm()) } }
    fn any_st() -> St { let s = St { pc: kani::any(), ap: kani::any(), fp: kani::any() }; let b = 1i64 << 40; kani::assume(s.pc > -b && s.pc < b && s.ap > -b && s.ap < b && s.fp > -b && s.fp < b); s }

    fn check(ins: Instruction) {
        let st = any_st();
        let expect = ref_step(&ins, st);
        let size = ins.body.op_size();
        let words = ins.assemble().encode();
        assert!(words.len() == size);
        let d = spec_decode(words[0].to_u128().unwrap()).unwrap();
        assert!(vm_step(d, st) == Some(expect));
    }

    #[kani::proof] #[kani::unwind(6)]
    fn c16_assert_eq_binop() {
        let op = if kani::any() { Operation::Add } else { Operation::Mul };
        check(Instruction::new(InstructionBody::AssertEq(AssertEqInstruction { a: any_cell(), b: ResOperand::BinOp(BinOpOperand { op, a: any_cell(), b: any_doi() }) }), kani::any()));
    }
    #[kani::proof] #[kani::unwind(6)]
    fn c16_assert_eq_double_deref() {
        check(Instruction::new(InstructionBody::AssertEq(AssertEqInstruction { a: any_cell(), b: ResOperand::DoubleDeref(any_cell(), kani::any()) }), kani::any()));
    }
    #[kani::proof] #[kani::unwind(6)]
    fn c16_call() {
        check(Instruction::new(InstructionBody::Call(CallInstruction { target: any_doi(), relative: kani::any() }), false));
    }
    #[kani::proof] #[kani::unwind(6)]
    fn c16_jnz() {
        check(Instruction::new(InstructionBody::Jnz(JnzInstruction { jump_offset: any_doi(), condition: any_cell() }), kani::any()));
    }
    #[kani::proof] #[kani::unwind(6)]
    fn c16_ret() {
        check(Instruction::new(InstructionBody::Ret(RetInstruction {}), false));
    }
    #[kani::proof] #[kani::unwind(6)]
    fn c16_add_ap() {
        check(Instruction::new(InstructionBody::AddAp(AddApInstruction { operand: ResOperand::Immediate(any_imm()) }), false));
    }
}
