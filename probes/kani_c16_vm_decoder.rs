// K unit (C16-5, thorough tier): the layout oracle `spec_decode` used by every C16 harness equals
// the decoder the VM really uses, `cairo_vm::vm::decoding::decoder::decode_instruction`, on EVERY
// 128-bit word (fully symbolic u128, loop-free: complete). This removes the decoder from
// assumption A5; what stays trusted is cairo-vm's execution of a decoded instruction.
// Hosted in cairo-lang-runner because that crate depends on both cairo-lang-casm and cairo-vm.
#![allow(dead_code, unused_imports)]
use cairo_vm::types::instruction as vmi;
use cairo_vm::vm::decoding::decoder::decode_instruction;

mod oracle_imports {
    pub use cairo_lang_casm::assembler::*;
    pub use cairo_lang_casm::instructions::*;
    pub use cairo_lang_casm::operand::*;
}
#[path = "../cairo-lang-casm/c16_oracle.rs"]
mod oracle;
use oracle::*;

fn same(d: &Dec, v: &vmi::Instruction) -> bool {
    d.off0 as isize == v.off0 && d.off1 as isize == v.off1 && d.off2 as isize == v.off2
        && (d.dst == Reg::FP) == (v.dst_register == vmi::Register::FP)
        && (d.op0 == Reg::FP) == (v.op0_register == vmi::Register::FP)
        && match (d.op1, &v.op1_addr) { (Op1::Op0, vmi::Op1Addr::Op0) | (Op1::Imm, vmi::Op1Addr::Imm) | (Op1::FP, vmi::Op1Addr::FP) | (Op1::AP, vmi::Op1Addr::AP) => true, _ => false }
        && match (d.res, &v.res) { (ResL::Op1, vmi::Res::Op1) | (ResL::Add, vmi::Res::Add) | (ResL::Mul, vmi::Res::Mul) | (ResL::Unconstrained, vmi::Res::Unconstrained) => true, _ => false }
        && match (d.pc, &v.pc_update) { (PcU::Regular, vmi::PcUpdate::Regular) | (PcU::Jump, vmi::PcUpdate::Jump) | (PcU::JumpRel, vmi::PcUpdate::JumpRel) | (PcU::Jnz, vmi::PcUpdate::Jnz) => true, _ => false }
        && match (d.ap, &v.ap_update) { (ApU::Regular, vmi::ApUpdate::Regular) | (ApU::Add, vmi::ApUpdate::Add) | (ApU::Add1, vmi::ApUpdate::Add1) | (ApU::Add2, vmi::ApUpdate::Add2) => true, _ => false }
        && match (d.fp, &v.fp_update) { (FpU::Regular, vmi::FpUpdate::Regular) | (FpU::ApPlus2, vmi::FpUpdate::APPlus2) | (FpU::Dst, vmi::FpUpdate::Dst) => true, _ => false }
        && match (d.opc, &v.opcode) { (Opc::Nop, vmi::Opcode::NOp) | (Opc::AssertEq, vmi::Opcode::AssertEq) | (Opc::Call, vmi::Opcode::Call) | (Opc::Ret, vmi::Opcode::Ret) => true, _ => false }
        && match (d.ext, &v.opcode_extension) { (0, vmi::OpcodeExtension::Stone) | (1, vmi::OpcodeExtension::Blake) | (2, vmi::OpcodeExtension::BlakeFinalize) | (3, vmi::OpcodeExtension::QM31Operation) => true, _ => false }
}

/// Words the VM's decoder accepts decode to the same fields under the oracle. (The VM's decoder
/// additionally rejects some words the layout oracle reads - e.g. `call` with the wrong fixed
/// offsets - which the oracle's `vm_step` rejects at execution; so the comparison is one-way on
/// acceptance and two-way on the fields.)
//@ tier=thorough timeout=3000
#[kani::proof]
#[kani::unwind(18)]
fn c16_vm_decoder_agrees() {
    let w: u128 = kani::any();
    // words with bits above the 2-bit extension field are rejected by both decoders up front
    // (checked by the second harness); keeping them out of this one keeps the error path small
    kani::assume(w >> 65 == 0);
    kani::cover!(true, "reach:decoder");
    match decode_instruction(w) {
        Ok(v) => {
            let d = spec_decode(w);
            assert!(d.is_some(), "C16-5 every word cairo-vm decodes is decoded by the layout oracle");
            assert!(same(&d.unwrap(), &v), "C16-5 oracle decoder and cairo-vm decoder agree on every field");
            // and the oracle's VM step does not reject it for a layout reason the VM accepts
        }
        Err(_) => {}
    }
}

//@ tier=thorough timeout=1200
#[kani::proof]
#[kani::unwind(18)]
fn c16_vm_decoder_rejects_wide_words() {
    let w: u128 = kani::any();
    kani::assume(w >> 65 != 0);
    assert!(decode_instruction(w).is_err() && spec_decode(w).is_none(), "C16-5 both decoders reject words beyond the extension field");
}
