// PROBE: appended to crates/cairo-lang-casm/src/ap_change.rs, with
//   #[cfg_attr(kani, kani::ensures(..))] #[cfg_attr(kani, kani::modifies(self))]
// inserted above `fn apply_known_ap_change` of `impl ApplyApChange for CellRef`.
// cargo kani -p cairo-lang-casm -Z function-contracts -Z stubbing
// `cellref_contract` SUCCESSFUL 0.2 s; `binop_modular` uses "Verified stub" (0.4 s).
// NOTE: the contract must be an IFF (ok <=> FP || (k <= 32767 && off - k >= -32768));
// a one-directional `ok ==> ...` lets the stub return ok for 32767 < k <= 65535.
use super::*;
fn any_cell() -> CellRef { CellRef { register: if kani::any() { Register::FP } else { Register::AP }, offset: kani::any() } }
impl kani::Arbitrary for Register { fn any() -> Self { if kani::any() { Register::FP } else { Register::AP } } }
impl kani::Arbitrary for CellRef { fn any() -> Self { CellRef { register: kani::any(), offset: kani::any() } } }

#[kani::proof_for_contract(<CellRef as ApplyApChange>::apply_known_ap_change)]
fn cellref_contract() {
    let mut c = any_cell();
    c.apply_known_ap_change(kani::any());
}

#[kani::proof]
#[kani::stub_verified(<CellRef as ApplyApChange>::apply_known_ap_change)]
fn binop_modular() {
    let a = any_cell();
    let b = any_cell();
    let k: usize = kani::any();
    let mut op = BinOpOperand { op: crate::operand::Operation::Add, a, b: DerefOrImmediate::Deref(b) };
    let _ok = op.apply_known_ap_change(k);
    // assertions against the spec `shift` go here
}
