// PROBE: appended to crates/cairo-lang-casm/src/builder.rs (scratch copy) as
//   #[cfg(kani)] #[path = ".../kani_inject_builder_next_instruction.rs"] mod __verif_builder_probe;
// cargo kani -p cairo-lang-casm --harness next_instruction_contract  => SUCCESSFUL, 3.3 s
use super::*;

#[kani::proof]
#[kani::unwind(4)]
fn next_instruction_contract() {
    let mut b = CasmBuilder::default();
    b.main_state.allocated = kani::any();
    b.main_state.ap_change = kani::any();
    b.main_state.steps = kani::any();
    b.next_instruction_offset = kani::any();
    kani::assume(b.main_state.allocated >= 0);
    kani::assume(b.main_state.ap_change < (1usize << 48));
    kani::assume(b.main_state.steps < (1usize << 48));
    kani::assume(b.next_instruction_offset < (1usize << 48));
    let (alloc0, ap0, steps0, off0) = (b.main_state.allocated, b.main_state.ap_change, b.main_state.steps, b.next_instruction_offset);
    let sup: bool = kani::any();
    let body = if kani::any() { InstructionBody::Ret(RetInstruction {}) } else {
        InstructionBody::Jump(JumpInstruction { target: deref_or_immediate!(BigInt::ZERO), relative: true }) };
    let size = body.op_size();
    let ins = b.next_instruction(body, sup);
    let expect_inc = sup && (alloc0 as usize) > ap0;
    assert!(ins.inc_ap == expect_inc);
    assert!(b.main_state.ap_change == ap0 + expect_inc as usize);
    assert!(b.main_state.steps == steps0 + 1);
    assert!(b.next_instruction_offset == off0 + size);
    assert!(b.main_state.allocated == alloc0);
}
