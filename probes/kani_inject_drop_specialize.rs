// PROBE: appended to crates/cairo-lang-sierra/src/extensions/modules/drop.rs. SUCCESSFUL, 55 s.
use super::*;
use crate::extensions::types::TypeInfo;
use crate::extensions::type_specialization_context::TypeSpecializationContext;
use crate::extensions::lib_func::SignatureSpecializationContext;
use crate::ids::{ConcreteTypeId, GenericTypeId, FunctionId};
use crate::program::{ConcreteTypeLongId, FunctionSignature, GenericArg};

struct Ctx { known: u64, info: TypeInfo }
impl TypeSpecializationContext for Ctx {
    fn try_get_type_info<'a>(&'a self, id: &ConcreteTypeId) -> Option<&'a TypeInfo> {
        if id.id == self.known { Some(&self.info) } else { None }
    }
}
impl SignatureSpecializationContext for Ctx {
    fn try_get_concrete_type(&self, _id: GenericTypeId, _a: &[GenericArg]) -> Option<ConcreteTypeId> { None }
    fn try_get_function_signature(&self, _f: &FunctionId) -> Option<FunctionSignature> { None }
}

#[kani::proof]
#[kani::unwind(4)]
fn drop_specialize_contract() {
    let droppable: bool = kani::any();
    let ctx = Ctx { known: kani::any(), info: TypeInfo {
        long_id: ConcreteTypeLongId { generic_id: GenericTypeId::new_inline("T"), generic_args: vec![] },
        storable: kani::any(), droppable, duplicatable: kani::any(), zero_sized: kani::any() } };
    let q: u64 = kani::any();
    let args = [GenericArg::Type(ConcreteTypeId::new(q))];
    let r = DropLibfunc::default().specialize_signature(&ctx, &args);
    if q == ctx.known {
        assert!(r.is_ok() == droppable);
        if let Ok(sig) = r {
            assert!(sig.param_signatures.len() == 1 && sig.param_signatures[0].ty.id == q);
            assert!(sig.branch_signatures.len() == 1 && sig.branch_signatures[0].vars.is_empty());
        }
    } else { assert!(r.is_err()); }
}
