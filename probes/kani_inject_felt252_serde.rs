// PROBE: appended to crates/cairo-lang-starknet-classes/src/felt252_serde.rs
// (the trait Felt252Serde is private). usize_roundtrip 2 s, branch_target_roundtrip 11 s,
// usize_deser_total_u128 35 s. NOT terminating: BigUint from symbolic digit vectors,
// GenericArg::Value round trip (even over i64).
use super::*;
use num_bigint::BigUint;

fn deser_one<T: Felt252Serde>(b: &BigUint) -> (Result<T, Felt252SerdeError>, usize) {
    let vals: Vec<&BigUint> = vec![b];
    let mut it = vals.into_iter();
    let y = T::deserialize(&mut it);
    (y, it.len())
}

#[kani::proof]
#[kani::unwind(12)]
fn usize_roundtrip() {
    let x: usize = kani::any();
    let mut out: Vec<BigUintAsHex> = Vec::new();
    x.serialize(&mut out).unwrap();
    assert!(out.len() == 1);
    let vals: Vec<&BigUint> = out.iter().map(|v| &v.value).collect();
    let mut it = vals.into_iter();
    let y = usize::deserialize(&mut it);
    assert!(y == Ok(x));
    assert!(it.len() == 0);
}

#[kani::proof]
#[kani::unwind(8)]
fn usize_deser_total_u128() {
    let v: u128 = kani::any();
    let b = BigUint::from(v);
    let (y, rest) = deser_one::<usize>(&b);
    assert!(rest == 0);
    if v <= usize::MAX as u128 { assert!(y == Ok(v as usize)); } else { assert!(y.is_err()); }
}

#[kani::proof]
#[kani::unwind(12)]
fn branch_target_roundtrip() {
    let x: usize = kani::any();
    let t = if kani::any() { BranchTarget::Fallthrough } else { kani::assume(x != usize::MAX); BranchTarget::Statement(StatementIdx(x)) };
    let mut out: Vec<BigUintAsHex> = Vec::new();
    t.serialize(&mut out).unwrap();
    let vals: Vec<&BigUint> = out.iter().map(|v| &v.value).collect();
    let mut it = vals.into_iter();
    let y = BranchTarget::deserialize(&mut it).unwrap();
    assert!(y == t);
}
