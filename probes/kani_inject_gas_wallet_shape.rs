// PROBE: appended to crates/cairo-lang-sierra-to-casm/src/environment/gas_wallet.rs.
// Fixed key shape, symbolic values => SUCCESSFUL in 19 s. Symbolic shapes never terminate.
use super::*;
fn val(m: &CostTokenMap<i64>, k: CostTokenType) -> i64 { m.get(&k).copied().unwrap_or(0) }
fn bounded() -> i64 { let v: i64 = kani::any(); kani::assume(v > -(1i64 << 60) && v < (1i64 << 60)); v }

#[kani::proof]
#[kani::unwind(4)]
fn wallet_update_shape_11_11() {
    let (a, b, x, y) = (bounded(), bounded(), bounded(), bounded());
    let w = CostTokenMap::from_iter([(CostTokenType::Const, a), (CostTokenType::Pedersen, b)]);
    let c = CostTokenMap::from_iter([(CostTokenType::Const, x), (CostTokenType::Pedersen, y)]);
    let r = GasWallet::Value(w).update(c);
    let neg = a - x < 0 || b - y < 0;
    match r {
        Ok(GasWallet::Value(m)) => { assert!(!neg); assert!(val(&m, CostTokenType::Const) == a - x); assert!(val(&m, CostTokenType::Pedersen) == b - y); }
        Ok(GasWallet::Disabled) => assert!(false),
        Err(GasWalletError::OutOfGas { token_type, .. }) => { assert!(neg); assert!((token_type == CostTokenType::Const && a - x < 0) || (token_type == CostTokenType::Pedersen && b - y < 0)); }
    }
}
