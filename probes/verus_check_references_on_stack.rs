// PROBE: `check_references_on_stack` verbatim from
// crates/cairo-lang-sierra-to-casm/src/invocations/mod.rs. Verus accepts the two
// `.iter().rev()` loops and reports exactly one error:
//   possible arithmetic underflow/overflow  -->  expected_offset -= 1;
// which is finding F3.
use vstd::prelude::*;
verus! {
#[derive(Copy, Clone, Debug, Hash, PartialEq, Eq)]
pub enum Register { AP, FP }
#[derive(Copy, Clone, Debug, Eq, PartialEq)]
pub struct CellRef { pub register: Register, pub offset: i16 }
#[verifier::external_body]
pub struct BigInt { _p: u8 }
pub enum CellExpression { Deref(CellRef), DoubleDeref(CellRef, i16), Immediate(BigInt) }
pub struct ReferenceExpression { pub cells: Vec<CellExpression> }
pub struct ReferenceValue { pub expression: ReferenceExpression, pub stack_idx: Option<usize> }
pub enum InvocationError { InvalidReferenceExpressionForArgument }

pub fn check_references_on_stack(refs: &[ReferenceValue]) -> (r: Result<(), InvocationError>)
{
    let mut expected_offset: i16 = -1;
    for reference in refs.iter().rev() {
        for cell_expr in reference.expression.cells.iter().rev() {
            match cell_expr {
                CellExpression::Deref(CellRef { register: Register::AP, offset })
                    if *offset == expected_offset =>
                {
                    expected_offset -= 1;
                }
                _ => return Err(InvocationError::InvalidReferenceExpressionForArgument),
            }
        }
    }
    Ok(())
}
}
fn main() {}
