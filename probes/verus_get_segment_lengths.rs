// PROBE: `get_segment_lengths` verbatim from contract_segmentation.rs plus
// requires/ensures, one loop invariant and two ghost lines. 3 verified (1.7 s).
use vstd::prelude::*;
verus! {
pub open spec fn sum(s: Seq<usize>) -> int decreases s.len() {
    if s.len() == 0 { 0 } else { sum(s.drop_last()) + s.last() as int }
}
pub open spec fn sorted(s: Seq<usize>) -> bool { forall|i: int, j: int| 0 <= i <= j < s.len() ==> s[i] <= s[j] }

fn get_segment_lengths(segment_starts_offsets: &[usize], bytecode_len: usize) -> (r: Vec<usize>)
    requires segment_starts_offsets.len() > 0, sorted(segment_starts_offsets@), segment_starts_offsets@.last() <= bytecode_len,
    ensures sum(r@) == bytecode_len - segment_starts_offsets@[0], forall|i:int| 0<=i<r.len() ==> r@[i] > 0,
{
    let mut segment_lengths = vec![];
    for i in 1..segment_starts_offsets.len()
        invariant sorted(segment_starts_offsets@), sum(segment_lengths@) == segment_starts_offsets@[i-1] - segment_starts_offsets@[0],
           forall|k:int| 0<=k<segment_lengths.len() ==> segment_lengths@[k] > 0,
    {
        let segment_size = segment_starts_offsets[i] - segment_starts_offsets[i - 1];
        if segment_size > 0 {
            let ghost prev = segment_lengths@;
            segment_lengths.push(segment_size);
            proof { assert(segment_lengths@.drop_last() == prev); }
        }
    }
    let last_offset =
        segment_starts_offsets.last().expect("Segmentation error: No function found.");
    let segment_size = bytecode_len - last_offset;
    if segment_size > 0 {
        let ghost prev = segment_lengths@;
        segment_lengths.push(segment_size);
        proof { assert(segment_lengths@.drop_last() == prev); }
    }
    segment_lengths
}
}
fn main() {}
