// PROBE (DESIGN.md §3): `EditState::take_vars` loop body verbatim from
// crates/cairo-lang-sierra/src/edit_state.rs; parameter instantiated to a slice
// (transformation 4); map abstracted with an assumed `swap_remove` spec.
// `verus verus_take_vars.rs` => 2 verified, 0 errors.
use vstd::prelude::*;
verus! {

#[derive(Debug)]
pub struct VarId { pub id: u64 }
impl Clone for VarId {
    #[verifier::external_body]
    fn clone(&self) -> (r: Self) ensures r == *self { VarId { id: self.id } }
}

#[verifier::external_body]
#[verifier::reject_recursive_types(V)]
pub struct OrderedHashMap<V> { _p: core::marker::PhantomData<V> }

impl<V> OrderedHashMap<V> {
    pub uninterp spec fn view(&self) -> Map<u64, V>;

    #[verifier::external_body]
    pub fn swap_remove(&mut self, k: &VarId) -> (r: Option<V>)
        ensures
            old(self)@.contains_key(k.id) ==> r == Some(old(self)@[k.id]) && final(self)@ == old(self)@.remove(k.id),
            !old(self)@.contains_key(k.id) ==> r.is_none() && final(self)@ == old(self)@,
    { unimplemented!() }
}

#[derive(Debug)]
pub enum EditStateError {
    MissingReference(VarId),
    VariableOverride(VarId),
}

pub open spec fn distinct(s: Seq<VarId>) -> bool { forall|i:int, j:int| 0<=i<j<s.len() ==> s[i].id != s[j].id }

pub fn take_vars<'a, V>(
    this: &mut OrderedHashMap<V>,
    ids: &'a [VarId],
) -> (r: Result<Vec<V>, EditStateError>)
    ensures
        r.is_ok() <==> (distinct(ids@) && forall|i:int| 0<=i<ids.len() ==> old(this)@.contains_key(ids@[i].id)),
        r matches Ok(vals) ==> {
            &&& vals.len() == ids.len()
            &&& forall|i:int| 0<=i<ids.len() ==> vals@[i] == old(this)@[ids@[i].id]
            &&& forall|k: u64| final(this)@.contains_key(k) <==> (old(this)@.contains_key(k) && !(exists|i:int| 0<=i<ids.len() && ids@[i].id == k))
            &&& forall|k: u64| final(this)@.contains_key(k) ==> final(this)@[k] == old(this)@[k]
        },
{
    let mut vals = Vec::with_capacity(ids.len());
    for id in it: ids.iter()
        invariant
            it.index@ <= ids.len(),
            vals.len() == it.index@,
            distinct(ids@.subrange(0, it.index@ as int)),
            forall|i:int| 0<=i<it.index@ ==> old(this)@.contains_key(#[trigger] ids@[i].id) && vals@[i] == old(this)@[ids@[i].id],
            forall|k: u64| this@.contains_key(k) <==> (old(this)@.contains_key(k) && !(exists|i:int| 0<=i<it.index@ && #[trigger] ids@[i].id == k)),
            forall|k: u64| this@.contains_key(k) ==> this@[k] == old(this)@[k],
    {
        match this.swap_remove(id) {
            None => {
                proof {
                    let n = it.index@ as int;
                    if old(this)@.contains_key(ids@[n].id) {
                        let j = choose|j:int| 0<=j<n && ids@[j].id == ids@[n].id;
                        assert(!distinct(ids@));
                    }
                }
                return Err(EditStateError::MissingReference(id.clone()));
            }
            Some(v) => {
                vals.push(v);
            }
        }
    }
    proof { assert(ids@.subrange(0, ids.len() as int) =~= ids@); }
    Ok(vals)
}
}
fn main() {}
