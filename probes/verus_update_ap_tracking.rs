// PROBE: `update_ap_tracking` and the five types it mentions, verbatim (derives kept).
// `verus` => 5 verified, 0 errors (0.8 s).
use vstd::prelude::*;
verus! {
#[derive(Clone, Copy, Debug, Eq, PartialEq)]
pub struct StatementIdx(pub usize);
#[derive(Copy, Clone, Debug, Eq, Hash, PartialEq)]
pub enum ApChange { Known(usize), Unknown }
#[derive(Debug, Eq, PartialEq)]
pub enum ApChangeError { UnknownApChange, OffsetOverflow }
#[derive(Clone, Copy, Debug, Eq, PartialEq)]
pub enum ApTrackingBase { Statement(StatementIdx), FunctionStart }
#[derive(Clone, Copy, Debug, Eq, PartialEq)]
pub enum ApTracking { Disabled, Enabled { ap_change: usize, base: ApTrackingBase } }

pub open spec fn spec_update(t: ApTracking, c: ApChange) -> Result<ApTracking, ApChangeError> {
    match (t, c) {
        (ApTracking::Enabled { ap_change: current, base }, ApChange::Known(change)) =>
            if current + change <= usize::MAX { Ok(ApTracking::Enabled { ap_change: (current + change) as usize, base }) } else { Err(ApChangeError::OffsetOverflow) },
        _ => Ok(ApTracking::Disabled),
    }
}

pub fn update_ap_tracking(
    ap_tracking: ApTracking,
    ap_change: ApChange,
) -> (r: Result<ApTracking, ApChangeError>)
    ensures r == spec_update(ap_tracking, ap_change)
{
    Ok(match (ap_tracking, ap_change) {
        (ApTracking::Enabled { ap_change: current, base }, ApChange::Known(change)) => {
            ApTracking::Enabled {
                ap_change: current.checked_add(change).ok_or(ApChangeError::OffsetOverflow)?,
                base,
            }
        }
        _ => ApTracking::Disabled,
    })
}
}
fn main() {}
