#!/bin/sh
# usage: selftest/mkmut.sh <name> <property> <expect VIOLATION|OK> <obligation_regex> <units,comma> <relpath> <sed-expr> [<relpath> <sed-expr>...]
# Builds selftest/<name>.diff from sed edits on a throw-away copy of the named files and writes selftest/<name>.json.
set -e
name=$1; prop=$2; expect=$3; rx=$4; units=$5; shift 5
tmp=$(mktemp -d /var/tmp/mkmut.XXXXXX)
: > "$(dirname "$0")/$name.diff"
while [ $# -ge 2 ]; do
  f=$1; e=$2; shift 2
  mkdir -p "$tmp/a/$(dirname $f)" "$tmp/b/$(dirname $f)"
  [ -f "$tmp/b/$f" ] || { cp /repo/$f "$tmp/a/$f"; cp /repo/$f "$tmp/b/$f"; }
  sed -i "$e" "$tmp/b/$f"
done
(cd $tmp && diff -ru a b) >> "$(dirname "$0")/$name.diff" || true
[ -s "$(dirname "$0")/$name.diff" ] || { echo "mutant $name: sed changed nothing"; rm -rf $tmp; exit 1; }
python3 - "$name" "$prop" "$expect" "$rx" "$units" "$(dirname "$0")" <<'PY'
import json,sys
name,prop,expect,rx,units,d=sys.argv[1:]
json.dump({'property':prop,'only':[u for u in units.split(',') if u],'patch':'selftest/%s.diff'%name,'expect':expect,'obligation_regex':rx},open('%s/%s.json'%(d,name),'w'),indent=1)
PY
rm -rf $tmp
echo "wrote selftest/$name.{diff,json}"
